#!/usr/bin/env bash
# setup_cmd: offline release build of the monitor harness (path deps on /repo)
set -e
cd "$(dirname "$0")"
export CARGO_NET_OFFLINE=true
cp -n /repo/Cargo.lock harness/Cargo.lock 2>/dev/null || true
( cd harness && RUSTFLAGS=-Awarnings cargo build --release --offline --bins )
mkdir -p evidence replays
echo "setup ok"
