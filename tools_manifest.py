#!/usr/bin/env python3
"""Regenerates MANIFEST.json from the table below (kept in one place so the manifest stays valid)."""
import json, subprocess, sys

CHECKS = {
 "C01": dict(
   technique="runtime monitor: identity-tagged datasets through fold/iter_fold/cross_validate, index-arithmetic oracle + mock models with failure injection; small scopes enumerated completely",
   text="Every (n,k) up to a bound is executed against the real fold / iter_fold / cross_validate code with identity-tagged rows; an independent index-arithmetic oracle decides partition, attachment, restoration, mean-of-folds score and error surfacing on each execution. Exploration: exhaustive in the enumerated (n,k,shape) scope, sampled beyond it.",
   note="Trusts the harness oracle (index arithmetic, mock Fit/Predict types), rustc and ndarray. Row identity is carried by f64 tags; other element types share the generic code.",
   ref="DESIGN.md §5 C01"),
 "C13": dict(
   technique="runtime monitor: KKT/dual-feasibility oracle recomputed in f64 from the published alpha, rho and the harness's own kernel functions over random SVM fits (5 problem kinds x 3 kernels x shrinking on/off x f32/f64), decision-value/label/Platt/nsupport consistency on fresh points",
   text="Each generated fit of the real SMO solver is judged by an independent oracle: box and equality constraints, KKT conditions per coefficient class up to the configured solver eps (scaled by the recovered margin r for nu-SVC), decision value = sum alpha_i K(x_i,x) - rho with the harness's kernel, labels = sign, Platt output monotone in [0,1], nsupport recounted. Exploration over randomised datasets and the configuration grid; nothing is proved.",
   note="Trusts the harness's f64 kernel/KKT arithmetic, rustc, ndarray. Tolerance = solver eps (+ noise floor 1024*eps_F*n*(sum|alpha K|+|rho|+1)); degenerate nu-SVC fits (margin r<=0) and fits that stop on the iteration cap are inconclusive. nu-SVR's missing nu constraint is a recorded known finding.",
   ref="DESIGN.md §5 C13"),
 "C03": dict(
   technique="runtime monitor: metamorphic batch-vs-single-row oracle over a zoo of fitted predictors x 8 batch compositions x 7 calling forms x 4 memory layouts; composite wrappers judged against harness-defined member models",
   text="Every fitted instance of every predictor family is driven through all calling forms and layouts; the prediction of each row alone is the reference for every batch (exact for labels, noise floor for reals), output counts and handed-back records are checked, MultiTarget/MultiClass/Platt wrappers are compared with members whose outputs the harness controls (ties, |f| up to 1e300). Exploration over seeds and batch compositions.",
   note="Trusts the zoo's conversion of outputs to f64 and the noise floor 1024*eps_F*p*(1+max|output|) for differently blocked matrix products. Models whose fit legitimately errors are inconclusive.",
   ref="DESIGN.md §5 C03"),
 "C19": dict(
   technique="runtime monitor: bincode / JSON round trips of every serde-offering value kind (fitted models, parameter sets, transformers, results, selectors, errors); oracle = PartialEq + serde image equality + bit-identical behaviour on fixed inputs + second-trip fixed point",
   text="Every value kind that offers serde under the crates' serde feature is built for several seeds, round-tripped through bincode, JSON and pretty JSON (serde_json with float_roundtrip), and the restored value is compared with the original: equality where defined, learned state, bit patterns of predictions/transforms, validation verdicts and refits of parameter sets, the documented tokenizer guard. Exploration over value kinds and seeds.",
   note="Trusts serde_json (float_roundtrip) and bincode as lossless carriers for finite floats; JSON is skipped for images containing null. Kernel/KernelView offer no usable serialisation (unsatisfiable derive bound) and are not monitored.",
   ref="DESIGN.md §5 C19"),
 "C20": dict(
   technique="runtime monitor: repeated fits under varied schedules (rayon pools 1..16 threads, noise threads, fresh child processes with fresh hash seeds and RAYON_NUM_THREADS) compared by canonical bit-pattern digests of learned quantities and predictions; scheduling probe counts distinct chunk-to-worker maps",
   text="Every estimator is refitted from identical data/parameters/seed in thread pools of different sizes under contention and in fresh processes; the canonical dump (bit patterns; label/word-keyed maps in key order) must be identical. Large datasets make the parallel k-means/GMM loops split; hash-order sensitive cases (tied leaves, tied posteriors, cluster ids, weighted impurity sums) and default-seeded builders are included. Interleavings are sampled, not enumerated.",
   note="Trusts the canonical dump (serde_json objects sorted by key, f64 bit patterns). k-means||, p-values, unseeded FastICA and t-SNE are excluded exactly as the property says. The evidence reports how many distinct schedules the probe observed.",
   ref="DESIGN.md §5 C20"),
 "C02": dict(
   technique="runtime history monitor: random programs of 1-8 dataset operations over identity-tagged datasets (records, targets, weights, names), exact decode-and-check oracle per step; enumerated sweeps for split ratios, label filters, chunking and the three iterators",
   text="Each program applies real dataset operations one after another (every output feeding the next, owned and view forms, Ix1/Ix2 targets, three label types, hostile memory layouts incl. arrays sliced in place); after every step the oracle decodes every returned cell back to its original sample/column and checks alignment and the documented selection law exactly. Four small scopes (split ratios, label matrices, chunk sizes, iterators) are enumerated completely.",
   note="Trusts the tag arithmetic (all tags < 2^24, exact in f32/f64) and the harness's own reading of the selection laws from the property text. Results that legitimately drop weights/names are not alarms; a 0-row strided view hitting ndarray's debug assertion is inconclusive.",
   ref="DESIGN.md §5 C02"),
 "C05": dict(
   technique="runtime monitor: first-principles reference implementations (f64, compensated sums) of every metric over exhaustive small label/score spaces and random vectors, all receiver/argument forms and layouts, permutation metamorphic check",
   text="Confusion-matrix cells and derived scores, ROC/AUC (Mann-Whitney with ties 1/2), log-loss, the eight regression scores per column, silhouette and Pearson coefficients are recomputed from their definitions for every generated input: all label-vector pairs over a 3-symbol alphabet up to length 5 (7 thorough), all score vectors on the 1/8 grid up to length 5 (6), random longer inputs with offsets/scales, f32 and f64. Exhaustive inside those scopes, sampled outside.",
   note="Trusts the harness oracles and the Debug rendering used to read private confusion-matrix cells. Noise-floor comparisons sit >= 77x above the largest clean residual. The explained-variance formula defect is a recorded known finding with a discriminating signature.",
   ref="DESIGN.md §5 C05"),
 "C17": dict(
   technique="runtime monitor: independent recounter (NFKD, lowercase, tokenise, n-gram windows, document-frequency window, stop words, feature cap with tie class, idf formulas) over exhaustive small corpora x settings and random corpora",
   text="Vocabulary, count matrix (training and unseen documents) and tf-idf entries of the real vectorisers are compared cell by cell with a naive recount written from the documented semantics, for every corpus over a 2-word alphabet up to 3 documents x 360 settings (more in thorough) and random corpora with hostile text (accents, ligatures, punctuation, empty documents). Exact comparison; tf-idf with a 64*eps floor.",
   note="Trusts the regex crate for regex tokenisers (same expression on both sides) and unicode-normalization. fit_files/transform_files are not driven (need the encoding crate).",
   ref="DESIGN.md §5 C17"),
 "C08": dict(
   technique="runtime monitor: brute-force DBSCAN definition oracle (core set, union-find over the core graph, border reachability, contiguous labels) and OPTICS oracle (exactly-once listing, core distance, reachability witness search) over generated point sets x 3 metrics x 3 neighbour indices, cross-index equality, generic and on-radius tolerance classes, small scopes enumerated",
   text="Every DBSCAN/OPTICS run of the real code is judged against the density-clustering definition recomputed by brute force in the element type, and the three neighbour indices must give equal outputs. Tolerances strictly between inter-point distances are decided strictly; tolerances exactly on an inter-point distance (exact-arithmetic data only) accept either reading but the same one for all indices. All point sequences up to n=7 over 5 positions (1-D) and small 2-D grids are enumerated.",
   note="Trusts the harness distance formulas; a generic-tolerance case with a pair inside the 4(p+2)eps band is inconclusive. Zero-feature input is an ambiguity class (both 'all noise' and 'one cluster' accepted). OPTICS ordering optimality is outside the property text.",
   ref="DESIGN.md §5 C08"),
 "C09": dict(
   technique="runtime monitor: brute-force nearest-centroid oracle on training and fresh points, trajectory replay (iterate m must be the documented mean-with-old-centroid update of iterate m-1, obtained through max_n_iterations = 1..M from precomputed centroids), restart/inertia monotonicity, complete enumeration of small 1-D/2-D scopes",
   text="Each k-means fit of the real code is judged in f64: shape/finiteness/bounding box, predict = admissible arg-min and transform = minimal reduced distance (training, fresh and tie points), every iterate of a trajectory equals the documented update of the previous one with counts/inertia of that assignment, L2 cost non-increasing, more restarts never raise the inertia, counts describe the returned centroids. All multisets over small lattices x every k x every ordered choice of initial rows are enumerated.",
   note="Trusts the harness distance/update arithmetic; ties are resolved by enumerating admissible assignments (<= 4096, else inconclusive). The cost increase of the mean update under non-L2 metrics is a recorded known finding with a discriminating signature; k-means|| is judged per model only.",
   ref="DESIGN.md §5 C09"),
 "C10": dict(
   technique="runtime monitor: validity oracle of the published mixture in f64 (weights, bounding box, symmetric PD covariances via own Cholesky/Jacobi, precision*covariance = I, moment identities) and per-query probability oracle (finite, non-negative, rows sum to 1, label = arg-max, posterior of the published mixture) on queries 10..1e6 sigmas away incl. far decision boundaries; exhaustive small 1-D scope",
   text="Every successful GMM fit of the real code (random, hostile and degenerate datasets, both initialisers, f32/f64) is judged: parameter validity conditions from the property, and membership probabilities / predicted component on training rows, means, and rows at controlled sigma-distances (incl. the radii where exponentials underflow) in four memory layouts. All multisets of up to 5 (7) values from {0,1,2,3} x K x initialiser x regularisation are enumerated.",
   note="Trusts the harness mixture evaluation (max-shifted posterior, own Cholesky). Fit errors are inconclusive, panics violations. Posterior comparison and moment identities go beyond the literal text (own signatures). Rows whose squared distance overflows the element type are not generated.",
   ref="DESIGN.md §5 C10"),
 "C04": dict(
   technique="runtime monitor: table of documented parameter ranges x boundary grids (adjacent floats, -0.0, tiny/huge, usize::MAX) for every builder; oracle compares check_ref / check / check_unwrap / unchecked fit, fit_with, transform verdicts and error values, counts rng/distance uses after a rejected call",
   text="For every parameter builder in the workspace the full cross product of per-parameter boundary grids (pairwise + random sample for the three largest SVM tables in quick) is pushed through check_ref, check, check_unwrap and every entry point of the unchecked builder; the table (transcribed from the documentation) says accept / reject / unspecified, the unchecked forms must return exactly the guard's error without panicking or training, valid points must behave like their checked form. Exhaustive over the grids.",
   note="Trusts the transcription of documented ranges into the table; boundaries worded inconsistently in the docs are 'unspecified' (only agreement between check, check_ref and fit is demanded). Non-finite parameter values are outside the property.",
   ref="DESIGN.md §5 C04"),
 "C06": dict(
   technique="runtime monitor: kernel-function oracle per cell (f64), symmetry/diagonal/PSD, sparse-pattern oracle from exact rank counting across the three neighbour indices, accessor consistency; hierarchical clustering judged by union-find components (single linkage), kodama dendrogram cut and an independent naive Lance-Williams agglomeration; exhaustive small lattice scope",
   text="Dense and sparse kernels built by the real code are compared cell by cell with the kernel function, sparse storage patterns with the k-nearest-neighbour definition (ties = ambiguity band), accessors with the rebuilt matrix; agglomerative clustering with cluster counts 1..n+2 and thresholds at / between / outside all merge heights for 7 linkages against three independent judges. All sequences of 2..5 points on a 3x2 lattice x all k x 3 indices x 7 linkages are enumerated.",
   note="Trusts the harness kernel/linkage arithmetic and kodama for tie/inversion classes. A watchdog without verdict power ends a hung hierarchical call (exit 3 unless violations were already recorded).",
   ref="DESIGN.md §5 C06"),
 "C14": dict(
   technique="runtime monitor: invariant walker over the published tree with the training set routed by the prediction rule (depth, children, min_weight_split/leaf, impurity decrease recomputed in f64, leaf majority, importances), fit/predict routing agreement on threshold-equal values; worker processes isolate aborting fits; exhaustive small scopes",
   text="Every fitted tree of the real code is copied through the public observers and judged against the property's structural and statistical conditions using brute-force routing of the training set; values equal to a threshold are walked with both comparisons and one reading must explain statistics and predictions together. Three complete small scopes (all feature patterns x labellings x 32-64 parameter sets, 9.5M fits quick) plus random hostile data (dense float neighbourhoods a few ulps apart, float weights, zero leaf weight, limit grid).",
   note="Trusts the harness impurity arithmetic (thresholds 256*eps32*S, >= 69x above clean residuals). Cases run in worker processes: a worker death is C14/fit/process-abort. Split optimality is not part of the property and not judged.",
   ref="DESIGN.md §5 C14"),
 "C15": dict(
   technique="runtime history monitor: every incremental update judged from the observed previous state against the documented recurrence (naive Bayes textbook statistics vs single fit; mini-batch k-means running mean and cumulative counts; FTRL per-coordinate z/n update incl. injected states through serde), all 2^(n-1) cuts of small datasets enumerated",
   text="Random datasets are cut into ordered batches in many ways (and every cut of small datasets is enumerated); after each fit_with the model state (read through serde/bincode) is compared with the textbook estimate / recurrence applied to the previous observed state, predictions must maximise the posterior, convergence flags must be truthful, replays must be bit-identical, FTRL weights exactly zero inside the l1 band. Exhaustive over cuts of 8-11-row datasets, sampled beyond.",
   note="Trusts the harness recurrences in f64 and the bincode mirror structs for private state. About 4% of FTRL histories (beta = l2 = 0 at n = 0) and tie-enumeration overflows are inconclusive.",
   ref="DESIGN.md §5 C15"),
 "C16": dict(
   technique="runtime monitor: postcondition oracle on transformed training data (means/variances/ranges/norms/identity covariance, corrected two-pass statistics in f64), affine-map oracle from definition and from the published accessors on unseen data, row-selection/permutation/layout metamorphic checks, dataset pass-through, exhaustive tiny matrices; Miri lane over the transmute path",
   text="Scalers and whiteners of the real code are fitted on hostile matrices (offsets to 1e9, spreads to 1e-6, constant/zero columns, zero rows, n from 1, f32/f64) and judged on the training matrix and on unseen rows against the normalisation the property states and against the affine map read off their accessors; all matrices with n<=3, p<=2 over {-1,0,1,2} are enumerated for every variant; empty training data must be rejected.",
   note="Trusts the harness statistics; ill-conditioned columns (tolerance > 0.02) are skipped and counted; columns inside the code's absolute constant-guard accept either outcome. The rare rotated-singular-plane fault of the external linfa-linalg SVD is a recorded known finding with a discriminating signature.",
   ref="DESIGN.md §5 C16"),
 "C07": dict(
   technique="runtime monitor: brute-force neighbour oracle (own L1/L2/Linf/Lp formulas in f64) for k-nearest and range queries of the three index kinds, cross-kind set equality incl. on-radius points, malformed-input error checks; exhaustive small 1-D/2-D scopes; child processes isolate the external kd-tree's stack overflow",
   text="Every answer of linear scan, k-d tree and ball tree is judged: count = min(k,n), distinct in-range indices, coordinates bit-equal to the stored row, ascending order, distances equal to the k smallest true distances (ties free), range results containing everything strictly inside and nothing strictly outside, the three kinds agreeing exactly (the ball tree included, since fix 83fa6eb); the provided metrics themselves are judged against the textbook value on every view layout. All 1-D sequences over {0..3} (n<=4) and all 3x3-grid sequences (n<=3, 4 thorough) x queries x k x radius classes x leaf sizes x 7 metrics (L1, L2, Linf, Lp with p = 1.5, 3, 2, 1) are enumerated; lattices and hostile clouds up to n=5000, dim 16, six batch layouts sampled.",
   note="Trusts the harness distance formulas; floors 32(dim+4)eps*d (>= 96x above clean residuals). The external kdtree 0.6 crate's infinite recursion on adjacent-float batches is a recorded known finding (observed only in a dedicated child-process family; in-process families skip the k-d tree for such batches).",
   ref="DESIGN.md §5 C07"),
 "C11": dict(
   technique="runtime monitor: KKT/optimality oracle in f64 - OLS residual orthogonality and SSE vs own Householder-QR solution; elastic net / lasso / ridge / multi-task: exact 1-D (block) minimiser per coordinate and for the intercept, joint suboptimality vs the harness's dual-certified optimum, exact zeros under the l1 threshold, duality-gap sanity; exhaustive small lattices",
   text="Each fit of the real estimators (offsets, column scales 1e-9..1e9, constant/collinear columns, 1-3 targets, f32/f64, five layouts) is judged against the optimality conditions of the documented objective: no coordinate or intercept move may lower the objective by more than reported_gap/n plus a noise floor, coefficients under the l1 threshold are exactly zero, the gap is non-negative. OLS and single-task lattices are enumerated completely; the T=2 multi-task lattice is sampled.",
   note="Trusts the harness objective arithmetic (floor 4096*eps*S, >= 2700x above clean residuals). Runs that exhaust the iteration budget without a provably ample budget, and ridge/penalty-0 runs where linfa's gap is vacuous, are judged against the configured tolerance or inconclusive.",
   ref="DESIGN.md §5 C11"),
 "C12": dict(
   technique="runtime monitor: analytic f64 gradient of the documented objectives (binary log-loss, softmax cross-entropy, 1/2(Tweedie deviance + alpha|w|^2) through the link) evaluated at the returned parameters; metamorphic label/order/layout sets; probability and decision oracles at |logit| up to 1e30; exhaustive small labellings; fits isolated in worker processes with a watchdog",
   text="Every returned logistic / multinomial / Tweedie model of the real code is judged by stationarity of the harness's own gradient (self-checked against central differences) up to the configured gradient tolerance plus a noise floor, by the reported class set, by probabilities in [0,1] / rows summing to one at extreme inputs, and by the predicted class being the one the probabilities and threshold imply; out-of-support targets must be rejected with the range error. All 62 labellings of 6 points and all 3-class labellings of 5 points are enumerated.",
   note="Trusts the harness gradients (max relative error vs central differences 1.9e-8). Separable alpha=0 data is excluded by the harness's own Newton iteration. A fit that does not answer within the watchdog, or Err fits (25% of GLM cases overflow on unscaled features), are inconclusive. The f32 start-point-returned-unchanged case of argmin's line search is a recorded known finding.",
   ref="DESIGN.md §5 C12"),
 "C18": dict(
   technique="runtime monitor: dense cyclic-Jacobi eigen-decomposition of the sample covariance (harness) as oracle for singular values, eigen-equation residuals, Davis-Kahan angle to the leading space, projected covariance, Ky-Fan captured variance, whitened covariance, transform/inverse round trip; complete small grids",
   text="Every fitted PCA (every k in 1..p, whitening on/off, hostile spectra, offsets and scales, four layouts) is judged against the oracle decomposition: orthonormal / correctly scaled components, sigma_i^2/(n-1) = i-th eigenvalue, eigenvector residual and subspace angle where the eigen-gap allows, uncorrelated projected coordinates with the reported variances, no k-dimensional projection retaining more variance, identity covariance after whitening, round trip = orthogonal projection, errors for empty data and k outside 1..p. A complete grid p <= 6 (9) x n-classes x data kinds x dressings x all k is enumerated.",
   note="Trusts the harness Jacobi routine (agrees with oracle.rs to 1e-14). Thresholds VEC 1e-6, VAL 1e-9, ORTH 1e-7 relative to lambda_1; eigenvector statements are skipped inside eigenvalue clusters narrower than 1e-3 lambda_1 at the k boundary (counted). Two faults of the external linfa-linalg crate (eigh plane rotation; LOBPCG non-convergence for p > 500, 5k <= p) are recorded known findings with discriminating signatures.",
   ref="DESIGN.md §5 C18"),
}

NOT_YET = {}

def main():
    props = [json.loads(l) for l in open("properties.jsonl")]
    checks, na = [], []
    for p in props:
        pid = p["id"]
        if pid in CHECKS:
            c = CHECKS[pid]
            checks.append({
                "property_id": pid,
                "quick_cmd": f"./check {pid} quick",
                "thorough_cmd": f"./check {pid} thorough",
                "evidence_file": f"/verif/evidence/{pid}.json",
                "replay_cmd_template": f"./check {pid} --replay {{path}}",
                "engine": "vcheck",
                "level_claimed": {"category": "exploration", "text": c["text"], "design_ref": c["ref"]},
                "level_note": c["note"],
                "technique": c["technique"],
            })
        else:
            na.append({"property_id": pid, "reason": NOT_YET.get(pid, "monitor not built yet in this round (planned, see DESIGN.md §5); not claimed until its check exists and is silent on the unchanged tree")})
    man = {
        "version": 1,
        "setup_cmd": "./setup.sh",
        "hooks": {
            "guard": "linfa_verif",
            "enable": "RUSTFLAGS=\"--cfg linfa_verif\" (no hook commits exist: every property is observed at the public API, through the crates' own serde feature, or through Debug output)",
            "baseline_off_cmd": "cd /repo && cargo nextest run --workspace --no-fail-fast --test-threads 8 --offline || cargo test --workspace --no-fail-fast --offline",
            "source_commits": [],
            "add_only": True,
        },
        "engines": [
            {"name": "vcheck", "path": "/verif/harness", "serves_properties": [c["property_id"] for c in checks],
             "kind_free_text": "Rust binary linking the real linfa crates from /repo (path deps, release + debug-assertions + overflow-checks); per-property workload generators, reference oracles and history checkers; writes evidence/<id>.json and replays/"},
        ],
        "checks": checks,
        "notes": "Technique family: runtime monitoring and sanitizers. Exit codes of ./check: 0 held, 1 VIOLATION, 2 build/usage failure, 3 inconclusive. Genuine defects repaired by fix: commits or listed in known_findings.json.",
        "not_applicable": na,
    }
    json.dump(man, open("MANIFEST.json", "w"), indent=1)
    try:
        import jsonschema
        jsonschema.validate(man, json.load(open("/root/.vp/MANIFEST.schema.json")))
        print("MANIFEST.json valid;", len(checks), "checks,", len(na), "not_applicable")
    except ImportError:
        print("jsonschema not importable; not validated")

if __name__ == "__main__":
    main()
