//! small independent reference routines used by several monitors
use ndarray::{Array1, Array2, ArrayView1, ArrayView2};

pub fn l2sq(a: ArrayView1<f64>, b: ArrayView1<f64>) -> f64 {
    a.iter().zip(b.iter()).map(|(x, y)| (x - y) * (x - y)).sum()
}
pub fn l1(a: ArrayView1<f64>, b: ArrayView1<f64>) -> f64 {
    a.iter().zip(b.iter()).map(|(x, y)| (x - y).abs()).sum()
}
pub fn linf(a: ArrayView1<f64>, b: ArrayView1<f64>) -> f64 {
    a.iter()
        .zip(b.iter())
        .map(|(x, y)| (x - y).abs())
        .fold(0.0, f64::max)
}

/// Cholesky factor L (lower) of a symmetric matrix; None if not positive definite.
pub fn cholesky(a: &Array2<f64>) -> Option<Array2<f64>> {
    let n = a.nrows();
    let mut l = Array2::<f64>::zeros((n, n));
    for i in 0..n {
        for j in 0..=i {
            let mut s = a[[i, j]];
            for k in 0..j {
                s -= l[[i, k]] * l[[j, k]];
            }
            if i == j {
                if !(s > 0.0) {
                    return None;
                }
                l[[i, j]] = s.sqrt();
            } else {
                l[[i, j]] = s / l[[j, j]];
            }
        }
    }
    Some(l)
}

/// cyclic Jacobi eigen-decomposition of a symmetric matrix.
/// returns (eigenvalues descending, eigenvectors as columns in the same order)
pub fn jacobi_eig(a: &Array2<f64>) -> (Array1<f64>, Array2<f64>) {
    let n = a.nrows();
    let mut a = a.clone();
    let mut v = Array2::<f64>::eye(n);
    for _sweep in 0..100 {
        let mut off = 0.0;
        for i in 0..n {
            for j in 0..n {
                if i != j {
                    off += a[[i, j]] * a[[i, j]];
                }
            }
        }
        let diag: f64 = (0..n).map(|i| a[[i, i]] * a[[i, i]]).sum();
        if off <= 1e-30 * diag.max(1e-300) {
            break;
        }
        for p in 0..n {
            for q in (p + 1)..n {
                if a[[p, q]].abs() < 1e-300 {
                    continue;
                }
                let theta = (a[[q, q]] - a[[p, p]]) / (2.0 * a[[p, q]]);
                let t = theta.signum() / (theta.abs() + (theta * theta + 1.0).sqrt());
                let t = if theta == 0.0 { 1.0 } else { t };
                let c = 1.0 / (t * t + 1.0).sqrt();
                let s = t * c;
                for k in 0..n {
                    let akp = a[[k, p]];
                    let akq = a[[k, q]];
                    a[[k, p]] = c * akp - s * akq;
                    a[[k, q]] = s * akp + c * akq;
                }
                for k in 0..n {
                    let apk = a[[p, k]];
                    let aqk = a[[q, k]];
                    a[[p, k]] = c * apk - s * aqk;
                    a[[q, k]] = s * apk + c * aqk;
                }
                for k in 0..n {
                    let vkp = v[[k, p]];
                    let vkq = v[[k, q]];
                    v[[k, p]] = c * vkp - s * vkq;
                    v[[k, q]] = s * vkp + c * vkq;
                }
            }
        }
    }
    let mut idx: Vec<usize> = (0..n).collect();
    idx.sort_by(|&i, &j| a[[j, j]].partial_cmp(&a[[i, i]]).unwrap());
    let vals = Array1::from_iter(idx.iter().map(|&i| a[[i, i]]));
    let mut vecs = Array2::<f64>::zeros((n, n));
    for (c, &i) in idx.iter().enumerate() {
        vecs.column_mut(c).assign(&v.column(i));
    }
    (vals, vecs)
}

/// population/sample covariance of rows (ddof = 0 or 1)
pub fn covariance(x: ArrayView2<f64>, ddof: f64) -> Array2<f64> {
    let n = x.nrows() as f64;
    let mean = x.mean_axis(ndarray::Axis(0)).unwrap();
    let xc = &x - &mean;
    xc.t().dot(&xc) / (n - ddof)
}

/// rank of a matrix via Gram-Schmidt with relative threshold
pub fn column_rank(x: ArrayView2<f64>, rel: f64) -> usize {
    let g = x.t().dot(&x);
    let (vals, _) = jacobi_eig(&g);
    let top = vals[0].abs().max(1e-300);
    vals.iter().filter(|v| **v > rel * top).count()
}

/// solve A x = b for symmetric positive definite A
pub fn spd_solve(a: &Array2<f64>, b: &Array1<f64>) -> Option<Array1<f64>> {
    let l = cholesky(a)?;
    let n = a.nrows();
    let mut y = Array1::<f64>::zeros(n);
    for i in 0..n {
        let mut s = b[i];
        for k in 0..i {
            s -= l[[i, k]] * y[k];
        }
        y[i] = s / l[[i, i]];
    }
    let mut x = Array1::<f64>::zeros(n);
    for i in (0..n).rev() {
        let mut s = y[i];
        for k in (i + 1)..n {
            s -= l[[k, i]] * x[k];
        }
        x[i] = s / l[[i, i]];
    }
    Some(x)
}

pub fn bits64(v: f64) -> u64 {
    v.to_bits()
}
