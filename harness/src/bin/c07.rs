//! C07 monitor binary (monitor source: ../props/c07.rs)
#![allow(unused_imports, dead_code)]
#[macro_use]
extern crate linfa_verif;
use linfa_verif::{fw, gen, oracle, ser, zoo};

#[path = "../props/c07.rs"]
mod m;

fn main() {
    linfa_verif::main_for("C07", m::run, Some(child));
}

/// `c07 child c07 <mode> ...`: the monitor's child expects the arguments after the `c07` token
fn child(args: &[String]) -> i32 {
    let args = if args.first().map(|s| s.as_str()) == Some("c07") { &args[1..] } else { args };
    m::child(args)
}
