//! development aid: fit every zoo builder for seeds 0..n and print timings
use linfa_verif::{fw, ser, zoo};
fn main() {
    fw::install_panic_hook();
    let args: Vec<String> = std::env::args().collect();
    let n: u64 = args.get(1).and_then(|s| s.parse().ok()).unwrap_or(5);
    let only = args.get(2).cloned();
    for (name, b) in zoo::predictor_builders() {
        if let Some(o) = &only { if !name.contains(o.as_str()) { continue; } }
        for seed in 0..n {
            let t0 = std::time::Instant::now();
            println!("start {name} seed={seed}");
            let r = fw::guarded(|| b(seed.wrapping_mul(0x9E3779B97F4A7C15) ^ 77));
            let msg = match r { Ok(Ok(_)) => "ok".to_string(), Ok(Err(e)) => format!("ERR {e}"), Err(p) => format!("PANIC {p}") };
            println!("  {name} seed={seed} {:.2}s {msg}", t0.elapsed().as_secs_f64());
        }
    }
    for (name, b) in ser::all_builders() {
        if let Some(o) = &only { if !name.contains(o.as_str()) { continue; } }
        for seed in 0..n {
            let t0 = std::time::Instant::now();
            let r = fw::guarded(|| b(seed).and_then(|s| s.behaviour()));
            let msg = match r { Ok(Ok(_)) => "ok".to_string(), Ok(Err(e)) => format!("ERR {e}"), Err(p) => format!("PANIC {p}") };
            println!("  ser:{name} seed={seed} {:.2}s {msg}", t0.elapsed().as_secs_f64());
        }
    }
}
