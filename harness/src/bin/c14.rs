//! C14 monitor binary (monitor source: ../props/c14.rs)
#![allow(unused_imports, dead_code)]
#[macro_use]
extern crate linfa_verif;
use linfa_verif::{fw, gen, oracle, ser, zoo};

#[path = "../props/c14.rs"]
mod m;

fn main() {
    linfa_verif::main_for("C14", m::run, Some(m::child));
}
