//! C18 monitor binary (monitor source: ../props/c18.rs)
#![allow(unused_imports, dead_code)]
#[macro_use]
extern crate linfa_verif;
use linfa_verif::{fw, gen, oracle, ser, zoo};

#[path = "../props/c18.rs"]
mod m;

fn main() {
    linfa_verif::main_for("C18", m::run, None);
}
