//! Monitor framework: case runner, three-valued verdicts, evidence and replay writers,
//! known-finding classification.
use rand::SeedableRng;
use rand_xoshiro::Xoshiro256Plus;
use serde_json::{json, Map, Value};
use std::collections::{BTreeMap, HashSet};
use std::hash::{Hash, Hasher};
use std::panic::{catch_unwind, AssertUnwindSafe};
use std::sync::Mutex;
use std::time::Instant;

pub type Rng = Xoshiro256Plus;

#[derive(Clone, Copy, PartialEq, Eq, Debug)]
pub enum Tier {
    Quick,
    Thorough,
}

impl Tier {
    pub fn pick<T>(self, quick: T, thorough: T) -> T {
        match self {
            Tier::Quick => quick,
            Tier::Thorough => thorough,
        }
    }
    pub fn name(self) -> &'static str {
        self.pick("quick", "thorough")
    }
}

/// Result of judging one execution.
pub enum Outcome {
    /// The oracle accepted the execution. `nontrivial` by the property's rule; `key`
    /// describes the case for the distinct count.
    Held { nontrivial: bool, key: String },
    /// The precondition of the property is not met / estimator returned a legitimate
    /// error / oracle not applicable.
    Inconclusive(String),
    /// The oracle refuted the property on this execution.
    Violated { sig: String, detail: Value },
}

pub fn held(nontrivial: bool, key: impl Into<String>) -> Outcome {
    Outcome::Held {
        nontrivial,
        key: key.into(),
    }
}
pub fn violated(sig: impl Into<String>, detail: Value) -> Outcome {
    Outcome::Violated {
        sig: sig.into(),
        detail,
    }
}
pub fn inconclusive(r: impl Into<String>) -> Outcome {
    Outcome::Inconclusive(r.into())
}

/// shorthand used by monitors: `bail!(sig, json)` returns a violation from the case closure
#[macro_export]
macro_rules! bail {
    ($sig:expr, $($json:tt)+) => {
        return $crate::fw::violated($sig, serde_json::json!($($json)+))
    };
}

/// `ensure!(cond, sig, json)`
#[macro_export]
macro_rules! ensure {
    ($cond:expr, $sig:expr, $($json:tt)+) => {
        if !($cond) {
            return $crate::fw::violated($sig, serde_json::json!($($json)+));
        }
    };
}

pub struct Case {
    pub family: &'static str,
    pub idx: u64,
    pub rng: Rng,
    pub tier: Tier,
    /// per-case notes that end up in samples / replay
    pub notes: Map<String, Value>,
    /// number of oracle evaluations made by this case (defaults to 1)
    pub evals: u64,
    /// extra counters (merged into evidence.coverage.counters)
    pub counters: BTreeMap<String, u64>,
    /// largest residuals seen, per tolerance name
    pub residuals: BTreeMap<String, f64>,
}

impl Case {
    pub fn note(&mut self, k: &str, v: Value) {
        self.notes.insert(k.to_string(), v);
    }
    pub fn count(&mut self, k: &str) {
        *self.counters.entry(k.to_string()).or_insert(0) += 1;
    }
    pub fn count_n(&mut self, k: &str, n: u64) {
        *self.counters.entry(k.to_string()).or_insert(0) += n;
    }
    pub fn resid(&mut self, k: &str, v: f64) {
        let e = self.residuals.entry(k.to_string()).or_insert(0.0);
        if v.is_nan() || v > *e {
            *e = v;
        }
    }
}

#[derive(Default)]
struct FamilyStats {
    cases: u64,
    held: u64,
    nontrivial: u64,
    inconclusive: u64,
    violated: u64,
    known: u64,
    inconclusive_reasons: BTreeMap<String, u64>,
    sigs: BTreeMap<String, u64>,
    secs: f64,
    max_secs: f64,
    max_idx: u64,
}

struct Inner {
    evaluations: u64,
    distinct: HashSet<u64>,
    samples: Vec<Value>,
    families: BTreeMap<String, FamilyStats>,
    counters: BTreeMap<String, u64>,
    residuals: BTreeMap<String, f64>,
    violations: Vec<(String, String, u64, Value, u64)>, // sig, family, idx, detail, seed of the round
    known_hits: BTreeMap<String, (u64, Value)>,
    exhaustive: BTreeMap<String, bool>,
    extra: Map<String, Value>,
}

pub struct KnownFinding {
    pub property: String,
    pub status: String,
    pub signature: String,
    pub what: String,
}

pub struct Ctx {
    pub prop: &'static str,
    pub tier: Tier,
    /// seed of the current round (base seed in round 0)
    pub seed: u64,
    /// VERIF_SEED as given
    pub base_seed: u64,
    /// index of the current round (the thorough tier repeats the seed-driven workload with derived seeds)
    pub round: u64,
    pub replay: Option<(String, u64)>,
    pub verif_dir: String,
    start: Instant,
    inner: Mutex<Inner>,
    known: Vec<KnownFinding>,
    pub rule: Mutex<String>,
    pub assumptions: Mutex<Vec<String>>,
    pub max_samples_per_family: usize,
}

fn hash_str(s: &str) -> u64 {
    #[allow(deprecated)]
    let mut h = std::hash::SipHasher::new();
    s.hash(&mut h);
    h.finish()
}

pub fn case_rng(seed: u64, prop: &str, family: &str, idx: u64) -> Rng {
    let s = hash_str(&format!("{seed}/{prop}/{family}/{idx}"));
    Rng::seed_from_u64(s)
}

thread_local! {
    static LAST_PANIC: std::cell::RefCell<Option<String>> = std::cell::RefCell::new(None);
}

pub fn install_panic_hook() {
    std::panic::set_hook(Box::new(|info| {
        let msg = if let Some(s) = info.payload().downcast_ref::<&str>() {
            s.to_string()
        } else if let Some(s) = info.payload().downcast_ref::<String>() {
            s.clone()
        } else {
            "<non-string panic>".to_string()
        };
        let loc = info
            .location()
            .map(|l| format!("{}:{}", l.file(), l.line()))
            .unwrap_or_default();
        LAST_PANIC.with(|p| *p.borrow_mut() = Some(format!("{msg} @ {loc}")));
    }));
}

pub fn take_panic() -> String {
    LAST_PANIC
        .with(|p| p.borrow_mut().take())
        .unwrap_or_else(|| "<unknown panic>".into())
}

/// Run `f`, turning a panic into Err(message @ location)
pub fn guarded<T>(f: impl FnOnce() -> T) -> Result<T, String> {
    match catch_unwind(AssertUnwindSafe(f)) {
        Ok(v) => Ok(v),
        Err(_) => Err(take_panic()),
    }
}

impl Ctx {
    pub fn new(prop: &'static str, tier: Tier, seed: u64, replay: Option<(String, u64)>) -> Ctx {
        let verif_dir = std::env::var("VERIF_DIR").unwrap_or_else(|_| "/verif".into());
        let known = load_known(&verif_dir, prop);
        Ctx {
            prop,
            tier,
            seed,
            base_seed: seed,
            round: 0,
            replay,
            verif_dir,
            start: Instant::now(),
            inner: Mutex::new(Inner {
                evaluations: 0,
                distinct: HashSet::new(),
                samples: vec![],
                families: BTreeMap::new(),
                counters: BTreeMap::new(),
                residuals: BTreeMap::new(),
                violations: vec![],
                known_hits: BTreeMap::new(),
                exhaustive: BTreeMap::new(),
                extra: Map::new(),
            }),
            known,
            rule: Mutex::new(String::new()),
            assumptions: Mutex::new(vec![]),
            max_samples_per_family: 2,
        }
    }

    /// Enter round `r` of the workload: cases draw from the derived seed `base + r * 1_000_003`.
    pub fn set_round(&mut self, r: u64) {
        self.round = r;
        self.seed = self.base_seed.wrapping_add(r.wrapping_mul(1_000_003));
        let mut g = self.inner.lock().unwrap();
        let v = g.extra.entry("round_seeds".to_string()).or_insert_with(|| json!([]));
        if let Some(a) = v.as_array_mut() {
            a.push(json!(self.seed));
        }
    }

    pub fn set_rule(&self, s: &str) {
        *self.rule.lock().unwrap() = s.to_string();
    }
    pub fn assume(&self, s: &str) {
        self.assumptions.lock().unwrap().push(s.to_string());
    }
    pub fn set_exhaustive(&self, space: &str, v: bool) {
        self.inner
            .lock()
            .unwrap()
            .exhaustive
            .insert(space.to_string(), v);
    }
    pub fn extra(&self, k: &str, v: Value) {
        self.inner.lock().unwrap().extra.insert(k.to_string(), v);
    }
    pub fn add_counter(&self, k: &str, n: u64) {
        *self
            .inner
            .lock()
            .unwrap()
            .counters
            .entry(k.to_string())
            .or_insert(0) += n;
    }

    /// Run `n` cases of a family on the rayon pool (or sequentially when `parallel` is false).
    pub fn family<F>(&self, family: &'static str, n: u64, f: F)
    where
        F: Fn(&mut Case) -> Outcome + Sync,
    {
        self.family_opt(family, n, true, f)
    }

    pub fn family_seq<F>(&self, family: &'static str, n: u64, f: F)
    where
        F: Fn(&mut Case) -> Outcome + Sync,
    {
        self.family_opt(family, n, false, f)
    }

    fn family_opt<F>(&self, family: &'static str, n: u64, parallel: bool, f: F)
    where
        F: Fn(&mut Case) -> Outcome + Sync,
    {
        use rayon::prelude::*;
        let idxs: Vec<u64> = match &self.replay {
            Some((fam, idx)) => {
                if fam == family {
                    vec![*idx]
                } else {
                    vec![]
                }
            }
            None => (0..n).collect(),
        };
        let run_one = |idx: u64| {
            let t0 = Instant::now();
            let mut case = Case {
                family,
                idx,
                rng: case_rng(self.seed, self.prop, family, idx),
                tier: self.tier,
                notes: Map::new(),
                evals: 1,
                counters: BTreeMap::new(),
                residuals: BTreeMap::new(),
            };
            let out = match catch_unwind(AssertUnwindSafe(|| f(&mut case))) {
                Ok(o) => o,
                Err(_) => {
                    let msg = take_panic();
                    // a panic inside the harness's own oracle code is a harness bug, a panic
                    // inside linfa on an in-domain input is a violation; distinguish by location
                    if msg.contains("harness/src") && !msg.contains("linfa_panic:") {
                        Outcome::Inconclusive(format!("harness-panic: {msg}"))
                    } else {
                        Outcome::Violated {
                            sig: format!("{}/{}/panic", self.prop, family),
                            detail: json!({ "panic": msg }),
                        }
                    }
                }
            };
            let secs = t0.elapsed().as_secs_f64();
            self.record(case, out);
            let mut g = self.inner.lock().unwrap();
            let fs = g.families.entry(family.to_string()).or_default();
            fs.secs += secs;
            if secs > fs.max_secs {
                fs.max_secs = secs;
                fs.max_idx = idx;
            }
        };
        if parallel {
            idxs.into_par_iter().for_each(run_one);
        } else {
            idxs.into_iter().for_each(run_one);
        }
    }

    fn record(&self, case: Case, out: Outcome) {
        let mut g = self.inner.lock().unwrap();
        g.evaluations += case.evals.max(1);
        for (k, v) in &case.counters {
            *g.counters.entry(k.clone()).or_insert(0) += v;
        }
        for (k, v) in &case.residuals {
            let e = g.residuals.entry(k.clone()).or_insert(0.0);
            if v.is_nan() || *v > *e {
                *e = *v;
            }
        }
        let fs = g.families.entry(case.family.to_string()).or_default();
        fs.cases += 1;
        match out {
            Outcome::Held { nontrivial, key } => {
                fs.held += 1;
                let mut take_sample = false;
                if nontrivial {
                    fs.nontrivial += 1;
                    if (fs.nontrivial as usize) <= self.max_samples_per_family {
                        take_sample = true;
                    }
                }
                if nontrivial {
                    g.distinct
                        .insert(hash_str(&format!("{}/{}", case.family, key)));
                }
                if take_sample || self.replay.is_some() {
                    let mut m = case.notes.clone();
                    m.insert("family".into(), json!(case.family));
                    m.insert("case".into(), json!(case.idx));
                    m.insert("key".into(), json!(key));
                    m.insert("verdict".into(), json!("held"));
                    g.samples.push(Value::Object(m));
                }
            }
            Outcome::Inconclusive(r) => {
                fs.inconclusive += 1;
                // group by the reason's first 60 chars
                let short: String = r.chars().take(80).collect();
                *fs.inconclusive_reasons.entry(short).or_insert(0) += 1;
                if self.replay.is_some() {
                    println!("REPLAY verdict=inconclusive reason={r}");
                }
            }
            Outcome::Violated { sig, detail } => {
                let known = self
                    .known
                    .iter()
                    .find(|k| k.status == "open" && k.signature == sig);
                *fs.sigs.entry(sig.clone()).or_insert(0) += 1;
                if std::env::var("VERIF_VERBOSE").is_ok() {
                    let short: String = serde_json::to_string(&detail).unwrap().chars().take(700).collect();
                    println!("V family={} idx={} sig={} {}", case.family, case.idx, sig, short);
                }
                let mut d = Map::new();
                d.insert("notes".into(), Value::Object(case.notes.clone()));
                d.insert("detail".into(), detail);
                if let Some(_k) = known {
                    fs.known += 1;
                    let e = g
                        .known_hits
                        .entry(sig.clone())
                        .or_insert((0, Value::Object(d)));
                    e.0 += 1;
                } else {
                    fs.violated += 1;
                    g.violations
                        .push((sig, case.family.to_string(), case.idx, Value::Object(d), self.seed));
                }
            }
        }
    }

    /// Record a result computed outside of `family` (e.g. by child processes).
    pub fn record_external(&self, family: &'static str, idx: u64, notes: Map<String, Value>, out: Outcome) {
        let case = Case {
            family,
            idx,
            rng: case_rng(self.seed, self.prop, family, idx),
            tier: self.tier,
            notes,
            evals: 1,
            counters: BTreeMap::new(),
            residuals: BTreeMap::new(),
        };
        self.record(case, out);
    }

    /// Write evidence, print verdict lines, return the process exit code.
    pub fn finish(&self) -> i32 {
        let g = self.inner.lock().unwrap();
        let wall = self.start.elapsed().as_secs_f64();
        let mut fam = Map::new();
        let mut starved = vec![];
        for (name, fs) in &g.families {
            fam.insert(
                name.clone(),
                json!({
                    "cases": fs.cases, "held": fs.held, "nontrivial": fs.nontrivial,
                    "inconclusive": fs.inconclusive, "violated": fs.violated,
                    "known_finding_hits": fs.known,
                    "inconclusive_reasons": fs.inconclusive_reasons,
                }),
            );
            if fs.cases > 0 && fs.held == 0 && fs.violated == 0 && fs.known == 0 {
                starved.push(name.clone());
            }
        }
        // violations: dedupe by signature, write one replay per signature (first witness)
        let mut by_sig: BTreeMap<String, (u64, &str, u64, &Value, u64)> = BTreeMap::new();
        for (sig, family, idx, detail, vseed) in &g.violations {
            let e = by_sig
                .entry(sig.clone())
                .or_insert((0, family.as_str(), *idx, detail, *vseed));
            e.0 += 1;
            if *idx < e.2 && family == e.1 && *vseed == e.4 {
                e.2 = *idx;
                e.3 = detail;
            }
        }
        let mut viol_json = vec![];
        let replay_dir = format!("{}/replays", self.verif_dir);
        let _ = std::fs::create_dir_all(&replay_dir);
        for (sig, (count, family, idx, detail, vseed)) in &by_sig {
            let fname = format!(
                "{}/{}-{}-{}-{}.json",
                replay_dir,
                self.prop,
                vseed,
                family.replace('/', "_"),
                idx
            );
            // `seed` is the seed of the round the case ran in: replaying runs one round with it
            let body = json!({
                "property": self.prop, "seed": vseed, "tier": self.tier.name(),
                "family": family, "case": idx, "signature": sig, "count": count,
                "witness": detail,
            });
            let _ = std::fs::write(&fname, serde_json::to_string_pretty(&body).unwrap());
            println!("VIOLATION property={} replay={}", self.prop, fname);
            println!("  signature={sig} occurrences={count}");
            let short = serde_json::to_string(detail).unwrap();
            let short: String = short.chars().take(600).collect();
            println!("  witness={short}");
            viol_json.push(json!({"signature": sig, "count": count, "replay": fname}));
        }
        let mut known_json = vec![];
        for (sig, (count, detail)) in &g.known_hits {
            let k = self.known.iter().find(|k| &k.signature == sig).unwrap();
            println!(
                "KNOWN-FINDING: property={} {} [{}; {} occurrence(s) this run]",
                self.prop, k.what, sig, count
            );
            known_json.push(json!({"signature": sig, "count": count, "example": detail}));
        }
        let nontrivial = g.distinct.len() as u64;
        let mut coverage = Map::new();
        coverage.insert("evaluations".into(), json!(g.evaluations));
        coverage.insert("distinct_nontrivial".into(), json!(nontrivial));
        coverage.insert("rule".into(), json!(*self.rule.lock().unwrap()));
        let mut samples = g.samples.clone();
        samples.truncate(12);
        coverage.insert("samples".into(), Value::Array(samples));
        coverage.insert("families".into(), Value::Object(fam));
        coverage.insert("counters".into(), json!(g.counters));
        coverage.insert(
            "largest_residuals".into(),
            json!(g
                .residuals
                .iter()
                .map(|(k, v)| (k.clone(), if v.is_finite() { json!(v) } else { json!(format!("{v}")) }))
                .collect::<Map<String, Value>>()),
        );
        if !g.exhaustive.is_empty() {
            coverage.insert("exhaustive_subspaces".into(), json!(g.exhaustive));
            coverage.insert(
                "exhaustive".into(),
                json!(g.exhaustive.values().all(|b| *b)),
            );
        }
        coverage.insert("violations_found".into(), Value::Array(viol_json));
        coverage.insert("known_findings_hit".into(), Value::Array(known_json));
        for (k, v) in &g.extra {
            coverage.insert(k.clone(), v.clone());
        }
        let ev = json!({
            "property_id": self.prop,
            "tier": self.tier.name(),
            "seed": self.base_seed,
            "level": "exploration",
            "coverage": coverage,
            "assumptions": *self.assumptions.lock().unwrap(),
            "wall_s": wall,
            "violations": by_sig.len(),
        });
        if self.replay.is_none() {
            let path = format!("{}/evidence/{}.json", self.verif_dir, self.prop);
            let _ = std::fs::create_dir_all(format!("{}/evidence", self.verif_dir));
            std::fs::write(&path, serde_json::to_string_pretty(&ev).unwrap())
                .expect("write evidence");
        }
        println!(
            "SUMMARY property={} tier={} seed={} evaluations={} distinct_nontrivial={} violations={} known={} wall_s={:.1}",
            self.prop,
            self.tier.name(),
            self.base_seed,
            g.evaluations,
            nontrivial,
            by_sig.len(),
            g.known_hits.len(),
            wall
        );
        for (name, fs) in &g.families {
            println!(
                "  family {name}: cases={} held={} nontrivial={} inconclusive={} violated={} known={} cpu_s={:.1} slowest_case={}({:.1}s)",
                fs.cases, fs.held, fs.nontrivial, fs.inconclusive, fs.violated, fs.known, fs.secs, fs.max_idx, fs.max_secs
            );
            for (r, c) in &fs.inconclusive_reasons {
                println!("      inconclusive x{c}: {r}");
            }
            for (r, c) in &fs.sigs {
                println!("      violated x{c}: {r}");
            }
        }
        if !by_sig.is_empty() {
            return 1;
        }
        if self.replay.is_some() {
            return 0;
        }
        if !starved.is_empty() {
            println!(
                "INCONCLUSIVE property={} families without any decided case: {:?}",
                self.prop, starved
            );
            return 3;
        }
        if nontrivial < 2 {
            println!(
                "INCONCLUSIVE property={} fewer than 2 non-trivial cases observed",
                self.prop
            );
            return 3;
        }
        0
    }
}

fn load_known(verif_dir: &str, prop: &str) -> Vec<KnownFinding> {
    let path = format!("{verif_dir}/known_findings.json");
    let Ok(txt) = std::fs::read_to_string(&path) else {
        return vec![];
    };
    let Ok(v) = serde_json::from_str::<Value>(&txt) else {
        eprintln!("known_findings.json does not parse; ignoring");
        return vec![];
    };
    let mut out = vec![];
    if let Some(arr) = v.get("findings").and_then(|a| a.as_array()) {
        for e in arr {
            let p = e.get("property").and_then(|x| x.as_str()).unwrap_or("");
            if p != prop {
                continue;
            }
            out.push(KnownFinding {
                property: p.to_string(),
                status: e
                    .get("status")
                    .and_then(|x| x.as_str())
                    .unwrap_or("")
                    .to_string(),
                signature: e
                    .get("signature")
                    .and_then(|x| x.as_str())
                    .unwrap_or("")
                    .to_string(),
                what: e
                    .get("what")
                    .and_then(|x| x.as_str())
                    .unwrap_or("")
                    .to_string(),
            });
        }
    }
    out
}

/// Run one lane of the Miri crate (`/verif/miri_lane`) under `cargo +nightly miri run` and record
/// the outcome as family `miri-lane` of this check. Thorough tier only (or VERIF_MIRI=1).
/// A UB / data-race report with a frame under /repo is a violation; a report located purely in
/// dependencies is logged and inconclusive; a Miri that cannot be started is inconclusive.
pub fn miri_lane(ctx: &Ctx, lane: &'static str, many_seeds: u32) {
    let wanted = ctx.tier == Tier::Thorough || std::env::var("VERIF_MIRI").is_ok();
    if !wanted || ctx.replay.is_some() || ctx.round > 0 {
        return;
    }
    let dir = format!("{}/miri_lane", ctx.verif_dir);
    let mut flags = "-Zmiri-tree-borrows -Zmiri-ignore-leaks -Zmiri-disable-isolation".to_string();
    if many_seeds > 1 {
        flags.push_str(&format!(" -Zmiri-many-seeds=0..{many_seeds}"));
    }
    let t0 = Instant::now();
    let out = std::process::Command::new("cargo")
        .args(["+nightly", "miri", "run", "--offline", "-q", "--manifest-path"])
        .arg(format!("{dir}/Cargo.toml"))
        .args(["--", lane])
        .env("MIRIFLAGS", &flags)
        .env("CARGO_NET_OFFLINE", "true")
        .env("RUSTFLAGS", "-Awarnings")
        .env_remove("RUST_BACKTRACE")
        .output();
    let mut notes = Map::new();
    notes.insert("lane".into(), json!(lane));
    notes.insert("miri_flags".into(), json!(flags));
    notes.insert("seeds".into(), json!(many_seeds.max(1)));
    let outcome = match out {
        Err(e) => Outcome::Inconclusive(format!("cargo miri could not be started: {e}")),
        Ok(o) => {
            let stdout = String::from_utf8_lossy(&o.stdout).to_string();
            let stderr = String::from_utf8_lossy(&o.stderr).to_string();
            let oks: Vec<&str> = stdout.lines().filter(|l| l.starts_with("LANE-OK")).collect();
            notes.insert("wall_s".into(), json!(t0.elapsed().as_secs_f64()));
            notes.insert("lane_ok_lines".into(), json!(oks));
            let ub = stderr.contains("Undefined Behavior") || stderr.contains("Data race detected") || stderr.contains("data race");
            if ub {
                let in_repo = stderr.lines().any(|l| l.contains("/repo/"));
                let excerpt: String = stderr.lines().filter(|l| l.contains("error") || l.contains("/repo/") || l.contains("-->")).take(30).collect::<Vec<_>>().join("\n");
                if in_repo {
                    Outcome::Violated { sig: format!("{}/miri/undefined-behaviour-or-data-race", ctx.prop), detail: json!({"lane": lane, "report": excerpt}) }
                } else {
                    println!("MIRI-NOTE lane={lane}: report located in dependencies only (not counted)\n{excerpt}");
                    Outcome::Inconclusive("miri report located in dependencies only".into())
                }
            } else if !o.status.success() {
                // an assertion of the lane failed (panic) or the build failed
                let panicked = stderr.contains("panicked at");
                let excerpt: String = stderr.lines().rev().take(25).collect::<Vec<_>>().into_iter().rev().collect::<Vec<_>>().join("\n");
                if panicked {
                    Outcome::Violated { sig: format!("{}/miri/lane-assertion-failed", ctx.prop), detail: json!({"lane": lane, "stderr_tail": excerpt}) }
                } else {
                    Outcome::Inconclusive(format!("miri lane did not run: {}", excerpt.chars().take(300).collect::<String>()))
                }
            } else {
                let digests: HashSet<&str> = oks.iter().filter_map(|l| l.split_whitespace().nth(3)).collect();
                if oks.is_empty() {
                    Outcome::Inconclusive("miri lane printed no LANE-OK line".into())
                } else if digests.len() > 1 {
                    Outcome::Violated { sig: format!("{}/miri/digest-differs-across-schedules", ctx.prop), detail: json!({"lane": lane, "lines": oks}) }
                } else {
                    Outcome::Held { nontrivial: true, key: format!("miri-lane-{lane}") }
                }
            }
        }
    };
    ctx.record_external("miri-lane", 0, notes, outcome);
}
