//! vcheck — runtime monitors for the linfa properties C01..C20.
//! usage: vcheck <ID> <quick|thorough> [--replay <file>]
#[macro_use]
mod fw;
mod gen;
mod oracle;
mod props;
mod ser;
mod zoo;

use fw::{Ctx, Tier};

fn main() {
    let args: Vec<String> = std::env::args().collect();
    if args.len() < 2 {
        eprintln!("usage: vcheck <ID> <quick|thorough> [--replay file] | vcheck child <name> ...");
        std::process::exit(2);
    }
    fw::install_panic_hook();
    if args[1] == "zoo-smoke" {
        // development aid: fit every zoo builder for seeds 0..n and print timings
        let n: u64 = args.get(2).and_then(|s| s.parse().ok()).unwrap_or(5);
        let only = args.get(3).cloned();
        for (name, b) in zoo::predictor_builders().into_iter().chain(zoo::other_builders()) {
            if let Some(o) = &only { if !name.contains(o.as_str()) { continue; } }
            for seed in 0..n {
                let t0 = std::time::Instant::now();
                println!("start {name} seed={seed}");
                let r = fw::guarded(|| b(seed.wrapping_mul(0x9E3779B97F4A7C15) ^ 77));
                let msg = match r { Ok(Ok(_)) => "ok".to_string(), Ok(Err(e)) => format!("ERR {e}"), Err(p) => format!("PANIC {p}") };
                println!("  {name} seed={seed} {:.2}s {msg}", t0.elapsed().as_secs_f64());
            }
        }
        return;
    }
    if args[1] == "child" {
        std::process::exit(props::child(&args[2..]));
    }
    let prop: &'static str = Box::leak(args[1].clone().into_boxed_str());
    let mut tier = match std::env::var("VERIF_TIER").ok().as_deref() {
        Some("thorough") => Tier::Thorough,
        _ => Tier::Quick,
    };
    let mut replay = None;
    let mut i = 2;
    while i < args.len() {
        match args[i].as_str() {
            "quick" => tier = Tier::Quick,
            "thorough" => tier = Tier::Thorough,
            "--replay" => {
                i += 1;
                let txt = std::fs::read_to_string(&args[i]).expect("replay file");
                let v: serde_json::Value = serde_json::from_str(&txt).expect("replay json");
                let fam = v["family"].as_str().expect("family").to_string();
                let idx = v["case"].as_u64().expect("case");
                if let Some(s) = v["seed"].as_u64() {
                    std::env::set_var("VERIF_SEED", s.to_string());
                }
                if v["tier"].as_str() == Some("thorough") {
                    tier = Tier::Thorough;
                } else {
                    tier = Tier::Quick;
                }
                replay = Some((fam, idx));
            }
            other => {
                eprintln!("unknown argument {other}");
                std::process::exit(2);
            }
        }
        i += 1;
    }
    let seed: u64 = std::env::var("VERIF_SEED")
        .ok()
        .and_then(|s| s.trim().parse::<i64>().ok())
        .map(|v| v as u64)
        .unwrap_or(0);
    let threads: usize = std::env::var("VERIF_THREADS")
        .ok()
        .and_then(|s| s.parse().ok())
        .unwrap_or(16);
    rayon::ThreadPoolBuilder::new()
        .num_threads(threads)
        .stack_size(16 << 20)
        .build_global()
        .ok();
    let ctx = Ctx::new(prop, tier, seed, replay);
    if !props::run(&ctx) {
        eprintln!("unknown property {prop}");
        std::process::exit(2);
    }
    std::process::exit(ctx.finish());
}
