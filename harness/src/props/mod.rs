use crate::fw::Ctx;

pub mod c01;
pub mod c03;
pub mod c13;
pub mod c19;
pub mod c20;

pub fn run(ctx: &Ctx) -> bool {
    match ctx.prop {
        "C01" => c01::run(ctx),
        "C03" => c03::run(ctx),
        "C13" => c13::run(ctx),
        "C19" => c19::run(ctx),
        "C20" => c20::run(ctx),
        _ => return false,
    }
    true
}

/// child-process entry points (used by monitors that need process isolation)
pub fn child(args: &[String]) -> i32 {
    match args.first().map(|s| s.as_str()) {
        Some("c20") => c20::child(args),
        _ => {
            eprintln!("unknown child {:?}", args);
            2
        }
    }
}
