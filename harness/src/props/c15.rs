//! C15 — incremental fitting replays to the same model as batch fitting / its recurrence.
//!
//! Three history monitors over the real linfa estimators:
//!  * naive Bayes (Gaussian, multinomial): any ordered cut of a dataset into non-empty batches fed
//!    through `fit_with` must give the class counts, priors and per-class statistics of the single
//!    `fit`, and both must equal the textbook estimates recomputed here in f64 from the definition;
//!    `predict` must maximise the posterior.
//!  * mini-batch k-means: every `fit_with` must apply "assign to the nearest old centroid, running
//!    mean with cumulative counts" to the previous state; Ok/NotConverged must tell the truth.
//!  * FTRL: every `fit_with` / `update` must apply the per-coordinate FTRL-proximal update of z and n
//!    to the previous state; weights are exactly zero iff |z| <= l1.
//! Private learned state of the naive-Bayes models is read through the crates' serde feature
//! (bincode round trip into a mirror struct, which keeps non-finite values).
use crate::fw::*;
use crate::gen;
use linfa::dataset::{DatasetBase, Pr};
use linfa::traits::{Fit, FitWith, Predict};
use linfa::{DatasetView, Label, ParamGuard};
use linfa_bayes::{GaussianNb, MultinomialNb};
use linfa_clustering::{IncrKMeansError, KMeans, KMeansInit};
use linfa_ftrl::Ftrl;
use linfa_nn::distance::{Distance, L1Dist, L2Dist, LInfDist};
use ndarray::{s, Array1, Array2, ArrayView2, Axis, ShapeBuilder};
use rand::seq::SliceRandom;
use rand::Rng as _;
use rand::SeedableRng;
use rand_xoshiro::Xoshiro256Plus;
use serde::de::DeserializeOwned;
use serde::{Deserialize, Serialize};
use serde_json::{json, Value};
use std::collections::HashMap;
use std::hash::Hash;

// ------------------------------------------------------------------------------------------------
// element types
// ------------------------------------------------------------------------------------------------

pub trait Fl: linfa::Float + Serialize + DeserializeOwned + std::fmt::Debug {
    const NAME: &'static str;
    const EPS: f64;
    /// integers up to this bound are exactly representable
    const EXACT_INT: f64;
    /// twice the smallest subnormal: absolute floor of a value that may underflow
    const TINY: f64;
}
impl Fl for f32 {
    const NAME: &'static str = "f32";
    const EPS: f64 = f32::EPSILON as f64;
    const EXACT_INT: f64 = 16_777_216.0;
    const TINY: f64 = 2.9e-45;
}
impl Fl for f64 {
    const NAME: &'static str = "f64";
    const EPS: f64 = f64::EPSILON;
    const EXACT_INT: f64 = 9_007_199_254_740_992.0;
    const TINY: f64 = 1e-323;
}
const EPS32: f64 = f32::EPSILON as f64;

fn d<F: Fl>(v: F) -> f64 {
    num_traits::ToPrimitive::to_f64(&v).unwrap_or(f64::NAN)
}
fn to64<F: Fl>(a: &Array2<F>) -> Array2<f64> {
    a.mapv(d)
}
fn vec64<F: Fl>(a: &Array1<F>) -> Vec<f64> {
    a.iter().map(|v| d(*v)).collect()
}
fn cast2<F: Fl>(a: &Array2<f64>) -> Array2<F> {
    a.mapv(|v| F::cast(v))
}

/// label types the naive-Bayes monitors are instantiated with
pub trait Lab: Label + Serialize + DeserializeOwned + Send + Sync + 'static {
    fn make(rng: &mut Rng, k: usize) -> Vec<Self>;
}
impl Lab for usize {
    fn make(rng: &mut Rng, k: usize) -> Vec<usize> {
        let pool: [usize; 12] = [0, 1, 2, 3, 5, 7, 10, 42, 255, 1000, 65536, usize::MAX / 3];
        let mut v = pool.to_vec();
        v.shuffle(rng);
        v.truncate(k);
        v
    }
}
impl Lab for String {
    fn make(rng: &mut Rng, k: usize) -> Vec<String> {
        let pool = ["a", "b", "", "zeta", "A", "class 3", "é", "0", "b2", "long-label-name", "B", "z"];
        let mut v: Vec<String> = pool.iter().map(|s| s.to_string()).collect();
        v.shuffle(rng);
        v.truncate(k);
        v
    }
}

// ------------------------------------------------------------------------------------------------
// memory layouts
// ------------------------------------------------------------------------------------------------

/// a matrix held in one of four memory layouts; `view()` always shows the same logical matrix
struct Laid<F> {
    h: Array2<F>,
    layout: u8,
    n: usize,
    p: usize,
}
impl<F: Fl> Laid<F> {
    fn new(x: &Array2<F>, layout: u8) -> Self {
        let (n, p) = x.dim();
        let h = match layout {
            0 => x.clone(),
            1 => {
                let mut f = Array2::<F>::zeros((n, p).f());
                f.assign(x);
                f
            }
            // features stored back to front, shown through a negative column stride
            3 => Array2::from_shape_fn((n, p), |(i, j)| x[[i, p - 1 - j]]),
            _ => {
                // rows ::2, columns 1..p+1 of a larger junk-filled array
                let mut big = Array2::<F>::from_elem((2 * n + 1, p + 2), F::cast(777.25));
                for i in 0..n {
                    for j in 0..p {
                        big[[2 * i, j + 1]] = x[[i, j]];
                    }
                }
                big
            }
        };
        Laid { h, layout, n, p }
    }
    fn view(&self) -> ArrayView2<'_, F> {
        match self.layout {
            0 | 1 => self.h.view(),
            3 => self.h.slice(s![.., ..;-1]),
            _ => self.h.slice(s![..2 * self.n;2, 1..self.p + 1]),
        }
    }
    fn rows(&self, a: usize, b: usize) -> ArrayView2<'_, F> {
        self.view().slice_move(s![a..b, ..])
    }
}

// ------------------------------------------------------------------------------------------------
// cuts of 0..n into ordered non-empty batches
// ------------------------------------------------------------------------------------------------

const CUT_NAMES: [&str; 8] = ["single", "equal", "geometric", "singletons", "random", "head-1", "tail-1", "dense"];

fn cut_sizes(rng: &mut Rng, n: usize, kind: u8) -> Vec<usize> {
    assert!(n >= 1);
    let mut out = vec![];
    match kind {
        0 => out.push(n),
        1 => {
            let sz = rng.gen_range(1..=n.max(2) / 2).max(1);
            let mut left = n;
            while left > 0 {
                let t = sz.min(left);
                out.push(t);
                left -= t;
            }
        }
        2 => {
            let mut left = n;
            let mut sz = 1;
            while left > 0 {
                let t = sz.min(left);
                out.push(t);
                left -= t;
                sz *= 2;
            }
            if rng.gen_bool(0.5) {
                out.reverse();
            }
        }
        3 => out = vec![1; n],
        4 => {
            let t = rng.gen_range(1..=n.min(12));
            let mut cuts: Vec<usize> = (1..n).collect();
            cuts.shuffle(rng);
            cuts.truncate(t - 1);
            cuts.sort_unstable();
            let mut prev = 0;
            for cpos in cuts {
                out.push(cpos - prev);
                prev = cpos;
            }
            out.push(n - prev);
        }
        5 => {
            if n == 1 {
                out.push(1)
            } else {
                out = vec![1, n - 1]
            }
        }
        6 => {
            if n == 1 {
                out.push(1)
            } else {
                out = vec![n - 1, 1]
            }
        }
        _ => {
            let mut cur = 1;
            for _ in 1..n {
                if rng.gen_bool(0.5) {
                    out.push(cur);
                    cur = 1;
                } else {
                    cur += 1;
                }
            }
            out.push(cur);
        }
    }
    debug_assert_eq!(out.iter().sum::<usize>(), n);
    out
}

/// cut given by a bit mask over the n-1 gaps (bit g set = cut between rows g and g+1)
fn cut_from_mask(n: usize, mask: u64) -> Vec<usize> {
    let mut out = vec![];
    let mut cur = 1;
    for g in 0..n.saturating_sub(1) {
        if (mask >> g) & 1 == 1 {
            out.push(cur);
            cur = 1;
        } else {
            cur += 1;
        }
    }
    out.push(cur);
    out
}

fn ranges(sizes: &[usize]) -> Vec<(usize, usize)> {
    let mut a = 0;
    sizes
        .iter()
        .map(|s| {
            let r = (a, a + s);
            a += s;
            r
        })
        .collect()
}

/// additionally cut at every change of class (forces class-incomplete batches on sorted data)
fn refine_at_class_changes(sizes: &[usize], y: &[usize]) -> Vec<usize> {
    let mut out = vec![];
    for (a, b) in ranges(sizes) {
        let mut start = a;
        for i in a + 1..b {
            if y[i] != y[i - 1] {
                out.push(i - start);
                start = i;
            }
        }
        out.push(b - start);
    }
    out
}

fn small_hash(vals: impl Iterator<Item = f64>) -> u64 {
    let mut h: u64 = 0xcbf29ce484222325;
    for v in vals {
        h ^= v.to_bits();
        h = h.wrapping_mul(0x100000001b3);
    }
    h & 0xffff_ffff
}

/// collects violations of one case; known-finding signatures yield to any other signature
struct Verdicts {
    v: Vec<(String, Value)>,
}
impl Verdicts {
    fn new() -> Self {
        Verdicts { v: vec![] }
    }
    fn push(&mut self, sig: &str, detail: Value) {
        self.v.push((sig.to_string(), detail));
    }
    fn finish(self, known: &[&str]) -> Option<Outcome> {
        if self.v.is_empty() {
            return None;
        }
        let pick = self
            .v
            .iter()
            .position(|(s, _)| !known.contains(&s.as_str()))
            .unwrap_or(0);
        let (s, dj) = self.v.into_iter().nth(pick).unwrap();
        Some(violated(s, dj))
    }
}

// ------------------------------------------------------------------------------------------------
// naive Bayes: shared workload
// ------------------------------------------------------------------------------------------------

/// one naive-Bayes history: the dataset in feeding order, class index per row, batch sizes
struct NbWork {
    x: Array2<f64>,
    y: Vec<usize>,
    k: usize,
    sizes: Vec<usize>,
    kind: &'static str,
    order: &'static str,
    cut: String,
    queries: Array2<f64>,
}

fn assign_classes(rng: &mut Rng, n: usize, k: usize) -> Vec<usize> {
    let scheme = rng.gen_range(0..4);
    let mut y: Vec<usize> = (0..n)
        .map(|i| match scheme {
            0 => rng.gen_range(0..k),
            1 => {
                // skewed: class 0 takes ~70 %
                if rng.gen_bool(0.7) {
                    0
                } else {
                    rng.gen_range(0..k)
                }
            }
            2 => {
                // singleton classes: class c >= 1 appears once
                if i < k.saturating_sub(1) {
                    i + 1
                } else {
                    0
                }
            }
            _ => i % k,
        })
        .collect();
    y.shuffle(rng);
    // relabel to the classes that actually occur, in order of first appearance
    let mut map: Vec<Option<usize>> = vec![None; k];
    let mut next = 0;
    for v in y.iter_mut() {
        if map[*v].is_none() {
            map[*v] = Some(next);
            next += 1;
        }
        *v = map[*v].unwrap();
    }
    y
}

fn order_rows(rng: &mut Rng, y: &[usize]) -> (Vec<usize>, &'static str) {
    let n = y.len();
    let mut idx: Vec<usize> = (0..n).collect();
    match rng.gen_range(0..4) {
        0 => (idx, "as-generated"),
        1 => {
            idx.sort_by_key(|&i| y[i]);
            (idx, "class-sorted")
        }
        2 => {
            idx.sort_by_key(|&i| std::cmp::Reverse(y[i]));
            (idx, "class-sorted-rev")
        }
        _ => {
            // sorted, then a few random transpositions
            idx.sort_by_key(|&i| y[i]);
            for _ in 0..(n / 8).max(1) {
                let a = rng.gen_range(0..n);
                let b = rng.gen_range(0..n);
                idx.swap(a, b);
            }
            (idx, "nearly-sorted")
        }
    }
}

fn choose_cut(rng: &mut Rng, y: &[usize]) -> (Vec<usize>, String) {
    let n = y.len();
    let kind = rng.gen_range(0..8u8);
    let mut sizes = cut_sizes(rng, n, kind);
    let mut name = CUT_NAMES[kind as usize].to_string();
    if rng.gen_bool(0.3) {
        sizes = refine_at_class_changes(&sizes, y);
        name.push_str("+class-boundaries");
    }
    (sizes, name)
}

// ------------------------------------------------------------------------------------------------
// Gaussian naive Bayes
// ------------------------------------------------------------------------------------------------

#[derive(Deserialize)]
#[serde(bound = "F: DeserializeOwned, L: DeserializeOwned + Eq + Hash")]
struct GDump<F, L: Eq + Hash> {
    class_info: HashMap<L, GInfo<F>>,
}
#[derive(Deserialize)]
#[serde(bound = "F: DeserializeOwned")]
struct GInfo<F> {
    class_count: usize,
    prior: F,
    theta: Array1<F>,
    sigma: Array1<F>,
}

fn gen_gnb(rng: &mut Rng, tier: Tier, f32mode: bool, force_n: Option<usize>) -> NbWork {
    let kind_id = rng.gen_range(0..7);
    let nmax = tier.pick(60, 200);
    let n = match (force_n, kind_id) {
        (Some(n), _) => n,
        (None, 5) => rng.gen_range(1..=6),
        _ => {
            if rng.gen_bool(0.5) {
                rng.gen_range(2..=20)
            } else {
                rng.gen_range(2..=nmax)
            }
        }
    };
    let k = rng.gen_range(1..=5usize.min(n));
    let p = rng.gen_range(1..=6);
    let y0 = assign_classes(rng, n, k);
    let k = y0.iter().max().unwrap() + 1;
    let sep = *gen::pick(rng, &[0.0, 0.5, 2.0, 6.0]);
    let mu = Array2::from_shape_fn((k, p), |_| gen::uniform(rng, -1.0, 1.0) * sep);
    let sd = Array2::from_shape_fn((k, p), |_| gen::log_uniform(rng, 0.3, 3.0));
    let mut x = Array2::from_shape_fn((n, p), |(i, j)| mu[[y0[i], j]] + sd[[y0[i], j]] * gen::normal(rng));
    let kind: &'static str = match kind_id {
        0 | 5 => {
            if kind_id == 0 {
                "blobs"
            } else {
                "tiny"
            }
        }
        1 => {
            // per-column scale and offset
            for j in 0..p {
                let sc = gen::log_uniform(rng, 1e-3, 1e3);
                let off = if f32mode {
                    *gen::pick(rng, &[0.0, 10.0, -100.0])
                } else {
                    *gen::pick(rng, &[0.0, 1e3, -1e6])
                };
                x.column_mut(j).mapv_inplace(|v| (v + off) * sc);
            }
            "offset-scaled"
        }
        2 => {
            x.mapv_inplace(|v| (v * 1.5).round());
            "integer-grid"
        }
        3 => {
            // a constant column, or a column constant within one class
            let j0 = rng.gen_range(0..p);
            if rng.gen_bool(0.5) {
                x.column_mut(j0).fill(2.5);
            } else {
                let c0 = rng.gen_range(0..k);
                for i in 0..n {
                    if y0[i] == c0 {
                        x[[i, j0]] = -1.25;
                    }
                }
            }
            "constant-column"
        }
        4 => {
            // mirrored rows: row 2m+1 = - row 2m with the other class (posterior ties at 0)
            "mirrored"
        }
        _ => {
            // duplicated rows
            for i in 1..n {
                if rng.gen_bool(0.4) {
                    let src = rng.gen_range(0..i);
                    let r = x.row(src).to_owned();
                    x.row_mut(i).assign(&r);
                }
            }
            "duplicates"
        }
    };
    let mut y0 = y0;
    if kind_id == 4 && n >= 2 {
        for m in 0..n / 2 {
            let r = x.row(2 * m).mapv(|v| -v);
            x.row_mut(2 * m + 1).assign(&r);
            y0[2 * m] = 0;
            y0[2 * m + 1] = 1;
        }
        if n % 2 == 1 {
            y0[n - 1] = 0;
            x.row_mut(n - 1).fill(0.0);
        }
    }
    let k = y0.iter().max().unwrap() + 1;
    let (idx, order) = order_rows(rng, &y0);
    let xo = x.select(Axis(0), &idx);
    let yo: Vec<usize> = idx.iter().map(|&i| y0[i]).collect();
    let (sizes, cut) = choose_cut(rng, &yo);
    // queries: the training rows, perturbed rows, the origin and the data mean
    let nq = n.min(40);
    let mut q = Array2::zeros((nq + n.min(10) + 2, p));
    for i in 0..nq {
        q.row_mut(i).assign(&xo.row(i * n / nq));
    }
    for i in 0..n.min(10) {
        let src = rng.gen_range(0..n);
        for j in 0..p {
            q[[nq + i, j]] = xo[[src, j]] + 0.3 * gen::normal(rng) * (1.0 + xo[[src, j]].abs() * 1e-3);
        }
    }
    let mean = xo.mean_axis(Axis(0)).unwrap();
    let last = q.nrows() - 1;
    q.row_mut(last).assign(&mean);
    NbWork { x: xo, y: yo, k, sizes, kind, order, cut, queries: q }
}

/// population mean / variance / max |x| / range per feature of the given rows (f64, two-pass)
struct ColStats {
    cnt: usize,
    mean: Vec<f64>,
    var: Vec<f64>,
    maxabs: Vec<f64>,
    range: Vec<f64>,
}
fn col_stats(x: &Array2<f64>, rows: &[usize]) -> ColStats {
    let p = x.ncols();
    let m = rows.len();
    let mut st = ColStats { cnt: m, mean: vec![0.0; p], var: vec![0.0; p], maxabs: vec![0.0; p], range: vec![0.0; p] };
    if m == 0 {
        return st;
    }
    for j in 0..p {
        let mut sum = 0.0;
        let mut lo = f64::INFINITY;
        let mut hi = f64::NEG_INFINITY;
        for &i in rows {
            let v = x[[i, j]];
            sum += v;
            lo = lo.min(v);
            hi = hi.max(v);
        }
        // centre on the first value before summing: keeps the f64 mean accurate for offset data
        let base = x[[rows[0], j]];
        let mut s1 = 0.0;
        for &i in rows {
            s1 += x[[i, j]] - base;
        }
        let mean = base + s1 / m as f64;
        let _ = sum;
        let mut ss = 0.0;
        let mut sc = 0.0;
        for &i in rows {
            let dlt = x[[i, j]] - mean;
            ss += dlt * dlt;
            sc += dlt;
        }
        // corrected two-pass
        let var = ((ss - sc * sc / m as f64) / m as f64).max(0.0);
        st.mean[j] = mean;
        st.var[j] = var;
        st.maxabs[j] = lo.abs().max(hi.abs());
        st.range[j] = hi - lo;
    }
    st
}

fn maxv(v: &[f64]) -> f64 {
    v.iter().cloned().fold(0.0, f64::max)
}

struct GTruth {
    n: usize,
    p: usize,
    classes: Vec<ColStats>,
    all: ColStats,
    /// textbook smoothing term: var_smoothing * max_j Var_j(whole data)
    eps_all: f64,
    /// per-batch smoothing terms var_smoothing * max_j Var_j(batch)
    eps_batch: Vec<f64>,
    /// what the unrepaired incremental code leaves in sigma on top of the class variance:
    /// o_c <- w*o_c + (1-w)*e_t for classes present in batch t (w = n_old/(n_old+n_new))
    defect_offset: Vec<f64>,
    /// scale of the smoothing terms that are added and subtracted along the way
    eps_scale: f64,
}

fn gnb_truth(x: &Array2<f64>, y: &[usize], k: usize, sizes: &[usize], vs: f64) -> GTruth {
    let (n, p) = x.dim();
    let allrows: Vec<usize> = (0..n).collect();
    let all = col_stats(x, &allrows);
    let classes: Vec<ColStats> = (0..k)
        .map(|c| {
            let rows: Vec<usize> = (0..n).filter(|&i| y[i] == c).collect();
            col_stats(x, &rows)
        })
        .collect();
    let eps_all = vs * maxv(&all.var);
    let mut eps_batch = vec![];
    let mut off = vec![0.0; k];
    let mut cnt = vec![0usize; k];
    for (a, b) in ranges(sizes) {
        let rows: Vec<usize> = (a..b).collect();
        let st = col_stats(x, &rows);
        let e = vs * maxv(&st.var);
        eps_batch.push(e);
        for c in 0..k {
            let m = (a..b).filter(|&i| y[i] == c).count();
            if m == 0 {
                continue;
            }
            if cnt[c] == 0 {
                off[c] = e;
            } else {
                let w = cnt[c] as f64 / (cnt[c] + m) as f64;
                off[c] = w * off[c] + (1.0 - w) * e;
            }
            cnt[c] += m;
        }
    }
    // (the last term: a feature variance that is exactly 0 comes out as ~(eps*max|x|)^2 when it is
    // recomputed from rounded means; eps_F <= f32 epsilon)
    let spread = (0..p).map(|j| all.var[j] + all.range[j] * all.maxabs[j] + EPS32 * all.maxabs[j] * all.maxabs[j]).fold(0.0, f64::max);
    let eps_scale = vs * spread + maxv(&eps_batch) + eps_all;
    GTruth { n, p, classes, all, eps_all, eps_batch, defect_offset: off, eps_scale }
}

struct GModel {
    /// per class index: (count, prior, theta, sigma) as f64
    cls: Vec<(usize, f64, Vec<f64>, Vec<f64>)>,
}

const SIG_GNB_EPS: &str = "C15/gnb-incremental/variance-smoothing-mixes-per-batch-epsilons";

/// compare a dumped Gaussian model against the textbook; Ok(model) when every statistic is within
/// its noise floor
fn gnb_compare<F: Fl, L: Lab>(
    c: &mut Case,
    which: &str,
    dump: &GDump<F, L>,
    labels: &[L],
    tr: &GTruth,
    nbatches: usize,
    vs: f64,
    out: &mut Verdicts,
) -> Option<(GModel, bool)> {
    let asp = format!("C15/gnb-{which}");
    if dump.class_info.len() != tr.classes.len() || labels.iter().any(|l| !dump.class_info.contains_key(l)) {
        out.push(
            &format!("{asp}/class-set"),
            json!({"expected_classes": tr.classes.len(), "got": dump.class_info.len()}),
        );
        return None;
    }
    let mut model = GModel { cls: vec![] };
    let mut ok = true;
    let mut sigma_bad: Option<Value> = None;
    let mut defect_fits = true;
    for (ci, l) in labels.iter().enumerate() {
        let info = &dump.class_info[l];
        let st = &tr.classes[ci];
        let theta = vec64(&info.theta);
        let sigma = vec64(&info.sigma);
        model.cls.push((info.class_count, d(info.prior), theta.clone(), sigma.clone()));
        if theta.len() != tr.p || sigma.len() != tr.p {
            out.push(&format!("{asp}/shape"), json!({"class": ci, "theta_len": theta.len(), "sigma_len": sigma.len(), "p": tr.p}));
            return None;
        }
        if info.class_count != st.cnt {
            out.push(&format!("{asp}/class-count"), json!({"class": ci, "got": info.class_count, "expected": st.cnt}));
            ok = false;
            continue;
        }
        let prior = st.cnt as f64 / tr.n as f64;
        let r = (d(info.prior) - prior).abs();
        c.resid("nb-prior/(32eps)", r / (32.0 * F::EPS));
        if !(r <= 32.0 * F::EPS) {
            out.push(&format!("{asp}/prior"), json!({"class": ci, "got": d(info.prior), "expected": prior}));
            ok = false;
        }
        let kk = 16.0 * (st.cnt as f64 + 4.0 * nbatches as f64 + 8.0);
        for j in 0..tr.p {
            let tol_t = kk * F::EPS * st.maxabs[j];
            let rt = (theta[j] - st.mean[j]).abs();
            if tol_t > 0.0 {
                c.resid(&format!("gnb-mean/tol[{}]", F::NAME), rt / tol_t);
            }
            if !(rt <= tol_t) {
                out.push(
                    &format!("{asp}/mean"),
                    json!({"class": ci, "feature": j, "got": theta[j], "expected": st.mean[j], "tol": tol_t, "count": st.cnt}),
                );
                ok = false;
                defect_fits = false;
            }
            let scale = st.var[j] + st.range[j] * st.maxabs[j] + tr.eps_scale;
            let m2 = F::EPS * st.maxabs[j];
            let tol_s = kk * F::EPS * scale + kk * m2 * m2;
            let want = st.var[j] + tr.eps_all;
            let rs = (sigma[j] - want).abs();
            let fits_textbook = rs <= tol_s;
            let fits_defect = (sigma[j] - (st.var[j] + tr.defect_offset[ci])).abs() <= tol_s;
            if !fits_defect {
                defect_fits = false;
            }
            if fits_textbook {
                if tol_s > 0.0 {
                    c.resid(&format!("gnb-var/tol[{}]", F::NAME), rs / tol_s);
                    if rs / tol_s > 0.05 && std::env::var("VERIF_DEBUG").is_ok() {
                        println!("DBG var ratio={:.3} which={which} idx={} fam={} got={:e} want={:e} tol={:e} var={:e} range={:e} maxabs={:e} eps_scale={:e} cnt={} nb={nbatches} vs={vs}", rs / tol_s, c.idx, c.family, sigma[j], want, tol_s, st.var[j], st.range[j], st.maxabs[j], tr.eps_scale, st.cnt);
                    }
                }
            } else if sigma_bad.is_none() {
                sigma_bad = Some(json!({
                    "class": ci, "feature": j, "got": sigma[j], "expected": want, "tol": tol_s,
                    "class_variance": st.var[j], "textbook_smoothing": tr.eps_all,
                    "batch_smoothing_terms": tr.eps_batch.iter().take(8).collect::<Vec<_>>(),
                    "count": st.cnt, "var_smoothing": vs, "batches": nbatches,
                }));
            }
        }
    }
    if let Some(dj) = sigma_bad {
        ok = false;
        // discriminating predicate of DESIGN §6 item 11: more than one batch, var_smoothing > 0,
        // counts / priors / means right, and every sigma equals class variance + the per-class mixture
        // of the per-batch smoothing terms that the code's "subtract the new epsilon" leaves behind
        if which == "incremental" && nbatches >= 2 && vs > 0.0 && defect_fits && out.v.is_empty() {
            out.push(SIG_GNB_EPS, dj);
        } else {
            out.push(&format!("{asp}/variance"), dj);
        }
    }
    Some((model, ok))
}

/// log posterior (up to the common normaliser) of the Gaussian model `cls` at `q`, and the noise
/// floor of evaluating it in F
fn gnb_jll<F: Fl>(cls: &(usize, f64, Vec<f64>, Vec<f64>), q: &[f64]) -> (f64, f64) {
    let (_, prior, theta, sigma) = cls;
    let p = q.len();
    let mut v = prior.ln();
    let mut mag = 1.0 + prior.ln().abs();
    for j in 0..p {
        let l = (2.0 * std::f64::consts::PI * sigma[j]).ln();
        let t = (q[j] - theta[j]).powi(2) / sigma[j];
        v += -0.5 * l - 0.5 * t;
        mag += 1.0 + l.abs() + t;
    }
    (v, 8.0 * (p as f64 + 4.0) * F::EPS * mag)
}

/// first-order bound on how far the statistic tolerances can move the posterior of class `ci`
fn gnb_prop_floor<F: Fl>(tr: &GTruth, ci: usize, nbatches: usize, q: &[f64]) -> f64 {
    let st = &tr.classes[ci];
    let kk = 16.0 * (st.cnt as f64 + 4.0 * nbatches as f64 + 8.0);
    let mut fl = 32.0 * F::EPS / (st.cnt as f64 / tr.n as f64);
    for j in 0..tr.p {
        let s2 = st.var[j] + tr.eps_all;
        let tol_t = kk * F::EPS * st.maxabs[j];
        let m2 = F::EPS * st.maxabs[j];
        let tol_s = kk * F::EPS * (st.var[j] + st.range[j] * st.maxabs[j] + tr.eps_scale) + kk * m2 * m2;
        if !(tol_s <= 0.05 * s2) {
            return f64::INFINITY;
        }
        let dq = (q[j] - st.mean[j]).abs() + tol_t;
        fl += tol_s * 0.5 * (1.0 / s2 + dq * dq / (s2 * s2)) * 1.2 + tol_t * dq / s2 * 1.2;
    }
    fl
}

fn gnb_case<F: Fl, L: Lab>(c: &mut Case, w: &NbWork, vs64: f64, layout: u8) -> Outcome {
    let xf: Array2<F> = cast2(&w.x);
    let x = to64(&xf);
    let qf: Array2<F> = cast2(&w.queries);
    let q = to64(&qf);
    let vsf = F::cast(vs64);
    let vs = d(vsf);
    let labels: Vec<L> = L::make(&mut c.rng, w.k);
    let y: Array1<L> = w.y.iter().map(|&i| labels[i].clone()).collect();
    let nb = w.sizes.len();
    let (n, p) = x.dim();
    c.note("n", json!(n));
    c.note("p", json!(p));
    c.note("classes", json!(w.k));
    c.note("batches", json!(nb));
    c.note("data", json!(w.kind));
    c.note("order", json!(w.order));
    c.note("cut", json!(w.cut));
    c.note("var_smoothing", json!(vs));
    c.note("float", json!(F::NAME));
    c.note("layout", json!(layout));
    let laid = Laid::new(&xf, layout);
    let checked = match GaussianNb::<F, L>::params().var_smoothing(vsf).check() {
        Ok(pv) => pv,
        Err(e) => bail!("C15/gnb-single/params-rejected", {"var_smoothing": vs, "err": e.to_string()}),
    };
    let ds = DatasetView::new(laid.view(), y.view());
    let single = match guarded(|| checked.fit(&ds)) {
        Err(pn) => bail!("C15/gnb-single/panic", {"panic": pn, "n": n, "p": p}),
        Ok(Err(e)) => bail!("C15/gnb-single/spurious-error", {"err": e.to_string(), "n": n, "p": p}),
        Ok(Ok(m)) => m,
    };
    let mut inc: Option<GaussianNb<F, L>> = None;
    for (bi, (a, b)) in ranges(&w.sizes).into_iter().enumerate() {
        let bds = DatasetView::new(laid.rows(a, b), y.slice(s![a..b]));
        let prev = inc.take();
        inc = match guarded(|| checked.fit_with(prev, &bds)) {
            Err(pn) => bail!("C15/gnb-incremental/panic", {"panic": pn, "batch": bi, "rows": [a, b]}),
            Ok(Err(e)) => bail!("C15/gnb-incremental/spurious-error", {"err": e.to_string(), "batch": bi, "rows": [a, b]}),
            Ok(Ok(None)) => bail!("C15/gnb-incremental/no-model", {"batch": bi}),
            Ok(Ok(Some(m))) => Some(m),
        };
    }
    let inc = inc.unwrap();
    let dump = |m: &GaussianNb<F, L>| -> Option<GDump<F, L>> {
        let bytes = bincode::serialize(m).ok()?;
        bincode::deserialize(&bytes).ok()
    };
    let (Some(ds_dump), Some(di_dump)) = (dump(&single), dump(&inc)) else {
        return inconclusive("gaussian model state could not be read through serde");
    };
    let tr = gnb_truth(&x, &w.y, w.k, &w.sizes, vs);
    let mut out = Verdicts::new();
    let ms = gnb_compare::<F, L>(c, "single", &ds_dump, &labels, &tr, 1, vs, &mut out);
    let mi = gnb_compare::<F, L>(c, "incremental", &di_dump, &labels, &tr, nb, vs, &mut out);
    // predictions
    let mut decided_queries = 0u64;
    for (which, model, parsed) in [("single", &single, &ms), ("incremental", &inc, &mi)] {
        let Some((gm, stats_ok)) = parsed else { continue };
        let degenerate = gm.cls.iter().any(|cl| cl.3.iter().any(|s| !(*s > 0.0)));
        let pred = match guarded(|| model.predict(&qf)) {
            Ok(pr) => pr,
            Err(pn) => {
                if degenerate {
                    c.count("gnb-zero-variance-posterior-undefined");
                    continue;
                }
                out.push(&format!("C15/gnb-{which}/predict-panic"), json!({"panic": pn}));
                continue;
            }
        };
        if pred.len() != q.nrows() {
            out.push(&format!("C15/gnb-{which}/predict-shape"), json!({"got": pred.len(), "expected": q.nrows()}));
            continue;
        }
        if degenerate {
            c.count("gnb-zero-variance-posterior-undefined");
            continue;
        }
        for r in 0..q.nrows() {
            let qr: Vec<f64> = q.row(r).to_vec();
            let Some(pi) = labels.iter().position(|l| *l == pred[r]) else {
                out.push(&format!("C15/gnb-{which}/predict-unknown-label"), json!({"row": r}));
                break;
            };
            // (1) the prediction maximises the posterior of the model's own statistics
            let own: Vec<(f64, f64)> = gm.cls.iter().map(|cl| gnb_jll::<F>(cl, &qr)).collect();
            if own.iter().all(|(v, f)| v.is_finite() && f.is_finite()) {
                let (bi, best) = own.iter().enumerate().fold((0, f64::NEG_INFINITY), |acc, (i, (v, _))| if *v > acc.1 { (i, *v) } else { acc });
                let slack = own[pi].1 + own[bi].1;
                c.resid(&format!("gnb-argmax-gap/floor[{}]", F::NAME), if own[pi].0 < best { (best - own[pi].0) / slack } else { 0.0 });
                if !(own[pi].0 >= best - slack) {
                    out.push(
                        &format!("C15/gnb-{which}/prediction-not-argmax"),
                        json!({"query": qr, "predicted_class": pi, "best_class": bi, "posterior_pred": own[pi].0, "posterior_best": best, "floor": slack}),
                    );
                    break;
                }
                if best - own[pi].0 > 0.0 || own.iter().enumerate().any(|(i, (v, _))| i != pi && (own[pi].0 - v).abs() <= slack) {
                    c.count("posterior-tie-class");
                }
            } else {
                c.count("gnb-nonfinite-posterior");
                continue;
            }
            // (2) with statistics inside their floors the prediction is the textbook arg-max
            if *stats_ok {
                let tb: Vec<(f64, f64)> = (0..w.k)
                    .map(|ci| {
                        let st = &tr.classes[ci];
                        let cl = (st.cnt, st.cnt as f64 / tr.n as f64, st.mean.clone(), st.var.iter().map(|v| v + tr.eps_all).collect::<Vec<_>>());
                        let (v, f) = gnb_jll::<F>(&cl, &qr);
                        (v, f + gnb_prop_floor::<F>(&tr, ci, nb, &qr))
                    })
                    .collect();
                if tb.iter().all(|(v, f)| v.is_finite() && f.is_finite()) {
                    let (bi, best) = tb.iter().enumerate().fold((0, f64::NEG_INFINITY), |acc, (i, (v, _))| if *v > acc.1 { (i, *v) } else { acc });
                    let slack = 2.0 * (tb[pi].1 + tb[bi].1);
                    decided_queries += 1;
                    if !(tb[pi].0 >= best - slack) {
                        out.push(
                            &format!("C15/gnb-{which}/prediction-not-textbook-argmax"),
                            json!({"query": qr, "predicted_class": pi, "best_class": bi, "posterior_pred": tb[pi].0, "posterior_best": best, "floor": slack}),
                        );
                        break;
                    }
                } else {
                    c.count("gnb-unresolvable-posterior");
                }
            }
        }
    }
    c.evals = 2 + decided_queries;
    if let Some(o) = out.finish(&[SIG_GNB_EPS]) {
        return o;
    }
    let class_incomplete = ranges(&w.sizes).iter().any(|&(a, b)| (0..w.k).any(|cl| !(a..b).any(|i| w.y[i] == cl)));
    if class_incomplete {
        c.count("histories-with-class-incomplete-batches");
    }
    held(
        nb >= 2 && n >= 3,
        format!("gnb {} {} n={n} p={p} k={} nb={nb} vs={vs} {} {} l={layout} h={:x}", F::NAME, w.kind, w.k, w.order, w.cut, small_hash(x.iter().cloned())),
    )
}


// ------------------------------------------------------------------------------------------------
// multinomial naive Bayes
// ------------------------------------------------------------------------------------------------

#[derive(Deserialize)]
#[serde(bound = "F: DeserializeOwned, L: DeserializeOwned + Eq + Hash")]
struct MDump<F, L: Eq + Hash> {
    class_info: HashMap<L, MInfo<F>>,
}
#[derive(Deserialize)]
#[serde(bound = "F: DeserializeOwned")]
struct MInfo<F> {
    class_count: usize,
    prior: F,
    feature_count: Array1<F>,
    feature_log_prob: Array1<F>,
}

fn poisson(rng: &mut Rng, lambda: f64) -> f64 {
    let l = (-lambda).exp();
    let mut k = 0.0;
    let mut pr = 1.0;
    loop {
        pr *= rng.gen::<f64>();
        if pr <= l || k > 200.0 {
            return k;
        }
        k += 1.0;
    }
}

fn gen_mnb(rng: &mut Rng, tier: Tier, force_n: Option<usize>) -> NbWork {
    let kind_id = rng.gen_range(0..7);
    let nmax = tier.pick(60, 200);
    let n = match (force_n, kind_id) {
        (Some(n), _) => n,
        (None, 5) => rng.gen_range(1..=6),
        _ => {
            if rng.gen_bool(0.5) {
                rng.gen_range(2..=20)
            } else {
                rng.gen_range(2..=nmax)
            }
        }
    };
    let k = rng.gen_range(1..=5usize.min(n));
    let p = rng.gen_range(1..=6);
    let y0 = assign_classes(rng, n, k);
    let k = y0.iter().max().unwrap() + 1;
    let mut rate = Array2::from_shape_fn((k, p), |_| gen::log_uniform(rng, 0.05, 5.0));
    if kind_id == 6 {
        // identical class distributions: posterior ties between classes of equal size
        let r0 = rate.row(0).to_owned();
        for cidx in 1..k {
            rate.row_mut(cidx).assign(&r0);
        }
    }
    if kind_id == 1 || kind_id == 4 {
        // a feature that never occurs in one class, features that never occur at all
        for _ in 0..rng.gen_range(1..=p) {
            let (cc, jj) = (rng.gen_range(0..k), rng.gen_range(0..p));
            rate[[cc, jj]] = 0.0;
        }
        if rng.gen_bool(0.3) {
            let jj = rng.gen_range(0..p);
            rate.column_mut(jj).fill(0.0);
        }
    }
    let mut x = Array2::from_shape_fn((n, p), |(i, j)| {
        let l = rate[[y0[i], j]];
        if l == 0.0 {
            0.0
        } else {
            poisson(rng, l)
        }
    });
    let kind: &'static str = match kind_id {
        0 => "counts",
        1 => "absent-features",
        2 => {
            let m = *gen::pick(rng, &[1e3, 1e5, 3e6]);
            x.mapv_inplace(|v| v * m);
            "large-counts"
        }
        3 => {
            let wj: Vec<f64> = (0..p).map(|_| gen::log_uniform(rng, 0.01, 10.0)).collect();
            for j in 0..p {
                x.column_mut(j).mapv_inplace(|v| v * wj[j]);
            }
            "fractional"
        }
        4 => {
            // all-zero rows; possibly a class made of zero rows only
            for i in 0..n {
                if rng.gen_bool(0.25) {
                    x.row_mut(i).fill(0.0);
                }
            }
            if rng.gen_bool(0.4) {
                let c0 = rng.gen_range(0..k);
                for i in 0..n {
                    if y0[i] == c0 {
                        x.row_mut(i).fill(0.0);
                    }
                }
            }
            "zero-rows"
        }
        5 => "tiny",
        _ => "identical-classes",
    };
    let (idx, order) = order_rows(rng, &y0);
    let xo = x.select(Axis(0), &idx);
    let yo: Vec<usize> = idx.iter().map(|&i| y0[i]).collect();
    let (sizes, cut) = choose_cut(rng, &yo);
    let nq = n.min(40);
    let extra = 8;
    let mut q = Array2::zeros((nq + extra + 1, p));
    for i in 0..nq {
        q.row_mut(i).assign(&xo.row(i * n / nq));
    }
    for i in 0..extra {
        for j in 0..p {
            q[[nq + i, j]] = if rng.gen_bool(0.4) { 0.0 } else { poisson(rng, 2.0) };
        }
    }
    NbWork { x: xo, y: yo, k, sizes, kind, order, cut, queries: q }
}

struct MTruth {
    n: usize,
    p: usize,
    cnt: Vec<usize>,
    /// N_cj
    fc: Vec<Vec<f64>>,
    /// ln((N_cj + alpha) / (N_c + alpha p)) and its tolerance; NaN where the textbook value is 0/0
    flp: Vec<Vec<f64>>,
    flp_tol: Vec<Vec<f64>>,
    fc_tol: Vec<Vec<f64>>,
}

fn mnb_truth<F: Fl>(x: &Array2<f64>, y: &[usize], k: usize, nbatches: usize, alpha: f64) -> MTruth {
    let (n, p) = x.dim();
    let integer = x.iter().all(|v| v.fract() == 0.0);
    let mut t = MTruth { n, p, cnt: vec![0; k], fc: vec![vec![0.0; p]; k], flp: vec![vec![0.0; p]; k], flp_tol: vec![vec![0.0; p]; k], fc_tol: vec![vec![0.0; p]; k] };
    for i in 0..n {
        t.cnt[y[i]] += 1;
        for j in 0..p {
            t.fc[y[i]][j] += x[[i, j]];
        }
    }
    for cidx in 0..k {
        let kk = 16.0 * (t.cnt[cidx] as f64 + nbatches as f64 + 4.0);
        let total: f64 = t.fc[cidx].iter().sum::<f64>() + alpha * p as f64;
        for j in 0..p {
            let exact = integer && t.fc[cidx][j] < F::EXACT_INT;
            t.fc_tol[cidx][j] = if exact { 0.0 } else { kk * F::EPS * t.fc[cidx][j] };
            let num = t.fc[cidx][j] + alpha;
            t.flp[cidx][j] = if total == 0.0 { f64::NAN } else { (num / total).ln() };
            t.flp_tol[cidx][j] = (2.0 * kk + 8.0 * (p as f64 + 2.0)) * F::EPS * (1.0 + num.ln().abs().min(1e300) + total.ln().abs().min(1e300));
        }
    }
    t
}

struct MModel {
    /// per class index: (prior, feature_log_prob)
    cls: Vec<(f64, Vec<f64>)>,
}

fn mnb_compare<F: Fl, L: Lab>(c: &mut Case, which: &str, dump: &MDump<F, L>, labels: &[L], tr: &MTruth, out: &mut Verdicts) -> Option<(MModel, bool)> {
    let asp = format!("C15/mnb-{which}");
    if dump.class_info.len() != tr.cnt.len() || labels.iter().any(|l| !dump.class_info.contains_key(l)) {
        out.push(&format!("{asp}/class-set"), json!({"expected_classes": tr.cnt.len(), "got": dump.class_info.len()}));
        return None;
    }
    let mut model = MModel { cls: vec![] };
    let mut ok = true;
    for (ci, l) in labels.iter().enumerate() {
        let info = &dump.class_info[l];
        let fc = vec64(&info.feature_count);
        let flp = vec64(&info.feature_log_prob);
        model.cls.push((d(info.prior), flp.clone()));
        if fc.len() != tr.p || flp.len() != tr.p {
            out.push(&format!("{asp}/shape"), json!({"class": ci, "feature_count_len": fc.len(), "feature_log_prob_len": flp.len(), "p": tr.p}));
            return None;
        }
        if info.class_count != tr.cnt[ci] {
            out.push(&format!("{asp}/class-count"), json!({"class": ci, "got": info.class_count, "expected": tr.cnt[ci]}));
            ok = false;
            continue;
        }
        let prior = tr.cnt[ci] as f64 / tr.n as f64;
        let r = (d(info.prior) - prior).abs();
        c.resid("nb-prior/(32eps)", r / (32.0 * F::EPS));
        if !(r <= 32.0 * F::EPS) {
            out.push(&format!("{asp}/prior"), json!({"class": ci, "got": d(info.prior), "expected": prior}));
            ok = false;
        }
        for j in 0..tr.p {
            let rf = (fc[j] - tr.fc[ci][j]).abs();
            if tr.fc_tol[ci][j] > 0.0 {
                c.resid(&format!("mnb-feature-count/tol[{}]", F::NAME), rf / tr.fc_tol[ci][j]);
            } else {
                c.count("mnb-feature-counts-compared-exactly");
            }
            if !(rf <= tr.fc_tol[ci][j]) {
                out.push(&format!("{asp}/feature-count"), json!({"class": ci, "feature": j, "got": fc[j], "expected": tr.fc[ci][j], "tol": tr.fc_tol[ci][j]}));
                ok = false;
                continue;
            }
            let want = tr.flp[ci][j];
            if want.is_nan() {
                // 0/0: class without any count and alpha = 0 — the textbook estimate is undefined
                c.count("mnb-undefined-frequency-0/0");
                continue;
            }
            let good = if want == f64::NEG_INFINITY {
                flp[j] == f64::NEG_INFINITY
            } else {
                let rl = (flp[j] - want).abs();
                c.resid(&format!("mnb-log-prob/tol[{}]", F::NAME), rl / tr.flp_tol[ci][j]);
                rl <= tr.flp_tol[ci][j]
            };
            if !good {
                out.push(&format!("{asp}/feature-log-prob"), json!({"class": ci, "feature": j, "got": format!("{}", flp[j]), "expected": format!("{want}"), "tol": tr.flp_tol[ci][j], "feature_count": tr.fc[ci][j]}));
                ok = false;
            }
        }
    }
    Some((model, ok))
}

/// log posterior of a multinomial model (0 * -inf = 0: a feature that does not occur in the query
/// contributes nothing), with the noise floor of evaluating it in F
fn mnb_jll<F: Fl>(prior: f64, flp: &[f64], q: &[f64]) -> (f64, f64) {
    let mut v = prior.ln();
    let mut mag = 1.0 + prior.ln().abs();
    for j in 0..q.len() {
        if q[j] == 0.0 {
            continue;
        }
        v += q[j] * flp[j];
        if flp[j].is_finite() {
            mag += (q[j] * flp[j]).abs();
        }
    }
    (v, 8.0 * (q.len() as f64 + 4.0) * F::EPS * mag)
}

const SIG_MNB_NAN: &str = "C15/mnb-predict/panic-on-zero-frequency-with-alpha-0";

fn mnb_case<F: Fl, L: Lab>(c: &mut Case, w: &NbWork, alpha64: f64, layout: u8) -> Outcome {
    let xf: Array2<F> = cast2(&w.x);
    let x = to64(&xf);
    let qf: Array2<F> = cast2(&w.queries);
    let q = to64(&qf);
    let af = F::cast(alpha64);
    let alpha = d(af);
    let labels: Vec<L> = L::make(&mut c.rng, w.k);
    let y: Array1<L> = w.y.iter().map(|&i| labels[i].clone()).collect();
    let nb = w.sizes.len();
    let (n, p) = x.dim();
    c.note("n", json!(n));
    c.note("p", json!(p));
    c.note("classes", json!(w.k));
    c.note("batches", json!(nb));
    c.note("data", json!(w.kind));
    c.note("order", json!(w.order));
    c.note("cut", json!(w.cut));
    c.note("alpha", json!(alpha));
    c.note("float", json!(F::NAME));
    c.note("layout", json!(layout));
    let laid = Laid::new(&xf, layout);
    let checked = match MultinomialNb::<F, L>::params().alpha(af).check() {
        Ok(pv) => pv,
        Err(e) => bail!("C15/mnb-single/params-rejected", {"alpha": alpha, "err": e.to_string()}),
    };
    let ds = DatasetView::new(laid.view(), y.view());
    let single = match guarded(|| checked.fit(&ds)) {
        Err(pn) => bail!("C15/mnb-single/panic", {"panic": pn, "n": n, "p": p}),
        Ok(Err(e)) => bail!("C15/mnb-single/spurious-error", {"err": e.to_string(), "n": n, "p": p}),
        Ok(Ok(m)) => m,
    };
    let mut inc: Option<MultinomialNb<F, L>> = None;
    for (bi, (a, b)) in ranges(&w.sizes).into_iter().enumerate() {
        let bds = DatasetView::new(laid.rows(a, b), y.slice(s![a..b]));
        let prev = inc.take();
        inc = match guarded(|| checked.fit_with(prev, &bds)) {
            Err(pn) => bail!("C15/mnb-incremental/panic", {"panic": pn, "batch": bi, "rows": [a, b]}),
            Ok(Err(e)) => bail!("C15/mnb-incremental/spurious-error", {"err": e.to_string(), "batch": bi, "rows": [a, b]}),
            Ok(Ok(None)) => bail!("C15/mnb-incremental/no-model", {"batch": bi}),
            Ok(Ok(Some(m))) => Some(m),
        };
    }
    let inc = inc.unwrap();
    let dump = |m: &MultinomialNb<F, L>| -> Option<MDump<F, L>> {
        let bytes = bincode::serialize(m).ok()?;
        bincode::deserialize(&bytes).ok()
    };
    let (Some(ds_dump), Some(di_dump)) = (dump(&single), dump(&inc)) else {
        return inconclusive("multinomial model state could not be read through serde");
    };
    let mut out = Verdicts::new();
    let tr1 = mnb_truth::<F>(&x, &w.y, w.k, 1, alpha);
    let trn = mnb_truth::<F>(&x, &w.y, w.k, nb, alpha);
    let ms = mnb_compare::<F, L>(c, "single", &ds_dump, &labels, &tr1, &mut out);
    let mi = mnb_compare::<F, L>(c, "incremental", &di_dump, &labels, &trn, &mut out);
    let mut decided_queries = 0u64;
    for (which, model, parsed, tr) in [("single", &single, &ms, &tr1), ("incremental", &inc, &mi, &trn)] {
        let Some((mm, stats_ok)) = parsed else { continue };
        let has_neg_inf = mm.cls.iter().any(|cl| cl.1.iter().any(|v| *v == f64::NEG_INFINITY));
        let has_nan = mm.cls.iter().any(|cl| cl.1.iter().any(|v| v.is_nan()));
        let pred = match guarded(|| model.predict(&qf)) {
            Ok(pr) => pr,
            Err(pn) => {
                if has_nan {
                    // 0/0 frequencies: posterior undefined
                    c.count("mnb-undefined-posterior");
                } else if has_neg_inf && alpha == 0.0 {
                    out.push(SIG_MNB_NAN, json!({"panic": pn, "alpha": alpha, "which": which}));
                } else {
                    out.push(&format!("C15/mnb-{which}/predict-panic"), json!({"panic": pn}));
                }
                continue;
            }
        };
        if pred.len() != q.nrows() {
            out.push(&format!("C15/mnb-{which}/predict-shape"), json!({"got": pred.len(), "expected": q.nrows()}));
            continue;
        }
        if has_nan {
            c.count("mnb-undefined-posterior");
            continue;
        }
        for r in 0..q.nrows() {
            let qr: Vec<f64> = q.row(r).to_vec();
            let Some(pi) = labels.iter().position(|l| *l == pred[r]) else {
                out.push(&format!("C15/mnb-{which}/predict-unknown-label"), json!({"row": r}));
                break;
            };
            let own: Vec<(f64, f64)> = mm.cls.iter().map(|cl| mnb_jll::<F>(cl.0, &cl.1, &qr)).collect();
            let (bi, best) = own.iter().enumerate().fold((0, f64::NEG_INFINITY), |acc, (i, (v, _))| if *v > acc.1 { (i, *v) } else { acc });
            if best == f64::NEG_INFINITY {
                c.count("mnb-all-posteriors-zero");
                continue;
            }
            let slack = own[pi].1 + own[bi].1;
            if !(own[pi].0 >= best - slack) {
                out.push(
                    &format!("C15/mnb-{which}/prediction-not-argmax"),
                    json!({"query": qr, "predicted_class": pi, "best_class": bi, "posterior_pred": format!("{}", own[pi].0), "posterior_best": best, "floor": slack}),
                );
                break;
            }
            c.resid(&format!("mnb-argmax-gap/floor[{}]", F::NAME), if own[pi].0 < best { (best - own[pi].0) / slack } else { 0.0 });
            if own.iter().enumerate().any(|(i, (v, _))| i != pi && (own[pi].0 - v).abs() <= slack) {
                c.count("posterior-tie-class");
            }
            if *stats_ok {
                let tb: Vec<(f64, f64)> = (0..w.k)
                    .map(|ci| {
                        let prior = tr.cnt[ci] as f64 / tr.n as f64;
                        let (v, f) = mnb_jll::<F>(prior, &tr.flp[ci], &qr);
                        let prop: f64 = (0..p).map(|j| qr[j] * tr.flp_tol[ci][j]).sum::<f64>() + 32.0 * F::EPS / prior;
                        (v, f + prop)
                    })
                    .collect();
                if tb.iter().any(|(v, _)| v.is_nan()) {
                    continue;
                }
                let (bi, best) = tb.iter().enumerate().fold((0, f64::NEG_INFINITY), |acc, (i, (v, _))| if *v > acc.1 { (i, *v) } else { acc });
                let slack = 2.0 * (tb[pi].1 + tb[bi].1);
                decided_queries += 1;
                if !(tb[pi].0 >= best - slack) {
                    out.push(
                        &format!("C15/mnb-{which}/prediction-not-textbook-argmax"),
                        json!({"query": qr, "predicted_class": pi, "best_class": bi, "posterior_pred": format!("{}", tb[pi].0), "posterior_best": best, "floor": slack}),
                    );
                    break;
                }
            }
        }
    }
    c.evals = 2 + decided_queries;
    if let Some(o) = out.finish(&[SIG_MNB_NAN]) {
        return o;
    }
    let class_incomplete = ranges(&w.sizes).iter().any(|&(a, b)| (0..w.k).any(|cl| !(a..b).any(|i| w.y[i] == cl)));
    if class_incomplete {
        c.count("histories-with-class-incomplete-batches");
    }
    held(
        nb >= 2 && n >= 3,
        format!("mnb {} {} n={n} p={p} k={} nb={nb} a={alpha} {} {} l={layout} h={:x}", F::NAME, w.kind, w.k, w.order, w.cut, small_hash(x.iter().cloned())),
    )
}


// ------------------------------------------------------------------------------------------------
// mini-batch k-means
// ------------------------------------------------------------------------------------------------

#[derive(Clone, Copy, Debug, PartialEq)]
enum Metric {
    L2,
    L1,
    LInf,
}
impl Metric {
    /// the quantity the assignment minimises (squared distance for L2)
    fn rdist(self, a: &[f64], b: &[f64]) -> f64 {
        match self {
            Metric::L2 => a.iter().zip(b).map(|(x, y)| (x - y) * (x - y)).sum(),
            Metric::L1 => a.iter().zip(b).map(|(x, y)| (x - y).abs()).sum(),
            Metric::LInf => a.iter().zip(b).map(|(x, y)| (x - y).abs()).fold(0.0, f64::max),
        }
    }
    fn dist(self, a: &[f64], b: &[f64]) -> f64 {
        match self {
            Metric::L2 => self.rdist(a, b).sqrt(),
            _ => self.rdist(a, b),
        }
    }
}

enum Step {
    Match { tied_rows: usize },
    Mismatch(Value),
    Budget,
}

/// Does (obs_c, obs_cnt) equal "assign every batch row to its nearest previous centroid, then running
/// mean with cumulative counts" applied to (prev_c, prev_cnt)? Distance ties admit every nearest
/// centroid. `resid` receives |delta| / tolerance of every accepted centroid coordinate.
fn kmeans_step<F: Fl>(
    metric: Metric,
    prev_c: &Array2<f64>,
    prev_cnt: &[f64],
    batch: &Array2<f64>,
    obs_c: &Array2<f64>,
    obs_cnt: &[f64],
    resid: &mut dyn FnMut(f64),
) -> Step {
    let (k, p) = prev_c.dim();
    let m = batch.nrows();
    let tf = 4.0 * (p as f64 + 2.0) * F::EPS;
    let mut cands: Vec<Vec<usize>> = Vec::with_capacity(m);
    let mut combos: f64 = 1.0;
    let mut tied_rows = 0;
    let cents: Vec<Vec<f64>> = (0..k).map(|ci| prev_c.row(ci).to_vec()).collect();
    for r in 0..m {
        let row = batch.row(r).to_vec();
        let ds: Vec<f64> = cents.iter().map(|ce| metric.rdist(&row, ce)).collect();
        let dmin = ds.iter().cloned().fold(f64::INFINITY, f64::min);
        let set: Vec<usize> = (0..k).filter(|&ci| ds[ci] - dmin <= tf * (ds[ci] + dmin)).collect();
        if set.len() > 1 {
            tied_rows += 1;
            combos *= set.len() as f64;
        }
        cands.push(set);
    }
    if combos > 4096.0 {
        return Step::Budget;
    }
    let tied: Vec<usize> = (0..m).filter(|&r| cands[r].len() > 1).collect();
    let mut choice = vec![0usize; tied.len()];
    let mut first_mismatch: Option<Value> = None;
    loop {
        // assignment under this choice
        let mut assign = vec![0usize; m];
        for r in 0..m {
            assign[r] = cands[r][0];
        }
        for (t, &r) in tied.iter().enumerate() {
            assign[r] = cands[r][choice[t]];
        }
        let mut ok = true;
        let mut why = Value::Null;
        let mut local_res = vec![];
        'cl: for ci in 0..k {
            let rows: Vec<usize> = (0..m).filter(|&r| assign[r] == ci).collect();
            let mc = rows.len() as f64;
            if obs_cnt[ci] != prev_cnt[ci] + mc {
                ok = false;
                why = json!({"what": "cluster_count", "cluster": ci, "got": obs_cnt[ci], "expected": prev_cnt[ci] + mc, "previous": prev_cnt[ci], "assigned_in_batch": mc});
                break 'cl;
            }
            for j in 0..p {
                if rows.is_empty() {
                    if obs_c[[ci, j]].to_bits() != prev_c[[ci, j]].to_bits() {
                        ok = false;
                        why = json!({"what": "centroid of a cluster without new points moved", "cluster": ci, "feature": j, "got": obs_c[[ci, j]], "previous": prev_c[[ci, j]]});
                        break 'cl;
                    }
                    continue;
                }
                // sum of deviations from the previous centroid keeps f64 accuracy on offset data
                let base = prev_c[[ci, j]];
                let mut sdev = 0.0;
                let mut scale = base.abs();
                for &r in &rows {
                    sdev += batch[[r, j]] - base;
                    scale = scale.max(batch[[r, j]].abs());
                }
                let want = base + sdev / (prev_cnt[ci] + mc);
                let tol = 32.0 * (mc + 2.0) * F::EPS * scale;
                let dlt = (obs_c[[ci, j]] - want).abs();
                if !(dlt <= tol) {
                    ok = false;
                    why = json!({"what": "centroid", "cluster": ci, "feature": j, "got": obs_c[[ci, j]], "expected": want, "tol": tol,
                        "previous_centroid": base, "previous_count": prev_cnt[ci], "assigned_in_batch": mc});
                    break 'cl;
                }
                if tol > 0.0 {
                    local_res.push(dlt / tol);
                }
            }
        }
        if ok {
            for r in local_res {
                resid(r);
            }
            return Step::Match { tied_rows };
        }
        if first_mismatch.is_none() {
            first_mismatch = Some(why);
        }
        // next choice (odometer)
        let mut t = 0;
        loop {
            if t == tied.len() {
                return Step::Mismatch(first_mismatch.unwrap());
            }
            choice[t] += 1;
            if choice[t] < cands[tied[t]].len() {
                break;
            }
            choice[t] = 0;
            t += 1;
        }
    }
}

struct KmWork {
    x: Array2<f64>,
    sizes: Vec<usize>,
    k: usize,
    init: Array2<f64>,
    tol: f64,
    data: &'static str,
    init_kind: &'static str,
    cut: String,
}

fn gen_kmeans_data(rng: &mut Rng, n: usize, p: usize, f32mode: bool) -> (Array2<f64>, &'static str, f64) {
    let nb = rng.gen_range(1..=4);
    let spread = *gen::pick(rng, &[1.0, 5.0, 20.0]);
    let (mut x, _) = gen::blobs(rng, n, p, nb, spread, 1.0);
    let kind = match rng.gen_range(0..5) {
        0 | 1 => "blobs",
        2 => {
            x.mapv_inplace(|v| v.round());
            "integer-grid"
        }
        3 => {
            let off = if f32mode { 100.0 } else { 1e6 };
            x.mapv_inplace(|v| v + off);
            "offset"
        }
        _ => {
            for i in 1..n {
                if rng.gen_bool(0.5) {
                    let src = rng.gen_range(0..i);
                    let r = x.row(src).to_owned();
                    x.row_mut(i).assign(&r);
                }
            }
            "duplicates"
        }
    };
    (x, kind, spread)
}

fn gen_kmeans(rng: &mut Rng, tier: Tier, f32mode: bool, force_n: Option<usize>) -> KmWork {
    let p = rng.gen_range(1..=5);
    let k = rng.gen_range(1..=5);
    let n = if let Some(n) = force_n { n } else if rng.gen_bool(0.5) { rng.gen_range(k.max(2)..=24) } else { rng.gen_range(k.max(2)..=tier.pick(80, 300)) };
    let (x, data, spread) = gen_kmeans_data(rng, n, p, f32mode);
    let cut_kind = rng.gen_range(1..8u8);
    let mut sizes = cut_sizes(rng, n, cut_kind);
    let mut cut = CUT_NAMES[cut_kind as usize].to_string();
    let mut x = x;
    if force_n.is_none() && rng.gen_bool(0.3) && n <= 120 {
        // a second pass over the same data
        x = ndarray::concatenate![Axis(0), x, x];
        let s2 = sizes.clone();
        sizes.extend(s2);
        cut.push_str(" x2");
    }
    let ik = rng.gen_range(0..6);
    let mut init = Array2::zeros((k, p));
    let init_kind = match ik {
        0 | 1 => {
            for ci in 0..k {
                let r = rng.gen_range(0..n);
                init.row_mut(ci).assign(&x.row(r));
            }
            "data-rows"
        }
        2 => {
            let mean = x.mean_axis(Axis(0)).unwrap();
            for ci in 0..k {
                for j in 0..p {
                    init[[ci, j]] = mean[j] + gen::uniform(rng, -spread, spread);
                }
            }
            "random-points"
        }
        3 => {
            let r = rng.gen_range(0..n);
            for ci in 0..k {
                init.row_mut(ci).assign(&x.row(r));
            }
            if k > 2 {
                let r2 = rng.gen_range(0..n);
                init.row_mut(k - 1).assign(&x.row(r2));
            }
            "identical-centroids"
        }
        4 => {
            for ci in 0..k {
                let r = rng.gen_range(0..n);
                init.row_mut(ci).assign(&x.row(r));
            }
            for j in 0..p {
                init[[k - 1, j]] += 1e3;
            }
            "one-far-centroid"
        }
        _ => {
            // centroids midway between two data rows of an integer grid: exact distance ties
            for ci in 0..k {
                let (r1, r2) = (rng.gen_range(0..n), rng.gen_range(0..n));
                for j in 0..p {
                    init[[ci, j]] = 0.5 * (x[[r1, j]] + x[[r2, j]]);
                }
            }
            "midpoints"
        }
    };
    let tol = match rng.gen_range(0..6) {
        0 => 1e-4,
        1 => 1e3 * spread,
        2 => {
            if f32mode {
                1e-30
            } else {
                1e-300
            }
        }
        _ => gen::log_uniform(rng, 1e-3, 3.0) * spread.sqrt(),
    };
    KmWork { x, sizes, k, init, tol, data, init_kind, cut }
}

/// one pass of the history through linfa; returns per step (centroids, counts, converged)
fn kmeans_run<F: Fl, D: Distance<F> + std::fmt::Debug + 'static>(
    dist: D,
    laid: &Laid<F>,
    sizes: &[usize],
    k: usize,
    init: KMeansInit<F>,
    tol: F,
    n_runs: usize,
    seed: u64,
) -> Result<Vec<(Array2<F>, Array1<F>, bool, F)>, (String, Value)> {
    let params = KMeans::params_with(k, Xoshiro256Plus::seed_from_u64(seed), dist)
        .init_method(init)
        .tolerance(tol)
        .n_runs(n_runs);
    let valid = match params.check() {
        Ok(v) => v,
        Err(e) => return Err(("C15/kmeans/params-rejected".into(), json!({"err": e.to_string()}))),
    };
    let mut model: Option<KMeans<F, D>> = None;
    let mut out = vec![];
    for (bi, (a, b)) in ranges(sizes).into_iter().enumerate() {
        let ds = DatasetBase::from(laid.rows(a, b));
        let prev = model.take();
        let (m, conv) = match guarded(|| valid.fit_with(prev, &ds)) {
            Err(pn) => return Err(("C15/kmeans/panic".into(), json!({"panic": pn, "batch": bi, "rows": [a, b]}))),
            Ok(Ok(m)) => (m, true),
            Ok(Err(IncrKMeansError::NotConverged(m))) => (m, false),
            Ok(Err(e)) => return Err(("C15/kmeans/spurious-error".into(), json!({"err": e.to_string(), "batch": bi}))),
        };
        out.push((m.centroids().clone(), m.cluster_count().clone(), conv, m.inertia()));
        model = Some(m);
    }
    Ok(out)
}

/// The documented rule is strict: a step is reported converged iff the shift of the centroid matrix
/// is *below* the tolerance. On small integer data with the L1 metric every quantity is a dyadic
/// rational and exact, so the boundary can be hit exactly: with the tolerance set to the observed
/// shift the same step must be reported as not converged, one float further up as converged.
fn kmeans_exact_boundary(c: &mut Case) -> Outcome {
    let p = c.rng.gen_range(1..=2usize);
    let k = c.rng.gen_range(1..=2usize);
    let n = c.rng.gen_range(k + 1..=6usize);
    let x = Array2::<f64>::from_shape_fn((n, p), |_| c.rng.gen_range(-8..9) as f64);
    let init = Array2::<f64>::from_shape_fn((k, p), |(i, j)| (4 * i as i32 - 2 + j as i32) as f64);
    let laid = Laid::<f64>::new(&x, 0);
    let sizes = vec![n];
    let exact = |a: &Array2<f64>| a.iter().all(|v| (v * 1048576.0).fract() == 0.0 && v.abs() < 1e4);
    let first = match kmeans_run::<f64, L1Dist>(L1Dist, &laid, &sizes, k, KMeansInit::Precomputed(init.clone()), 1e-9, 1, 7) {
        Ok(v) => v,
        Err((sig, d)) => return violated(sig, d),
    };
    let after = first[0].0.clone();
    if !exact(&after) {
        return inconclusive("centroids after the step are not short dyadic rationals (shift not exact)");
    }
    let shift: f64 = init.iter().zip(after.iter()).map(|(a, b)| (a - b).abs()).sum();
    if !(shift > 0.0) {
        return held(false, "no-shift".to_string());
    }
    c.note("x", json!(x.rows().into_iter().map(|r| r.to_vec()).collect::<Vec<_>>()));
    c.note("init", json!(init.rows().into_iter().map(|r| r.to_vec()).collect::<Vec<_>>()));
    c.note("shift", json!(shift));
    let up = f64::from_bits(shift.to_bits() + 1);
    for (tol, want) in [(shift, false), (up, true)] {
        let r = match kmeans_run::<f64, L1Dist>(L1Dist, &laid, &sizes, k, KMeansInit::Precomputed(init.clone()), tol, 1, 7) {
            Ok(v) => v,
            Err((sig, d)) => return violated(sig, d),
        };
        ensure!(r[0].0 == after, "C15/kmeans/centroids-depend-on-the-tolerance", {"tolerance": tol});
        ensure!(r[0].2 == want, "C15/kmeans/convergence-flag-at-the-boundary",
            {"shift_exact": shift, "tolerance": tol, "reported_converged": r[0].2, "documented": "converged iff shift < tolerance"});
    }
    c.count("kmeans-exact-boundary-steps");
    c.evals = 3;
    held(true, format!("exact-boundary n={n} p={p} k={k} {:x}", small_hash(x.iter().cloned())))
}

fn flat(a: &Array2<f64>) -> Vec<f64> {
    a.iter().cloned().collect()
}

/// judge the convergence flag of one step: Ok iff shift < tolerance
fn kmeans_flag<F: Fl>(c: &mut Case, metric: Metric, prev: &Array2<f64>, new: &Array2<f64>, tol: f64, conv: bool) -> Option<Value> {
    let shift = metric.dist(&flat(prev), &flat(new));
    let euclid = Metric::L2.dist(&flat(prev), &flat(new));
    let fl = 8.0 * (prev.len() as f64 + 2.0) * F::EPS;
    let verdict = |s: f64| -> Option<bool> {
        if (s - tol).abs() <= fl * s.max(tol) {
            None
        } else {
            Some(s < tol)
        }
    };
    let v1 = verdict(shift);
    let v2 = verdict(euclid);
    if conv {
        c.count("kmeans-steps-reported-converged");
    } else {
        c.count("kmeans-steps-reported-not-converged");
    }
    match (v1, v2) {
        (None, _) => {
            c.count("kmeans-shift-on-tolerance-tie-class");
            None
        }
        (Some(a), _) if a == conv => None,
        (Some(_), Some(b)) if metric != Metric::L2 && b == conv => {
            c.count("kmeans-shift-norm-ambiguity-class");
            None
        }
        (Some(_), None) if metric != Metric::L2 => {
            c.count("kmeans-shift-norm-ambiguity-class");
            None
        }
        (Some(a), _) => Some(json!({"shift": shift, "euclidean_shift": euclid, "tolerance": tol, "reported_converged": conv, "expected_converged": a})),
    }
}

fn kmeans_case<F: Fl, D: Distance<F> + std::fmt::Debug + 'static>(c: &mut Case, dist: D, metric: Metric, w: &KmWork, layout: u8) -> Outcome {
    let xf: Array2<F> = cast2(&w.x);
    let x = to64(&xf);
    let initf: Array2<F> = cast2(&w.init);
    let init = to64(&initf);
    let tolf = F::cast(w.tol);
    let tol = d(tolf);
    let (n, p) = x.dim();
    let nb = w.sizes.len();
    c.note("n", json!(n));
    c.note("p", json!(p));
    c.note("k", json!(w.k));
    c.note("batches", json!(nb));
    c.note("data", json!(w.data));
    c.note("init", json!(w.init_kind));
    c.note("cut", json!(w.cut));
    c.note("tolerance", json!(tol));
    c.note("metric", json!(format!("{metric:?}")));
    c.note("float", json!(F::NAME));
    c.note("layout", json!(layout));
    if !(tol > 0.0) {
        return inconclusive("tolerance underflows to 0 in this element type");
    }
    let laid = Laid::new(&xf, layout);
    let seed = c.rng.gen::<u64>();
    let run1 = match kmeans_run::<F, D>(dist.clone(), &laid, &w.sizes, w.k, KMeansInit::Precomputed(initf.clone()), tolf, 1, seed) {
        Ok(r) => r,
        Err((sig, dj)) => return violated(sig, dj),
    };
    let mut prev_c = init.clone();
    let mut prev_cnt = vec![0.0; w.k];
    let mut ties = 0usize;
    let mut steps = 0u64;
    let mut moved = false;
    for (bi, ((a, b), (oc, on, conv, _))) in ranges(&w.sizes).into_iter().zip(run1.iter()).enumerate() {
        ensure!(oc.dim() == (w.k, p) && on.len() == w.k, "C15/kmeans/shape", {"batch": bi, "centroids": format!("{:?}", oc.dim()), "counts": on.len()});
        let obs_c = to64(oc);
        let obs_cnt = vec64(on);
        let batch = x.slice(s![a..b, ..]).to_owned();
        let mut rs = vec![];
        match kmeans_step::<F>(metric, &prev_c, &prev_cnt, &batch, &obs_c, &obs_cnt, &mut |r| rs.push(r)) {
            Step::Match { tied_rows } => {
                ties += tied_rows;
                steps += 1;
                for r in rs {
                    c.resid(&format!("kmeans-centroid/tol[{}]", F::NAME), r);
                }
            }
            Step::Budget => c.count("kmeans-tie-enumeration-budget"),
            Step::Mismatch(why) => {
                bail!("C15/kmeans/recurrence", {"batch": bi, "rows": [a, b], "why": why, "k": w.k, "p": p})
            }
        }
        if let Some(why) = kmeans_flag::<F>(c, metric, &prev_c, &obs_c, tol, *conv) {
            bail!("C15/kmeans/convergence-flag", {"batch": bi, "rows": [a, b], "why": why})
        }
        if obs_c != prev_c {
            moved = true;
        }
        prev_c = obs_c;
        prev_cnt = obs_cnt;
    }
    if ties > 0 {
        c.count_n("kmeans-distance-tie-class-rows", ties as u64);
    }
    // the model is a function of the history alone: a second pass gives the same bits
    let run2 = match kmeans_run::<F, D>(dist, &laid, &w.sizes, w.k, KMeansInit::Precomputed(initf), tolf, 3, seed ^ 0x5555) {
        Ok(r) => r,
        Err((sig, dj)) => return violated(sig, dj),
    };
    for (bi, (r1, r2)) in run1.iter().zip(run2.iter()).enumerate() {
        let same = r1.0.iter().zip(r2.0.iter()).all(|(a, b)| d(*a).to_bits() == d(*b).to_bits())
            && r1.1.iter().zip(r2.1.iter()).all(|(a, b)| d(*a).to_bits() == d(*b).to_bits())
            && r1.2 == r2.2
            && d(r1.3).to_bits() == d(r2.3).to_bits();
        ensure!(same, "C15/kmeans/not-a-function-of-the-history", {"batch": bi});
    }
    c.evals = steps.max(1);
    if steps == 0 {
        return inconclusive("every step exceeded the tie enumeration budget");
    }
    held(
        nb >= 2 && moved,
        format!("kmeans {} {metric:?} n={n} p={p} k={} nb={nb} {} {} {} tol={tol:e} l={layout} h={:x}", F::NAME, w.k, w.data, w.init_kind, w.cut, small_hash(x.iter().cloned())),
    )
}

/// first batch with a data-driven initialisation: the model must be explained by *some* choice of
/// k rows of the first batch as initial centroids; later batches follow the recurrence
fn kmeans_init_case<F: Fl, D: Distance<F> + std::fmt::Debug + 'static>(c: &mut Case, dist: D, metric: Metric, f32mode: bool) -> Outcome {
    let p = c.rng.gen_range(1..=3);
    let k = c.rng.gen_range(1..=3usize);
    let n1 = c.rng.gen_range((2 * k).max(2)..=7usize.max(2 * k));
    let extra = c.rng.gen_range(0..=12);
    let (x, data, _) = gen_kmeans_data(&mut c.rng, n1 + extra, p, f32mode);
    let xf: Array2<F> = cast2(&x);
    let x = to64(&xf);
    let mut sizes = vec![n1];
    if extra > 0 {
        let kind = c.rng.gen_range(0..8u8);
        sizes.extend(cut_sizes(&mut c.rng, extra, kind));
    }
    let (init, init_name, deterministic) = match c.rng.gen_range(0..3) {
        0 => (KMeansInit::Random, "Random", true),
        1 => (KMeansInit::KMeansPlusPlus, "KMeansPlusPlus", true),
        _ => (KMeansInit::KMeansPara, "KMeansPara", false),
    };
    let n_runs = *gen::pick(&mut c.rng, &[1usize, 1, 3, 10]);
    let tolf = F::cast(gen::log_uniform(&mut c.rng, 1e-3, 10.0));
    let tol = d(tolf);
    let seed = c.rng.gen::<u64>();
    let layout = c.rng.gen_range(0..4u8);
    c.note("n_first", json!(n1));
    c.note("p", json!(p));
    c.note("k", json!(k));
    c.note("batches", json!(sizes.len()));
    c.note("init", json!(init_name));
    c.note("n_runs", json!(n_runs));
    c.note("data", json!(data));
    c.note("float", json!(F::NAME));
    c.note("metric", json!(format!("{metric:?}")));
    let laid = Laid::new(&xf, layout);
    let run1 = match kmeans_run::<F, D>(dist.clone(), &laid, &sizes, k, init.clone(), tolf, n_runs, seed) {
        Ok(r) => r,
        Err((sig, dj)) => return violated(sig, dj),
    };
    // first step: search the initial rows
    let (oc, on, conv, _) = &run1[0];
    ensure!(oc.dim() == (k, p) && on.len() == k, "C15/kmeans-first-batch/shape", {"centroids": format!("{:?}", oc.dim()), "counts": on.len()});
    let obs_c = to64(oc);
    let obs_cnt = vec64(on);
    let batch = x.slice(s![0..n1, ..]).to_owned();
    let zero = vec![0.0; k];
    let total = n1.pow(k as u32);
    let mut explained: Option<Array2<f64>> = None;
    let mut budget = false;
    for code in 0..total {
        let mut cinit = Array2::zeros((k, p));
        let mut cc = code;
        for ci in 0..k {
            cinit.row_mut(ci).assign(&batch.row(cc % n1));
            cc /= n1;
        }
        match kmeans_step::<F>(metric, &cinit, &zero, &batch, &obs_c, &obs_cnt, &mut |_| {}) {
            Step::Match { .. } => {
                // the flag must be consistent with this explanation too
                explained = Some(cinit);
                break;
            }
            Step::Budget => budget = true,
            Step::Mismatch(_) => {}
        }
    }
    let Some(cinit) = explained else {
        if budget {
            return inconclusive("tie enumeration budget in the search for the initial rows");
        }
        bail!("C15/kmeans-first-batch/no-choice-of-batch-rows-explains-the-model",
            {"init": init_name, "n_first": n1, "k": k, "p": p, "centroids": flat(&obs_c), "counts": obs_cnt, "batch": flat(&batch)});
    };
    let _ = conv;
    let _ = cinit;
    let mut prev_c = obs_c;
    let mut prev_cnt = obs_cnt;
    let mut steps = 1u64;
    for (bi, ((a, b), (oc, on, conv, _))) in ranges(&sizes).into_iter().zip(run1.iter()).enumerate().skip(1) {
        ensure!(oc.dim() == (k, p) && on.len() == k, "C15/kmeans/shape", {"batch": bi});
        let obs_c = to64(oc);
        let obs_cnt = vec64(on);
        let batch = x.slice(s![a..b, ..]).to_owned();
        let mut rs = vec![];
        match kmeans_step::<F>(metric, &prev_c, &prev_cnt, &batch, &obs_c, &obs_cnt, &mut |r| rs.push(r)) {
            Step::Match { .. } => {
                steps += 1;
                for r in rs {
                    c.resid(&format!("kmeans-centroid/tol[{}]", F::NAME), r);
                }
            }
            Step::Budget => c.count("kmeans-tie-enumeration-budget"),
            Step::Mismatch(why) => bail!("C15/kmeans/recurrence", {"batch": bi, "rows": [a, b], "why": why, "init": init_name}),
        }
        if let Some(why) = kmeans_flag::<F>(c, metric, &prev_c, &obs_c, tol, *conv) {
            bail!("C15/kmeans/convergence-flag", {"batch": bi, "rows": [a, b], "why": why})
        }
        prev_c = obs_c;
        prev_cnt = obs_cnt;
    }
    if deterministic {
        let run2 = match kmeans_run::<F, D>(dist, &laid, &sizes, k, init, tolf, n_runs, seed) {
            Ok(r) => r,
            Err((sig, dj)) => return violated(sig, dj),
        };
        for (bi, (r1, r2)) in run1.iter().zip(run2.iter()).enumerate() {
            let same = r1.0.iter().zip(r2.0.iter()).all(|(a, b)| d(*a).to_bits() == d(*b).to_bits())
                && r1.1.iter().zip(r2.1.iter()).all(|(a, b)| d(*a).to_bits() == d(*b).to_bits())
                && r1.2 == r2.2
            && d(r1.3).to_bits() == d(r2.3).to_bits();
            ensure!(same, "C15/kmeans/not-a-function-of-the-history", {"batch": bi, "init": init_name});
        }
    } else {
        c.count("kmeans-para-init-determinism-left-to-C20");
    }
    c.evals = steps;
    held(true, format!("kmeans-init {} {metric:?} {init_name} r={n_runs} n1={n1} p={p} k={k} nb={} h={:x}", F::NAME, sizes.len(), small_hash(x.iter().cloned())))
}

// ------------------------------------------------------------------------------------------------
// FTRL
// ------------------------------------------------------------------------------------------------

#[derive(Clone, Copy, Debug)]
struct Hyper {
    alpha: f64,
    beta: f64,
    l1: f64,
    l2: f64,
}

fn sigmoid(s: f64) -> f64 {
    if s >= 0.0 {
        1.0 / (1.0 + (-s).exp())
    } else {
        let e = s.exp();
        e / (1.0 + e)
    }
}

/// FTRL-proximal weight of one coordinate: 0 if |z| <= l1, else -(z - sgn(z) l1) / ((beta + sqrt n)/alpha + l2)
fn prox(h: &Hyper, z: f64, n: f64) -> f64 {
    if z.abs() <= h.l1 {
        0.0
    } else {
        -(z - z.signum() * h.l1) / ((h.beta + n.sqrt()) / h.alpha + h.l2)
    }
}

/// `get_weights()` of a model against the proximal formula; exact zeros exactly where |z| <= l1
fn ftrl_weights_check<F: Fl>(c: &mut Case, h: &Hyper, z: &[f64], n: &[f64], w_obs: &[f64]) -> Result<(), (String, Value)> {
    if w_obs.len() != z.len() {
        return Err(("C15/ftrl/weights-shape".into(), json!({"got": w_obs.len(), "expected": z.len()})));
    }
    for j in 0..z.len() {
        let must_zero = z[j].abs() <= h.l1;
        if must_zero {
            c.count("ftrl-coordinates-inside-l1-ball");
            if w_obs[j] != 0.0 {
                return Err((
                    "C15/ftrl/weight-not-zero-although-z-within-l1".into(),
                    json!({"coordinate": j, "z": z[j], "l1": h.l1, "weight": w_obs[j], "n": n[j]}),
                ));
            }
            continue;
        }
        let want = prox(h, z[j], n[j]);
        if !want.is_finite() {
            c.count("ftrl-weight-undefined(beta=l2=n=0)");
            continue;
        }
        // outside the ball the weight is the proximal value (non-zero unless it underflows)
        let tol = 512.0 * F::EPS * want.abs() + F::TINY;
        let r = (w_obs[j] - want).abs();
        if want.abs() > 1e-30 {
            c.resid(&format!("ftrl-weight/tol[{}]", F::NAME), r / tol);
        }
        if !(r <= tol) {
            let sig = if w_obs[j] == 0.0 { "C15/ftrl/weight-zero-although-z-outside-l1" } else { "C15/ftrl/weight-value" };
            return Err((sig.into(), json!({"coordinate": j, "z": z[j], "n": n[j], "l1": h.l1, "got": w_obs[j], "expected": want, "hyper": format!("{h:?}")})));
        }
    }
    Ok(())
}

/// one FTRL update judged from the observed previous state: returns Err(violation) or Ok(decided?)
fn ftrl_step_check<F: Fl>(
    c: &mut Case,
    h: &Hyper,
    z0: &[f64],
    n0: &[f64],
    w0: &[f64],
    x: &Array2<f64>,
    y: &[bool],
    given_p: Option<&[f64]>,
    z1: &[f64],
    n1: &[f64],
) -> Result<bool, (String, Value)> {
    let (m, p) = x.dim();
    if z1.len() != p || n1.len() != p {
        return Err(("C15/ftrl/state-shape".into(), json!({"z": z1.len(), "n": n1.len(), "p": p})));
    }
    if w0.iter().any(|v| !v.is_finite()) || z0.iter().chain(n0.iter()).any(|v| !v.is_finite()) {
        return Ok(false);
    }
    // probabilities as the code forms them: sigmoid of the margin, rounded to f32
    let mut pr = vec![0.0; m];
    let mut dpr = vec![0.0; m];
    for r in 0..m {
        match given_p {
            Some(g) => {
                pr[r] = g[r];
                dpr[r] = 0.0;
            }
            None => {
                let mut sdot = 0.0;
                let mut amag = 0.0;
                for j in 0..p {
                    sdot += x[[r, j]] * w0[j];
                    amag += (x[[r, j]] * w0[j]).abs();
                }
                pr[r] = sigmoid(sdot) as f32 as f64;
                dpr[r] = 32.0 * EPS32 + 4.0 * (p as f64 + 1.0) * F::EPS * amag;
            }
        }
    }
    let mut decided = true;
    for j in 0..p {
        let mut g = 0.0;
        let mut tol_g = 0.0;
        let mut colabs = 0.0;
        for r in 0..m {
            let t = if y[r] { 1.0 } else { 0.0 };
            g += (pr[r] - t) * x[[r, j]];
            colabs += x[[r, j]].abs();
            tol_g += x[[r, j]].abs() * dpr[r];
        }
        tol_g += 16.0 * (m as f64 + 1.0) * F::EPS * colabs;
        if colabs == 0.0 {
            // a coordinate no row of the batch touches keeps its state (exactly; -0.0 == 0.0)
            c.count("ftrl-untouched-coordinates");
            if z1[j] != z0[j] || n1[j] != n0[j] {
                return Err(("C15/ftrl/untouched-coordinate-changed".into(), json!({"coordinate": j, "z_before": z0[j], "z_after": z1[j], "n_before": n0[j], "n_after": n1[j]})));
            }
            continue;
        }
        let root = (n0[j] + g * g).sqrt();
        let sigma = (root - n0[j].sqrt()) / h.alpha;
        let dsigma = (tol_g + 64.0 * F::EPS * root) / h.alpha;
        let z_want = z0[j] + g - sigma * w0[j];
        let n_want = n0[j] + g * g;
        let tol_z = tol_g + dsigma * w0[j].abs() + 64.0 * F::EPS * (z0[j].abs() + g.abs() + (sigma * w0[j]).abs());
        let tol_n = 2.0 * g.abs() * tol_g + tol_g * tol_g + 64.0 * F::EPS * n_want;
        if !(z_want.is_finite() && n_want.is_finite() && tol_z.is_finite()) {
            decided = false;
            continue;
        }
        let rz = (z1[j] - z_want).abs();
        let rn = (n1[j] - n_want).abs();
        let tag = if given_p.is_some() { "given-p" } else { "own-p" };
        c.resid(&format!("ftrl-z/tol[{},{tag}]", F::NAME), rz / tol_z);
        if tol_n > 0.0 {
            c.resid(&format!("ftrl-n/tol[{},{tag}]", F::NAME), rn / tol_n);
        }
        if !(rz <= tol_z) {
            return Err(("C15/ftrl/z-recurrence".into(), json!({"coordinate": j, "z_before": z0[j], "n_before": n0[j], "weight_before": w0[j], "gradient": g, "sigma": sigma,
                "got": z1[j], "expected": z_want, "tol": tol_z, "hyper": format!("{h:?}"), "rows": m})));
        }
        if !(rn <= tol_n) {
            return Err(("C15/ftrl/n-recurrence".into(), json!({"coordinate": j, "n_before": n0[j], "gradient": g, "got": n1[j], "expected": n_want, "tol": tol_n, "rows": m})));
        }
    }
    Ok(decided)
}

fn hyper_of<F: Fl>(m: &Ftrl<F>) -> Hyper {
    Hyper { alpha: d(m.alpha()), beta: d(m.beta()), l1: d(m.l1_ratio()), l2: d(m.l2_ratio()) }
}

fn gen_hyper(rng: &mut Rng) -> Hyper {
    Hyper {
        alpha: *gen::pick(rng, &[0.005, 0.05, 0.5, 5.0]),
        beta: *gen::pick(rng, &[0.0, 0.5, 1.0, 3.0]),
        l1: *gen::pick(rng, &[0.0, 0.005, 0.1, 0.5, 1.0]),
        l2: *gen::pick(rng, &[0.0, 0.005, 0.5, 1.0]),
    }
}

fn gen_ftrl_data(rng: &mut Rng, n: usize, p: usize) -> (Array2<f64>, Vec<bool>, &'static str) {
    let kind_id = rng.gen_range(0..5);
    let mut x = gen::normal_matrix(rng, n, p);
    let kind = match kind_id {
        0 => "dense",
        1 => {
            // one-hot / sparse binary features
            x.mapv_inplace(|v| if v > 0.6 { 1.0 } else { 0.0 });
            "sparse-binary"
        }
        2 => {
            x.mapv_inplace(|v| v * 30.0);
            "large-margin"
        }
        3 => {
            let j0 = rng.gen_range(0..p);
            x.column_mut(j0).fill(0.0);
            "zero-column"
        }
        _ => {
            x.mapv_inplace(|v| (v * 2.0).round());
            "integer"
        }
    };
    let wtrue = gen::normal_vec(rng, p);
    let noisy = rng.gen_bool(0.5);
    let y: Vec<bool> = (0..n)
        .map(|i| {
            let sdot: f64 = (0..p).map(|j| x[[i, j]] * wtrue[j]).sum();
            if noisy {
                rng.gen_bool(sigmoid(sdot).clamp(0.01, 0.99))
            } else {
                sdot > 0.0
            }
        })
        .collect();
    (x, y, kind)
}

fn bits_eq<F: Fl>(a: &Array1<F>, b: &Array1<F>) -> bool {
    a.len() == b.len() && a.iter().zip(b.iter()).all(|(u, v)| d(*u).to_bits() == d(*v).to_bits())
}

fn ftrl_history_case<F: Fl>(c: &mut Case, rng: &mut Rng, forced: Option<Vec<usize>>) -> Outcome {
    let p = rng.gen_range(1..=6);
    let sizes: Vec<usize> = match forced {
        Some(sz) => sz,
        None => {
            let nbatch = rng.gen_range(2..=c.tier.pick(12, 40));
            (0..nbatch).map(|_| if rng.gen_bool(0.5) { 1 } else { rng.gen_range(1..=16) }).collect()
        }
    };
    let nbatch = sizes.len();
    let n: usize = sizes.iter().sum();
    let (x0, y, data) = gen_ftrl_data(rng, n, p);
    let xf: Array2<F> = cast2(&x0);
    let x = to64(&xf);
    let hy = gen_hyper(rng);
    let seed = rng.gen::<u64>();
    let layout = rng.gen_range(0..4u8);
    c.note("p", json!(p));
    c.note("batches", json!(nbatch));
    c.note("rows", json!(n));
    c.note("data", json!(data));
    c.note("hyper", json!(format!("{hy:?}")));
    c.note("float", json!(F::NAME));
    c.note("layout", json!(layout));
    let mk = || {
        Ftrl::<F>::params_with_rng(Xoshiro256Plus::seed_from_u64(seed))
            .alpha(F::cast(hy.alpha))
            .beta(F::cast(hy.beta))
            .l1_ratio(F::cast(hy.l1))
            .l2_ratio(F::cast(hy.l2))
    };
    let valid = match mk().check() {
        Ok(v) => v,
        Err(e) => bail!("C15/ftrl/params-rejected", {"hyper": format!("{hy:?}"), "err": e.to_string()}),
    };
    let laid = Laid::new(&xf, layout);
    let yarr = Array1::from(y.clone());
    // the state a history starts from
    let start = match guarded(|| Ftrl::new(valid.clone(), p)) {
        Ok(m) => m,
        Err(pn) => bail!("C15/ftrl/panic", {"panic": pn, "where": "Ftrl::new"}),
    };
    let h = hyper_of(&start);
    let mut z0 = vec64(start.z());
    let mut n0 = vec64(start.n());
    ensure!(z0.len() == p && n0.len() == p, "C15/ftrl/state-shape", {"z": z0.len(), "n": n0.len(), "p": p});
    let mut model_a: Option<Ftrl<F>> = None; // fit_with(None, ..) route
    let mut model_b: Option<Ftrl<F>> = Some(start); // explicit start state route
    let mut steps = 0u64;
    let mut undecided = 0u64;
    let mut zero_seen = false;
    for (bi, (a, b)) in ranges(&sizes).into_iter().enumerate() {
        let ds = DatasetBase::new(laid.rows(a, b), yarr.slice(s![a..b]));
        let w0 = vec64(&model_b.as_ref().unwrap().get_weights());
        if let Err((sig, dj)) = ftrl_weights_check::<F>(c, &h, &z0, &n0, &w0) {
            return violated(sig, dj);
        }
        zero_seen |= w0.iter().any(|v| *v == 0.0);
        // predicted probabilities of the previous state
        if w0.iter().all(|v| v.is_finite()) {
            let rows_view = laid.rows(a, b);
            let pred: Array1<Pr> = match guarded(|| model_b.as_ref().unwrap().predict(&rows_view)) {
                Ok(pv) => pv,
                Err(pn) => bail!("C15/ftrl/panic", {"panic": pn, "where": "predict", "batch": bi}),
            };
            ensure!(pred.len() == b - a, "C15/ftrl/predict-shape", {"got": pred.len(), "expected": b - a});
            for r in a..b {
                let (mut sdot, mut amag) = (0.0, 0.0);
                for j in 0..p {
                    sdot += x[[r, j]] * w0[j];
                    amag += (x[[r, j]] * w0[j]).abs();
                }
                let want = sigmoid(sdot);
                let tolp = 32.0 * EPS32 + 4.0 * (p as f64 + 1.0) * F::EPS * amag;
                let got = *pred[r - a] as f64;
                c.resid(&format!("ftrl-probability/tol[{}]", F::NAME), (got - want).abs() / tolp);
                ensure!((got - want).abs() <= tolp, "C15/ftrl/predicted-probability", {"batch": bi, "row": r, "got": got, "expected": want, "margin": sdot});
            }
        }
        let pa = model_a.take();
        let pb = model_b.take();
        let ra = guarded(|| valid.fit_with(pa, &ds));
        let rb = guarded(|| valid.fit_with(pb, &ds));
        let (ma, mb) = match (ra, rb) {
            (Ok(Ok(ma)), Ok(Ok(mb))) => (ma, mb),
            (Err(pn), _) | (_, Err(pn)) => bail!("C15/ftrl/panic", {"panic": pn, "batch": bi, "rows": [a, b]}),
            (Ok(Err(e)), _) | (_, Ok(Err(e))) => bail!("C15/ftrl/spurious-error", {"err": e.to_string(), "batch": bi}),
        };
        ensure!(bits_eq(ma.z(), mb.z()) && bits_eq(ma.n(), mb.n()), "C15/ftrl/not-a-function-of-the-history",
            {"batch": bi, "what": "fit_with(None, ..) and fit_with(Some(Ftrl::new(params)), ..) disagree"});
        let z1 = vec64(mb.z());
        let n1 = vec64(mb.n());
        let hb = hyper_of(&mb);
        ensure!(hb.alpha == h.alpha && hb.beta == h.beta && hb.l1 == h.l1 && hb.l2 == h.l2, "C15/ftrl/hyperparameters-changed", {"batch": bi});
        let xb = x.slice(s![a..b, ..]).to_owned();
        match ftrl_step_check::<F>(c, &h, &z0, &n0, &w0, &xb, &y[a..b], None, &z1, &n1) {
            Err((sig, mut dj)) => {
                dj["batch"] = json!(bi);
                return violated(sig, dj);
            }
            Ok(true) => steps += 1,
            Ok(false) => undecided += 1,
        }
        z0 = z1;
        n0 = n1;
        model_a = Some(ma);
        model_b = Some(mb);
    }
    // replay from scratch: same bits
    let valid2 = mk().check().unwrap();
    let mut m2: Option<Ftrl<F>> = None;
    for (a, b) in ranges(&sizes) {
        let ds = DatasetBase::new(laid.rows(a, b), yarr.slice(s![a..b]));
        let prev = m2.take();
        m2 = match guarded(|| valid2.fit_with(prev, &ds)) {
            Ok(Ok(m)) => Some(m),
            _ => bail!("C15/ftrl/not-a-function-of-the-history", {"what": "second replay failed"}),
        };
    }
    let m2 = m2.unwrap();
    let m1 = model_a.unwrap();
    ensure!(bits_eq(m1.z(), m2.z()) && bits_eq(m1.n(), m2.n()), "C15/ftrl/not-a-function-of-the-history", {"what": "two replays of one history differ"});
    if undecided > 0 {
        c.count_n("ftrl-steps-with-undefined-recurrence", undecided);
    }
    c.evals = steps.max(1);
    if steps == 0 {
        return inconclusive("recurrence undefined at every step (division by zero in the proximal weight)");
    }
    held(true, format!("ftrl {} p={p} nb={nbatch} rows={n} {data} {hy:?} z0={zero_seen} l={layout} s={seed:x}", F::NAME))
}

fn ftrl_json<F: Fl>(h: &Hyper, z: &[f64], n: &[f64]) -> Option<Ftrl<F>> {
    let arr = |v: &[f64]| json!({"v": 1, "dim": [v.len()], "data": v});
    serde_json::from_value(json!({"alpha": h.alpha, "beta": h.beta, "l1_ratio": h.l1, "l2_ratio": h.l2, "z": arr(z), "n": arr(n)})).ok()
}

fn next_up(v: f64, f32mode: bool) -> f64 {
    if f32mode {
        let f = v as f32;
        f32::from_bits(if f >= 0.0 { f.to_bits() + 1 } else { f.to_bits() - 1 }) as f64
    } else {
        f64::from_bits(if v >= 0.0 { v.to_bits() + 1 } else { v.to_bits() - 1 })
    }
}
fn next_down(v: f64, f32mode: bool) -> f64 {
    if v == 0.0 {
        return -next_up(0.0, f32mode);
    }
    if f32mode {
        let f = v as f32;
        f32::from_bits(if f > 0.0 { f.to_bits() - 1 } else { f.to_bits() + 1 }) as f64
    } else {
        f64::from_bits(if v > 0.0 { v.to_bits() - 1 } else { v.to_bits() + 1 })
    }
}

/// arbitrary (z, n) states injected through serde: zero pattern of the weights on and around the
/// l1 boundary, then one update (`fit_with` or the asynchronous `update`) from that state
fn ftrl_state_case<F: Fl>(c: &mut Case, use_update: bool) -> Outcome {
    let f32mode = F::NAME == "f32";
    let p = c.rng.gen_range(1..=6);
    let mut hy = gen_hyper(&mut c.rng);
    // hyper-parameters as the element type holds them
    hy = Hyper { alpha: d(F::cast(hy.alpha)), beta: d(F::cast(hy.beta)), l1: d(F::cast(hy.l1)), l2: d(F::cast(hy.l2)) };
    let z: Vec<f64> = (0..p)
        .map(|_| {
            let v = match c.rng.gen_range(0..9) {
                0 => hy.l1,
                1 => -hy.l1,
                2 => next_up(hy.l1, f32mode),
                3 => -next_up(hy.l1, f32mode),
                4 => next_down(hy.l1, f32mode),
                5 => 0.0,
                6 => gen::uniform(&mut c.rng, -1.0, 1.0) * hy.l1,
                7 => gen::normal(&mut c.rng) * 3.0,
                _ => gen::normal(&mut c.rng) * 50.0,
            };
            d(F::cast(v))
        })
        .collect();
    let n: Vec<f64> = (0..p)
        .map(|_| {
            let v = match c.rng.gen_range(0..4) {
                0 => 0.0,
                1 => gen::log_uniform(&mut c.rng, 1e-6, 1.0),
                2 => gen::log_uniform(&mut c.rng, 1.0, 1e4),
                _ => gen::log_uniform(&mut c.rng, 1e4, 1e9),
            };
            d(F::cast(v))
        })
        .collect();
    let m = c.rng.gen_range(1..=8);
    let (x0, y, data) = gen_ftrl_data(&mut c.rng, m, p);
    let xf: Array2<F> = cast2(&x0);
    let x = to64(&xf);
    c.note("p", json!(p));
    c.note("hyper", json!(format!("{hy:?}")));
    c.note("z", json!(z));
    c.note("n", json!(n));
    c.note("data", json!(data));
    c.note("float", json!(F::NAME));
    c.note("async_update", json!(use_update));
    let Some(model) = ftrl_json::<F>(&hy, &z, &n) else {
        return inconclusive("FTRL state could not be injected through serde");
    };
    let h = hyper_of(&model);
    let z0 = vec64(model.z());
    let n0 = vec64(model.n());
    if z0 != z || n0 != n {
        return inconclusive("injected FTRL state was altered by deserialisation");
    }
    let w0 = vec64(&model.get_weights());
    if let Err((sig, dj)) = ftrl_weights_check::<F>(c, &h, &z0, &n0, &w0) {
        return violated(sig, dj);
    }
    let yarr = Array1::from(y.clone());
    let ds = DatasetBase::new(xf.view(), yarr.view());
    let (z1, n1, given): (Vec<f64>, Vec<f64>, Option<Vec<f64>>) = if use_update {
        let probs: Vec<f32> = (0..m)
            .map(|_| match c.rng.gen_range(0..5) {
                0 => 0.0,
                1 => 1.0,
                _ => c.rng.gen::<f32>(),
            })
            .collect();
        let parr: Array1<Pr> = probs.iter().map(|v| Pr::new(*v)).collect();
        let mut mm = model;
        if let Err(pn) = guarded(|| mm.update(&ds, parr.view())) {
            bail!("C15/ftrl/panic", {"panic": pn, "where": "update"});
        }
        (vec64(mm.z()), vec64(mm.n()), Some(probs.iter().map(|v| *v as f64).collect()))
    } else {
        // the parameter set handed to fit_with carries the hyper-parameters of the model it continues
        // (which of the two wins when they differ is not stated by the property)
        let valid = match Ftrl::<F>::params().alpha(F::cast(hy.alpha)).beta(F::cast(hy.beta)).l1_ratio(F::cast(hy.l1)).l2_ratio(F::cast(hy.l2)).check() {
            Ok(v) => v,
            Err(e) => bail!("C15/ftrl/params-rejected", {"hyper": format!("{hy:?}"), "err": e.to_string()}),
        };
        match guarded(|| valid.fit_with(Some(model), &ds)) {
            Ok(Ok(mm)) => (vec64(mm.z()), vec64(mm.n()), None),
            Ok(Err(e)) => bail!("C15/ftrl/spurious-error", {"err": e.to_string()}),
            Err(pn) => bail!("C15/ftrl/panic", {"panic": pn, "where": "fit_with"}),
        }
    };
    match ftrl_step_check::<F>(c, &h, &z0, &n0, &w0, &x, &y, given.as_deref(), &z1, &n1) {
        Err((sig, dj)) => violated(sig, dj),
        Ok(false) => inconclusive("recurrence undefined (division by zero in the proximal weight)"),
        Ok(true) => {
            let on_boundary = z.iter().any(|v| v.abs() == hy.l1);
            held(true, format!("ftrl-state {} p={p} {hy:?} upd={use_update} bnd={on_boundary} h={:x}", F::NAME, small_hash(z.iter().chain(n.iter()).cloned())))
        }
    }
}

pub fn run(ctx: &Ctx) {
    ctx.set_rule(
        "one case = one history: a generated dataset (naive Bayes: blobs / offset+scaled / integer grid / constant columns / \
         mirrored / duplicated / 1-6 rows, 1-5 classes incl. singleton classes, 1-6 features; multinomial: counts / absent \
         features / large counts / fractional / zero rows; k-means: blobs / grid / offset / duplicates with precomputed \
         (data rows, random, identical, far, midpoint) or data-driven initial centroids; FTRL: dense / sparse binary / \
         saturating / zero column / integer features) in a row order (as generated, class-sorted, nearly sorted), cut into \
         ordered non-empty batches (single, equal, geometric, singletons, random, 1+rest, rest+1, dense, optionally refined \
         at class boundaries) x smoothing or hyper-parameter grid x f32/f64 x memory layout (C, F, strided view) x label type. \
         The *-all-cuts families enumerate every one of the 2^(n-1) ordered cuts of fixed n-row datasets. \
         Non-trivial: naive Bayes = at least 2 batches and 3 rows; k-means = at least 2 batches and some centroid moved; \
         FTRL = at least one update whose recurrence is defined. distinct = distinct (estimator, float, data kind, shape, \
         cut, smoothing/hyper-parameters, layout, data hash) tuples.",
    );
    ctx.assume("private naive-Bayes state (class_count, prior, theta/sigma, feature_count/feature_log_prob) is what the serde feature serialises (bincode round trip into a mirror struct)");
    ctx.assume("noise floors: statistics K*eps_F*S with K = 16*(class size + 4*batches + 8) and S = max|x| (means), var + range*max|x| + smoothing terms (variances), count total (feature counts); k-means 32*(m+2)*eps_F*max(|c|,|x|); FTRL 32 f32-ulps on each probability (the code rounds it to f32) propagated through g, sigma, z, n plus 64*eps_F of every summand");
    ctx.assume("Gaussian NB with a zero class variance and multinomial NB with a 0/0 frequency have no defined posterior: statistics are still compared, predictions are not judged");
    ctx.assume("k-means: the shift compared with the tolerance is dist_fn(old centroids, new centroids) over the whole matrix; for non-Euclidean dist_fn the Euclidean reading of the documentation is accepted too; KMeansPara seeds rayon workers from an atomic counter, its run-to-run determinism is left to C20");
    ctx.assume("FTRL: alpha > 0 only (alpha = 0 is accepted by the parameter check but divides by zero); histories in which beta = l2 = n = 0 makes the proximal weight infinite are inconclusive");
    let vs_grid: [f64; 6] = [0.0, 1e-9, 1e-3, 0.1, 1.0, 1e-12];
    let alpha_grid: [f64; 6] = [1.0, 0.0, 1e-3, 0.1, 10.0, 1e-10];
    let seed = ctx.seed;
    let scale: u64 = ctx.tier.pick(1, 12);

    ctx.family("gnb-history", 20000 * scale, |c| {
        let f32mode = c.idx % 3 == 2;
        let strlab = c.idx % 7 == 3;
        let w = gen_gnb(&mut c.rng, c.tier, f32mode, None);
        let vs = vs_grid[c.rng.gen_range(0..c.tier.pick(4, 6))];
        let layout = c.rng.gen_range(0..4u8);
        match (f32mode, strlab) {
            (false, false) => gnb_case::<f64, usize>(c, &w, vs, layout),
            (true, false) => gnb_case::<f32, usize>(c, &w, vs, layout),
            (false, true) => gnb_case::<f64, String>(c, &w, vs, layout),
            (true, true) => gnb_case::<f32, String>(c, &w, vs, layout),
        }
    });
    ctx.family("mnb-history", 20000 * scale, |c| {
        let f32mode = c.idx % 3 == 2;
        let strlab = c.idx % 7 == 3;
        let w = gen_mnb(&mut c.rng, c.tier, None);
        let alpha = alpha_grid[c.rng.gen_range(0..c.tier.pick(4, 6))];
        let layout = c.rng.gen_range(0..4u8);
        match (f32mode, strlab) {
            (false, false) => mnb_case::<f64, usize>(c, &w, alpha, layout),
            (true, false) => mnb_case::<f32, usize>(c, &w, alpha, layout),
            (false, true) => mnb_case::<f64, String>(c, &w, alpha, layout),
            (true, true) => mnb_case::<f32, String>(c, &w, alpha, layout),
        }
    });

    // complete enumeration of the cuts of small datasets
    let n_ac: usize = ctx.tier.pick(8, 11);
    let masks: u64 = 1 << (n_ac - 1);
    let variants: u64 = ctx.tier.pick(24, 48);
    ctx.set_exhaustive(&format!("all 2^{} ordered cuts of each of {variants} {n_ac}-row datasets, per estimator", n_ac - 1), true);
    ctx.family("gnb-all-cuts", masks * variants, |c| {
        let (variant, mask) = (c.idx / masks, c.idx % masks);
        let f32mode = variant % 3 == 2;
        let mut drng = case_rng(seed, "C15", "gnb-all-cuts-data", variant);
        let mut w = gen_gnb(&mut drng, c.tier, f32mode, Some(n_ac));
        w.sizes = cut_from_mask(n_ac, mask);
        w.cut = format!("mask-{mask:b}");
        let vs = vs_grid[(variant % 4) as usize];
        let layout = (variant % 3) as u8;
        c.note("variant", json!(variant));
        if f32mode {
            gnb_case::<f32, usize>(c, &w, vs, layout)
        } else {
            gnb_case::<f64, usize>(c, &w, vs, layout)
        }
    });
    ctx.family("mnb-all-cuts", masks * variants, |c| {
        let (variant, mask) = (c.idx / masks, c.idx % masks);
        let f32mode = variant % 3 == 2;
        let mut drng = case_rng(seed, "C15", "mnb-all-cuts-data", variant);
        let mut w = gen_mnb(&mut drng, c.tier, Some(n_ac));
        w.sizes = cut_from_mask(n_ac, mask);
        w.cut = format!("mask-{mask:b}");
        let alpha = alpha_grid[(variant % 4) as usize];
        let layout = (variant % 3) as u8;
        c.note("variant", json!(variant));
        if f32mode {
            mnb_case::<f32, usize>(c, &w, alpha, layout)
        } else {
            mnb_case::<f64, usize>(c, &w, alpha, layout)
        }
    });

    fn km_dispatch(c: &mut Case, f32mode: bool, metric: Metric, w: &KmWork, layout: u8) -> Outcome {
        match (f32mode, metric) {
            (false, Metric::L2) => kmeans_case::<f64, _>(c, L2Dist, metric, w, layout),
            (false, Metric::L1) => kmeans_case::<f64, _>(c, L1Dist, metric, w, layout),
            (false, Metric::LInf) => kmeans_case::<f64, _>(c, LInfDist, metric, w, layout),
            (true, Metric::L2) => kmeans_case::<f32, _>(c, L2Dist, metric, w, layout),
            (true, Metric::L1) => kmeans_case::<f32, _>(c, L1Dist, metric, w, layout),
            (true, Metric::LInf) => kmeans_case::<f32, _>(c, LInfDist, metric, w, layout),
        }
    }
    ctx.family("kmeans-history", 15000 * scale, |c| {
        let f32mode = c.idx % 3 == 2;
        let w = gen_kmeans(&mut c.rng, c.tier, f32mode, None);
        let layout = c.rng.gen_range(0..4u8);
        let metric = match c.idx % 5 {
            3 => Metric::L1,
            4 => Metric::LInf,
            _ => Metric::L2,
        };
        km_dispatch(c, f32mode, metric, &w, layout)
    });
    ctx.family("kmeans-all-cuts", masks * variants, |c| {
        let (variant, mask) = (c.idx / masks, c.idx % masks);
        let f32mode = variant % 3 == 2;
        let mut drng = case_rng(seed, "C15", "kmeans-all-cuts-data", variant);
        let mut w = gen_kmeans(&mut drng, c.tier, f32mode, Some(n_ac));
        w.sizes = cut_from_mask(n_ac, mask);
        w.cut = format!("mask-{mask:b}");
        let metric = match variant % 5 {
            3 => Metric::L1,
            4 => Metric::LInf,
            _ => Metric::L2,
        };
        c.note("variant", json!(variant));
        km_dispatch(c, f32mode, metric, &w, (variant % 3) as u8)
    });
    ctx.family("kmeans-exact-tolerance-boundary", 600 * scale, kmeans_exact_boundary);
    ctx.family("kmeans-first-batch-init", 4000 * scale, |c| {
        let f32mode = c.idx % 3 == 2;
        let l1 = c.idx % 4 == 1;
        match (f32mode, l1) {
            (false, false) => kmeans_init_case::<f64, _>(c, L2Dist, Metric::L2, false),
            (false, true) => kmeans_init_case::<f64, _>(c, L1Dist, Metric::L1, false),
            (true, false) => kmeans_init_case::<f32, _>(c, L2Dist, Metric::L2, true),
            (true, true) => kmeans_init_case::<f32, _>(c, L1Dist, Metric::L1, true),
        }
    });
    ctx.family("ftrl-history", 15000 * scale, |c| {
        let mut r = c.rng.clone();
        if c.idx % 3 == 2 {
            ftrl_history_case::<f32>(c, &mut r, None)
        } else {
            ftrl_history_case::<f64>(c, &mut r, None)
        }
    });
    ctx.family("ftrl-all-cuts", masks * variants, |c| {
        let (variant, mask) = (c.idx / masks, c.idx % masks);
        let mut drng = case_rng(seed, "C15", "ftrl-all-cuts-data", variant);
        c.note("variant", json!(variant));
        c.note("cut", json!(format!("mask-{mask:b}")));
        let sizes = cut_from_mask(n_ac, mask);
        if variant % 3 == 2 {
            ftrl_history_case::<f32>(c, &mut drng, Some(sizes))
        } else {
            ftrl_history_case::<f64>(c, &mut drng, Some(sizes))
        }
    });
    ctx.family("ftrl-injected-state", 20000 * scale, |c| {
        let upd = c.idx % 2 == 1;
        if c.idx % 3 == 2 {
            ftrl_state_case::<f32>(c, upd)
        } else {
            ftrl_state_case::<f64>(c, upd)
        }
    });
}
