//! C16 — scalers and whiteners achieve their normalisation and act as fixed row-wise maps.
//!
//! Every oracle below is written from the definition in the property text:
//!   * column statistics (mean, population variance, min, max, max-abs) are recomputed in f64 from
//!     the exact element values the scaler saw (the F-typed matrix widened to f64) with a
//!     corrected two-pass scheme, so the oracle's own error is ~1 ulp(f64);
//!   * the normalisation postconditions are evaluated on the *output* of `transform`;
//!   * the affine map on unseen data is predicted (a) from the training statistics by the
//!     definition and (b) from the published accessors `offsets()/scales()` resp.
//!     `mean()/transformation_matrix()`;
//!   * row-wise behaviour is checked by transforming permutations, selections (with repetition and
//!     empty), single rows and other memory layouts of the same rows;
//!   * the dataset form must hand targets, weights, feature and target names through.
//!
//! Tolerances are noise floors `C * eps_F * S` with a data-derived scale `S` (see `within`), the
//! ratio `residual / (eps_F * S)` is what gets recorded in the evidence.
//!
//! Families: `standard`, `minmax`, `maxabs` (LinearScaler variants), `norm` (NormScaler l1/l2/max),
//! `whiten` (PCA/ZCA/Cholesky), `enum-small` (every matrix with n<=3, p<=2 over {-1,0,1,2} through
//! every variant, f32 and f64), `empty-fit` (every fitter on 0-row data must return Err).
//!
//! Signatures with a special role:
//!   * `C16/norm/zero-row-non-finite` — all-zero row divided by its zero norm (DESIGN §6 item 12);
//!   * `C16/whiten/single-row-fit-does-not-return` — n = 1: covariance 0/0, the SVD never returns;
//!   * `C16/whiten/identity-missed-in-one-singular-plane-only` — narrow signature of the numerical
//!     fault of the external SVD (linfa-linalg) behind the PCA/ZCA whiteners, see `check_whiten`;
//!     every other way of missing the identity covariance keeps
//!     `C16/whiten/covariance-not-identity`.
//!
//! Development aids (no effect on verdicts): `C16_ONLY=<family>`, `VERIF_TRACE=1`.
use crate::fw::*;
use crate::gen;
use crate::oracle;
use linfa::dataset::{AsTargets, DatasetBase};
use linfa::traits::{Fit, Transformer};
use linfa_preprocessing::linear_scaling::{LinearScaler, LinearScalerParams, ScalingMethod};
use linfa_preprocessing::norm_scaling::NormScaler;
use linfa_preprocessing::whitening::{Whitener, WhiteningMethod};
use ndarray::{s, Array1, Array2, Axis};
use rand::Rng as _;
use serde_json::{json, Value};
use std::sync::atomic::{AtomicUsize, Ordering};

type Fail = (String, Value);

/// few-ulp floor: two evaluations of the same short formula
const C_FLOOR: f64 = 256.0;
/// statistics floor: unit already contains the condition number of the column
const C_STAT: f64 = 1024.0;
/// whitening floor: unit already contains p * (max|x|^2 + lambda_max) / lambda_min
const C_WHITE: f64 = 1024.0;
/// a check whose tolerance would exceed this is not informative and is skipped (counted)
const TOL_CAP: f64 = 0.02;

macro_rules! tri {
    ($e:expr) => {
        match $e {
            Ok(v) => v,
            Err((sig, d)) => return violated(sig, d),
        }
    };
}

fn fail<T>(sig: impl Into<String>, detail: Value) -> Result<T, Fail> {
    Err((sig.into(), detail))
}

fn eps_of<F: linfa::Float>() -> f64 {
    F::epsilon().to_f64().unwrap()
}
fn fname<F: linfa::Float>() -> &'static str {
    if std::mem::size_of::<F>() == 4 {
        "f32"
    } else {
        "f64"
    }
}
fn to64<F: linfa::Float>(a: &Array2<F>) -> Array2<f64> {
    a.mapv(|v| v.to_f64().unwrap())
}
fn from64<F: linfa::Float>(a: &Array2<f64>) -> Array2<F> {
    a.mapv(|v| F::cast(v))
}

/// residual in units of `unit`; 0 when the residual is exactly 0, NaN when it is not finite
fn ratio(resid: f64, unit: f64) -> f64 {
    if resid == 0.0 {
        0.0
    } else if !resid.is_finite() {
        f64::NAN
    } else if unit > 0.0 {
        resid / unit
    } else {
        f64::INFINITY
    }
}

/// noise-floor comparison; records the ratio of passing comparisons under `name`
fn within(c: &mut Case, name: &str, resid: f64, unit: f64, cmax: f64) -> Result<(), f64> {
    let r = ratio(resid, unit);
    if r <= cmax {
        if r > 0.05 * cmax && std::env::var("VERIF_TRACE").is_ok() {
            eprintln!("TRACE high ratio {name} {r:.3} family={} idx={} resid={resid:e} unit={unit:e} n={:?} p={:?} F={:?} scaler={:?}", c.family, c.idx, c.notes.get("n"), c.notes.get("p"), c.notes.get("F"), c.notes.get("scaler"));
        }
        c.resid(name, r);
        Ok(())
    } else {
        Err(r)
    }
}

fn small_hash(a: &Array2<f64>) -> u64 {
    let mut h: u64 = 0xcbf29ce484222325 ^ ((a.nrows() as u64) << 32 | a.ncols() as u64);
    for v in a.iter() {
        h ^= v.to_bits();
        h = h.wrapping_mul(0x100000001b3);
    }
    h & 0xffff_ffff
}

fn mat_json(a: &Array2<f64>) -> Value {
    if a.len() <= 80 {
        json!(a.rows().into_iter().map(|r| r.to_vec()).collect::<Vec<_>>())
    } else {
        json!(format!("{}x{} hash {:08x}", a.nrows(), a.ncols(), small_hash(a)))
    }
}

/// the same rows in another memory layout (all are legitimate owned `Array2`)
fn relayout<F: linfa::Float>(a: &Array2<F>, kind: u8) -> Array2<F> {
    let (n, p) = a.dim();
    match kind {
        1 => {
            let mut f = Array2::zeros((p, n));
            f.assign(&a.t());
            f.reversed_axes()
        }
        2 => {
            let mut big = Array2::from_elem((2 * n, p), F::cast(777.0));
            big.slice_mut(s![..;2, ..]).assign(a);
            big.slice_move(s![..;2, ..])
        }
        3 => {
            let mut big = Array2::from_elem((n, 2 * p), F::cast(-555.0));
            big.slice_mut(s![.., ..;2]).assign(a);
            big.slice_move(s![.., ..;2])
        }
        4 => {
            let mut r = a.slice(s![..;-1, ..]).to_owned();
            r.invert_axis(Axis(0));
            r
        }
        _ => a.as_standard_layout().to_owned(),
    }
}
const LAYOUTS: [&str; 5] = ["c", "f", "row-strided", "col-strided", "rows-reversed"];

fn select_rows<T: Clone>(a: &Array2<T>, idx: &[usize]) -> Array2<T> {
    a.select(Axis(0), idx)
}

// ------------------------------------------------------------------ column statistics (oracle)

#[derive(Clone, Debug)]
struct ColStat {
    m1: f64,
    corr: f64,
    mean: f64,
    var: f64,
    sd: f64,
    lo: f64,
    hi: f64,
    maxabs: f64,
}
impl ColStat {
    /// x - mean, accurate also when x and the mean are huge and close
    fn centred(&self, x: f64) -> f64 {
        (x - self.m1) - self.corr
    }
    fn constant(&self) -> bool {
        self.lo == self.hi
    }
}

fn col_stat(col: &[f64]) -> ColStat {
    let n = col.len() as f64;
    let m1 = col.iter().sum::<f64>() / n;
    let corr = col.iter().map(|x| x - m1).sum::<f64>() / n;
    let var = col.iter().map(|x| ((x - m1) - corr).powi(2)).sum::<f64>() / n;
    let lo = col.iter().cloned().fold(f64::INFINITY, f64::min);
    let hi = col.iter().cloned().fold(f64::NEG_INFINITY, f64::max);
    let maxabs = col.iter().fold(0.0f64, |a, x| a.max(x.abs()));
    ColStat {
        m1,
        corr,
        mean: m1 + corr,
        var,
        sd: var.sqrt(),
        lo,
        hi,
        maxabs,
    }
}

fn stats_of(a: &Array2<f64>) -> Vec<ColStat> {
    (0..a.ncols())
        .map(|j| col_stat(&a.column(j).to_vec()))
        .collect()
}

fn distinct_rows(a: &Array2<f64>) -> bool {
    (1..a.nrows()).any(|i| a.row(i) != a.row(0))
}

// ------------------------------------------------------------------ row-wise behaviour

/// `tf` must behave as one fixed row-wise map: same rows in, same rows out, whatever the order,
/// the multiplicity, the number of rows or the memory layout.
fn check_rowwise<F: linfa::Float>(
    c: &mut Case,
    aspect: &str,
    tf: &dyn Fn(Array2<F>) -> Array2<F>,
    b: &Array2<F>,
    yb: &Array2<f64>,
    unit: &Array2<f64>,
    desc: &Value,
) -> Result<u64, Fail> {
    let (nb, _p) = b.dim();
    let q = yb.ncols();
    let mut evals = 0u64;
    let run = |x: Array2<F>| -> Result<Array2<f64>, String> { guarded(|| tf(x)).map(|y| to64(&y)) };
    // compare out rows against reference rows `idx`
    let mut cmp = |c: &mut Case, what: &str, out: &Array2<f64>, idx: &[usize]| -> Result<(), Fail> {
        if out.dim() != (idx.len(), q) {
            return fail(
                format!("C16/rowwise/{what}-shape"),
                json!({"aspect":aspect,"case":desc,"got":[out.nrows(),out.ncols()],"expected":[idx.len(),q]}),
            );
        }
        let mut exact = true;
        for (r, &i) in idx.iter().enumerate() {
            for j in 0..q {
                let (g, e) = (out[[r, j]], yb[[i, j]]);
                if g.to_bits() != e.to_bits() {
                    exact = false;
                }
                if let Err(rt) = within(c, "rowwise-ratio", (g - e).abs(), 2.0 * unit[[i, j]], C_FLOOR) {
                    return fail(
                        format!("C16/rowwise/{what}"),
                        json!({"aspect":aspect,"case":desc,"row_in_reference":i,"row_in_call":r,"col":j,
                               "got":g,"reference":e,"ratio":rt,"cmax":C_FLOOR}),
                    );
                }
            }
        }
        c.count(if exact { "rowwise-bit-exact" } else { "rowwise-within-floor" });
        Ok(())
    };
    let all: Vec<usize> = (0..nb).collect();
    // 1. the same call again: bit-identical (fixed map, no state)
    let again = run(b.clone()).map_err(|p| (format!("C16/{aspect}/panic"), json!({"case":desc,"panic":p})))?;
    if again.dim() != yb.dim() || again.iter().zip(yb.iter()).any(|(x, y)| x.to_bits() != y.to_bits()) {
        return fail("C16/rowwise/repeat-call", json!({"aspect":aspect,"case":desc}));
    }
    evals += 1;
    // 2. other layouts of the same rows
    for k in 1..5u8 {
        let out = run(relayout(b, k))
            .map_err(|p| (format!("C16/{aspect}/panic"), json!({"case":desc,"layout":LAYOUTS[k as usize],"panic":p})))?;
        cmp(c, "layout", &out, &all)?;
        evals += 1;
    }
    // 3. permutation
    let perm = gen::permutation(&mut c.rng, nb);
    let out = run(select_rows(b, &perm))
        .map_err(|p| (format!("C16/{aspect}/panic"), json!({"case":desc,"op":"permutation","panic":p})))?;
    cmp(c, "permutation", &out, &perm)?;
    evals += 1;
    // 4. selections with repetition: empty, random, doubled
    let k = c.rng.gen_range(1..=2 * nb);
    let sel: Vec<usize> = (0..k).map(|_| c.rng.gen_range(0..nb)).collect();
    for s in [Vec::new(), sel] {
        let out = run(select_rows(b, &s))
            .map_err(|p| (format!("C16/{aspect}/panic"), json!({"case":desc,"op":"selection","rows":s.len(),"panic":p})))?;
        cmp(c, "selection", &out, &s)?;
        evals += 1;
    }
    // 5. single rows
    for _ in 0..nb.min(3) {
        let i = c.rng.gen_range(0..nb);
        let out = run(select_rows(b, &[i]))
            .map_err(|p| (format!("C16/{aspect}/panic"), json!({"case":desc,"op":"single-row","panic":p})))?;
        cmp(c, "single-row", &out, &[i])?;
        evals += 1;
    }
    Ok(evals)
}

// ------------------------------------------------------------------ dataset form

fn verify_ds<F: linfa::Float, T: AsTargets + PartialEq + std::fmt::Debug>(
    c: &mut Case,
    aspect: &str,
    out: &DatasetBase<Array2<F>, T>,
    targets: &T,
    weights: &Option<Vec<f32>>,
    fnames: &[String],
    tnames: &[String],
    yb: &Array2<f64>,
    unit: &Array2<f64>,
    desc: &Value,
) -> Result<(), Fail> {
    let rec = to64(out.records());
    if rec.dim() != yb.dim() {
        return fail(
            "C16/dataset/records-shape",
            json!({"aspect":aspect,"case":desc,"got":[rec.nrows(),rec.ncols()],"expected":[yb.nrows(),yb.ncols()]}),
        );
    }
    for ((i, j), g) in rec.indexed_iter() {
        if let Err(rt) = within(c, "dataset-records-ratio", (g - yb[[i, j]]).abs(), 2.0 * unit[[i, j]], C_FLOOR) {
            return fail(
                "C16/dataset/records",
                json!({"aspect":aspect,"case":desc,"row":i,"col":j,"got":g,"array_form":yb[[i,j]],"ratio":rt}),
            );
        }
    }
    if out.targets() != targets {
        return fail(
            "C16/dataset/targets",
            json!({"aspect":aspect,"case":desc,"got":format!("{:?}", out.targets()),"expected":format!("{:?}", targets)}),
        );
    }
    let w_out: Option<Vec<f32>> = out.weights().map(|w| w.to_vec());
    let same_w = match (&w_out, weights) {
        (None, None) => true,
        (Some(a), Some(b)) => a.len() == b.len() && a.iter().zip(b).all(|(x, y)| x.to_bits() == y.to_bits()),
        _ => false,
    };
    if !same_w {
        return fail("C16/dataset/weights", json!({"aspect":aspect,"case":desc,"got":w_out,"expected":weights}));
    }
    if out.feature_names() != fnames {
        return fail(
            "C16/dataset/feature-names",
            json!({"aspect":aspect,"case":desc,"got":out.feature_names(),"expected":fnames}),
        );
    }
    if out.target_names() != tnames {
        return fail(
            "C16/dataset/target-names",
            json!({"aspect":aspect,"case":desc,"got":out.target_names(),"expected":tnames}),
        );
    }
    Ok(())
}

/// Build a dataset around `b` with random metadata, push it through `$t`, verify the pass-through.
/// Evaluates to Result<(), Fail>.
macro_rules! dataset_checks {
    ($c:expr, $aspect:expr, $t:expr, $F:ty, $b:expr, $yb:expr, $unit:expr, $desc:expr) => {{
        let c: &mut Case = $c;
        let b: &Array2<$F> = $b;
        let nb = b.nrows();
        let p = b.ncols();
        let layout = c.rng.gen_range(0..5u8);
        let as_view = c.rng.gen_bool(0.5);
        let multi = c.rng.gen_bool(0.5);
        let ntar = if multi { c.rng.gen_range(1..=3usize) } else { 1 };
        let weights: Option<Vec<f32>> = if c.rng.gen_bool(0.6) {
            Some((0..nb).map(|_| c.rng.gen_range(1..100) as f32 / 8.0).collect())
        } else {
            None
        };
        let fnames: Vec<String> = if c.rng.gen_bool(0.6) {
            (0..p).map(|j| format!("feat-{j}-{}", c.rng.gen_range(0..1000))).collect()
        } else {
            vec![]
        };
        let tnames: Vec<String> = if c.rng.gen_bool(0.6) {
            (0..ntar).map(|j| format!("tar-{j}-{}", c.rng.gen_range(0..1000))).collect()
        } else {
            vec![]
        };
        let bl = relayout(b, layout);
        let t1: Array1<usize> = Array1::from_shape_fn(nb, |_| c.rng.gen_range(0..5usize));
        let t2: Array2<f64> = Array2::from_shape_fn((nb, ntar), |_| c.rng.gen_range(-50..50) as f64 / 4.0);
        let wa = || Array1::from(weights.clone().unwrap_or_default());
        let desc = json!({"case": $desc, "dataset": {"layout": LAYOUTS[layout as usize], "view": as_view,
            "multi_target": multi, "ntargets": ntar, "weights": weights.is_some(),
            "feature_names": !fnames.is_empty(), "target_names": !tnames.is_empty()}});
        let res: Result<Result<(), Fail>, String> = match (as_view, multi) {
            (false, false) => {
                let ds = DatasetBase::new(bl.clone(), t1.clone())
                    .with_weights(wa()).with_feature_names(fnames.clone()).with_target_names(tnames.clone());
                guarded(|| $t.transform(ds)).map(|o| verify_ds(c, $aspect, &o, &t1, &weights, &fnames, &tnames, $yb, $unit, &desc))
            }
            (false, true) => {
                let ds = DatasetBase::new(bl.clone(), t2.clone())
                    .with_weights(wa()).with_feature_names(fnames.clone()).with_target_names(tnames.clone());
                guarded(|| $t.transform(ds)).map(|o| verify_ds(c, $aspect, &o, &t2, &weights, &fnames, &tnames, $yb, $unit, &desc))
            }
            (true, false) => {
                let ds = DatasetBase::new(bl.view(), t1.clone())
                    .with_weights(wa()).with_feature_names(fnames.clone()).with_target_names(tnames.clone());
                guarded(|| $t.transform(ds)).map(|o| verify_ds(c, $aspect, &o, &t1, &weights, &fnames, &tnames, $yb, $unit, &desc))
            }
            (true, true) => {
                let ds = DatasetBase::new(bl.view(), t2.clone())
                    .with_weights(wa()).with_feature_names(fnames.clone()).with_target_names(tnames.clone());
                guarded(|| $t.transform(ds)).map(|o| verify_ds(c, $aspect, &o, &t2, &weights, &fnames, &tnames, $yb, $unit, &desc))
            }
        };
        match res {
            Ok(r) => r,
            Err(p) => fail("C16/dataset/panic", json!({"aspect": $aspect, "case": desc, "panic": p})),
        }
    }};
}

// ------------------------------------------------------------------ linear scalers

#[derive(Clone, Copy, Debug, PartialEq)]
enum LinKind {
    Standard(bool, bool),
    MinMax(f64, f64),
    MaxAbs,
}
impl LinKind {
    fn aspect(&self) -> &'static str {
        match self {
            LinKind::Standard(..) => "standard",
            LinKind::MinMax(..) => "minmax",
            LinKind::MaxAbs => "maxabs",
        }
    }
    fn name(&self) -> String {
        match self {
            LinKind::Standard(m, s) => format!("standard(mean={m},std={s})"),
            LinKind::MinMax(a, b) => format!("minmax({a:e},{b:e})"),
            LinKind::MaxAbs => "maxabs".into(),
        }
    }
}

fn lin_params<F: linfa::Float>(kind: LinKind, ctor: u8) -> LinearScalerParams<F> {
    let method = match kind {
        LinKind::Standard(m, s) => ScalingMethod::Standard(m, s),
        LinKind::MinMax(a, b) => ScalingMethod::MinMax(F::cast(a), F::cast(b)),
        LinKind::MaxAbs => ScalingMethod::MaxAbs,
    };
    match ctor % 3 {
        0 => match kind {
            LinKind::Standard(true, true) => LinearScaler::standard(),
            LinKind::Standard(false, true) => LinearScaler::standard_no_mean(),
            LinKind::Standard(true, false) => LinearScaler::standard_no_std(),
            LinKind::MinMax(a, b) if a == 0.0 && b == 1.0 => LinearScaler::min_max(),
            LinKind::MinMax(a, b) => LinearScaler::min_max_range(F::cast(a), F::cast(b)),
            LinKind::MaxAbs => LinearScaler::max_abs(),
            _ => LinearScalerParams::new(method),
        },
        1 => LinearScalerParams::new(method),
        _ => LinearScaler::max_abs().method(method),
    }
}

struct LinReport {
    strict_cols: u64,
    evals: u64,
}

/// All checks for one linear scaler on one (training matrix, unseen matrix) pair.
/// `a64`/`b64` must already be exactly representable in F.
fn check_linear<F: linfa::Float>(
    c: &mut Case,
    kind: LinKind,
    a64: &Array2<f64>,
    b64: &Array2<f64>,
    la: u8,
    ctor: u8,
    with_meta: bool,
) -> Result<LinReport, Fail> {
    let eps = eps_of::<F>();
    let asp = kind.aspect();
    let (n, p) = a64.dim();
    let desc = json!({"scaler": kind.name(), "F": fname::<F>(), "n": n, "p": p, "layout": LAYOUTS[la as usize],
                      "A": mat_json(a64), "B": mat_json(b64)});
    let a: Array2<F> = from64(a64);
    let b: Array2<F> = from64(b64);
    let params = lin_params::<F>(kind, ctor);
    let al = relayout(&a, la);
    // the fit must look at the records only: half of the cases carry targets, weights and names
    let fit = if with_meta && c.rng.gen_bool(0.5) {
        let tar = Array1::from_shape_fn(n, |i| i % 3);
        let ds = DatasetBase::new(al.view(), tar)
            .with_weights(Array1::from_shape_fn(n, |i| 0.5 + i as f32))
            .with_feature_names((0..p).map(|j| format!("f{j}")).collect::<Vec<_>>());
        guarded(|| params.fit(&ds))
    } else {
        guarded(|| params.fit(&DatasetBase::from(al.view())))
    };
    let scaler = match fit {
        Err(pn) => return fail(format!("C16/{asp}/panic"), json!({"case":desc,"op":"fit","panic":pn})),
        Ok(Err(e)) => return fail(format!("C16/{asp}/fit-error"), json!({"case":desc,"error":e.to_string()})),
        Ok(Ok(s)) => s,
    };
    let before = scaler.clone();
    let off: Vec<f64> = scaler.offsets().iter().map(|v| v.to_f64().unwrap()).collect();
    let sc: Vec<f64> = scaler.scales().iter().map(|v| v.to_f64().unwrap()).collect();
    if off.len() != p || sc.len() != p {
        return fail(format!("C16/{asp}/accessor-shape"), json!({"case":desc,"offsets":off.len(),"scales":sc.len()}));
    }
    if off.iter().chain(sc.iter()).any(|v| !v.is_finite()) {
        return fail(format!("C16/{asp}/accessor-non-finite"), json!({"case":desc,"offsets":off,"scales":sc}));
    }
    let tf = |x: Array2<F>| scaler.transform(x);
    let ya = match guarded(|| tf(al.clone())) {
        Ok(y) => to64(&y),
        Err(pn) => return fail(format!("C16/{asp}/panic"), json!({"case":desc,"op":"transform(A)","panic":pn})),
    };
    let yb = match guarded(|| tf(b.clone())) {
        Ok(y) => to64(&y),
        Err(pn) => return fail(format!("C16/{asp}/panic"), json!({"case":desc,"op":"transform(B)","panic":pn})),
    };
    if ya.dim() != a64.dim() || yb.dim() != b64.dim() {
        return fail(format!("C16/{asp}/output-shape"), json!({"case":desc,"ya":[ya.nrows(),ya.ncols()],"yb":[yb.nrows(),yb.ncols()]}));
    }
    let mut evals = 0u64;

    // ---- (b) the affine map read off the accessors, on training and unseen rows
    let (ra, rb) = match kind {
        LinKind::MinMax(a, b) => (a, b),
        _ => (0.0, 1.0),
    };
    let acc_map = |x: f64, j: usize| -> (f64, f64) {
        let v = (x - off[j]) * sc[j];
        match kind {
            LinKind::Standard(true, _) | LinKind::MaxAbs => (v, v.abs()),
            LinKind::Standard(false, _) => (v + off[j], v.abs() + off[j].abs()),
            LinKind::MinMax(..) => (v * (rb - ra) + ra, (v * (rb - ra)).abs() + ra.abs()),
        }
    };
    let mut unit_b = Array2::<f64>::zeros(b64.dim());
    for (x64, y, is_b) in [(a64, &ya, false), (b64, &yb, true)] {
        for ((i, j), &x) in x64.indexed_iter() {
            let (e, s) = acc_map(x, j);
            let unit = eps * s;
            if is_b {
                unit_b[[i, j]] = unit;
            }
            if let Err(rt) = within(c, "accessor-map-ratio", (y[[i, j]] - e).abs(), unit, C_FLOOR) {
                return fail(
                    format!("C16/{asp}/accessor-map"),
                    json!({"case":desc,"on": if is_b {"unseen"} else {"training"},"row":i,"col":j,"x":x,
                           "offset":off[j],"scale":sc[j],"got":y[[i,j]],"expected":e,"ratio":rt,"cmax":C_FLOOR}),
                );
            }
            evals += 1;
        }
    }

    // ---- (a) definition: postconditions on the training data, predicted map on all rows
    let st = stats_of(a64);
    let two = distinct_rows(a64);
    // mean and variance are sums of n terms: their rounding error grows with n (sqrt(n) random
    // walk; measured <= 0.12 n for same-sign columns, which sqrt(n) * C still covers 100-fold)
    let rootn = (n as f64).sqrt();
    let mut strict_cols = 0u64;
    for j in 0..p {
        let s = &st[j];
        let cola: Vec<f64> = ya.column(j).to_vec();
        let ysta = col_stat(&cola);
        // candidate slopes: Some(k) strict, or guard class [scaled, untouched]
        let guard = 2.0 * eps;
        match kind {
            LinKind::Standard(wm, ws) => {
                let shift = if wm { 0.0 } else { s.mean };
                if s.constant() || !ws {
                    // only centred: y = (x - mean) + shift, slope exactly one
                    let m = s.maxabs;
                    for (x64, y, on) in [(a64, &ya, "training"), (b64, &yb, "unseen")] {
                        for i in 0..x64.nrows() {
                            let x = x64[[i, j]];
                            let e = s.centred(x) + shift;
                            let unit = eps * (rootn * m + x.abs());
                            if let Err(rt) = within(c, "std-centred-ratio", (y[[i, j]] - e).abs(), unit, C_FLOOR) {
                                let sig = if s.constant() { "constant-column-not-centred" } else { "no-std-map" };
                                return fail(format!("C16/standard/{sig}"),
                                    json!({"case":desc,"on":on,"row":i,"col":j,"x":x,"column_mean":s.mean,"got":y[[i,j]],"expected":e,"ratio":rt}));
                            }
                            evals += 1;
                        }
                    }
                    if two && !s.constant() {
                        // no-std keeps the spread, and keeps / removes the mean
                        let kappa = 1.0 + s.maxabs / s.sd;
                        if let Err(rt) = within(c, "std-var-ratio", (ysta.var - s.var).abs(), eps * rootn * kappa * s.var, C_STAT) {
                            return fail("C16/standard/spread-not-kept", json!({"case":desc,"col":j,"got_var":ysta.var,"expected_var":s.var,"ratio":rt}));
                        }
                        if let Err(rt) = within(c, "std-mean-ratio", (ysta.mean - shift).abs(), eps * rootn * (s.maxabs + s.sd), C_STAT) {
                            let sig = if wm { "mean-not-zero" } else { "mean-not-kept" };
                            return fail(format!("C16/standard/{sig}"), json!({"case":desc,"col":j,"got_mean":ysta.mean,"expected_mean":shift,"ratio":rt}));
                        }
                        strict_cols += 1;
                    }
                    continue;
                }
                // condition of the column; the no-mean variant puts unit-spread values back on top
                // of the mean, so its output is conditioned by |x| / 1 instead of |x| / sd
                let kappa = 1.0 + s.maxabs / s.sd;
                let is_guard = s.sd <= guard;
                let kappa_out = kappa + if wm { 0.0 } else { s.maxabs };
                if !is_guard && C_STAT * eps * rootn * kappa_out > TOL_CAP {
                    c.count("ill-conditioned-column-skipped");
                    continue;
                }
                let cands: Vec<f64> = if is_guard { vec![1.0 / s.sd, 1.0] } else { vec![1.0 / s.sd] };
                let (nm_map, nm_var, nm_mean) = if is_guard {
                    ("guard-std-map-ratio", "guard-std-var-ratio", "guard-std-mean-ratio")
                } else {
                    ("std-map-ratio", "std-var-ratio", "std-mean-ratio")
                };
                let mut first_fail: Option<Fail> = None;
                let mut ok = false;
                for &k in &cands {
                    let mut attempt = || -> Result<u64, Fail> {
                        let mut ev = 0;
                        let kap_s = if k == 1.0 { 1.0 } else { kappa };
                        for (x64, y, on) in [(a64, &ya, "training"), (b64, &yb, "unseen")] {
                            for i in 0..x64.nrows() {
                                let x = x64[[i, j]];
                                let d = s.centred(x);
                                let e = d * k + shift;
                                let unit = eps * rootn * (s.maxabs * k + kap_s * d.abs() * k + if wm { 0.0 } else { s.maxabs });
                                if let Err(rt) = within(c, nm_map, (y[[i, j]] - e).abs(), unit, C_STAT) {
                                    return fail("C16/standard/map-from-definition",
                                        json!({"case":desc,"on":on,"row":i,"col":j,"x":x,"column_mean":s.mean,"column_sd":s.sd,
                                               "got":y[[i,j]],"expected":e,"ratio":rt,"cmax":C_STAT}));
                                }
                                ev += 1;
                            }
                        }
                        if two {
                            let target_var = (k * s.sd) * (k * s.sd);
                            let kap_v = kappa + if wm { 0.0 } else { s.maxabs / (k * s.sd) };
                            if let Err(rt) = within(c, nm_var, (ysta.var - target_var).abs(), eps * rootn * kap_v * target_var, C_STAT) {
                                return fail("C16/standard/variance-not-one",
                                    json!({"case":desc,"col":j,"got_var":ysta.var,"expected_var":target_var,"n":n,"ratio":rt,"cmax":C_STAT,"kappa":kappa}));
                            }
                            let unit = eps * rootn * (s.maxabs * k + k * s.sd + if wm { 0.0 } else { s.maxabs });
                            if let Err(rt) = within(c, nm_mean, (ysta.mean - shift).abs(), unit, C_STAT) {
                                let sig = if wm { "mean-not-zero" } else { "mean-not-kept" };
                                return fail(format!("C16/standard/{sig}"),
                                    json!({"case":desc,"col":j,"got_mean":ysta.mean,"expected_mean":shift,"ratio":rt,"cmax":C_STAT,"kappa":kappa}));
                            }
                            ev += 2;
                        }
                        Ok(ev)
                    };
                    match attempt() {
                        Ok(ev) => {
                            evals += ev;
                            ok = true;
                            break;
                        }
                        Err(f) => {
                            if first_fail.is_none() {
                                first_fail = Some(f);
                            }
                        }
                    }
                }
                if !ok {
                    return Err(first_fail.unwrap());
                }
                if is_guard {
                    c.count("guard-class-column");
                } else if two {
                    strict_cols += 1;
                }
            }
            LinKind::MinMax(..) => {
                if s.constant() {
                    c.count("minmax-constant-column");
                    continue;
                }
                let span = s.hi - s.lo;
                let r = rb - ra;
                let is_guard = span <= guard;
                let cands: Vec<f64> = if is_guard { vec![1.0 / span, 1.0] } else { vec![1.0 / span] };
                let (nm_map, nm_end) = if is_guard {
                    ("guard-minmax-map-ratio", "guard-minmax-end-ratio")
                } else {
                    ("minmax-map-ratio", "minmax-end-ratio")
                };
                let mut first_fail: Option<Fail> = None;
                let mut ok = false;
                for &k in &cands {
                    let mut attempt = || -> Result<u64, Fail> {
                        let mut ev = 0;
                        for (x64, y, on) in [(a64, &ya, "training"), (b64, &yb, "unseen")] {
                            for i in 0..x64.nrows() {
                                let x = x64[[i, j]];
                                let t = (x - s.lo) * k;
                                let e = t * r + ra;
                                let unit = eps * ((t * r).abs() + ra.abs());
                                if let Err(rt) = within(c, nm_map, (y[[i, j]] - e).abs(), unit, C_FLOOR) {
                                    return fail("C16/minmax/map-from-definition",
                                        json!({"case":desc,"on":on,"row":i,"col":j,"x":x,"column_min":s.lo,"column_max":s.hi,
                                               "got":y[[i,j]],"expected":e,"ratio":rt,"cmax":C_FLOOR}));
                                }
                                ev += 1;
                            }
                        }
                        if two {
                            let unit = eps * (ra.abs() + rb.abs() + r.abs());
                            if let Err(rt) = within(c, nm_end, (ysta.lo - ra).abs(), unit, C_FLOOR) {
                                return fail("C16/minmax/lower-end",
                                    json!({"case":desc,"col":j,"got_min":ysta.lo,"expected":ra,"ratio":rt}));
                            }
                            let top = ra + span * k * r;
                            if let Err(rt) = within(c, nm_end, (ysta.hi - top).abs(), unit, C_FLOOR) {
                                return fail("C16/minmax/upper-end",
                                    json!({"case":desc,"col":j,"got_max":ysta.hi,"expected":top,"ratio":rt}));
                            }
                            ev += 2;
                        }
                        Ok(ev)
                    };
                    match attempt() {
                        Ok(ev) => {
                            evals += ev;
                            ok = true;
                            break;
                        }
                        Err(f) => {
                            if first_fail.is_none() {
                                first_fail = Some(f);
                            }
                        }
                    }
                }
                if !ok {
                    return Err(first_fail.unwrap());
                }
                if is_guard {
                    c.count("guard-class-column");
                } else if two {
                    strict_cols += 1;
                }
            }
            LinKind::MaxAbs => {
                if s.maxabs == 0.0 {
                    c.count("maxabs-zero-column");
                    continue;
                }
                let is_guard = s.maxabs <= guard;
                let cands: Vec<f64> = if is_guard { vec![1.0 / s.maxabs, 1.0] } else { vec![1.0 / s.maxabs] };
                let (nm_map, nm_one) = if is_guard {
                    ("guard-maxabs-map-ratio", "guard-maxabs-one-ratio")
                } else {
                    ("maxabs-map-ratio", "maxabs-one-ratio")
                };
                let mut first_fail: Option<Fail> = None;
                let mut ok = false;
                for &k in &cands {
                    let mut attempt = || -> Result<u64, Fail> {
                        let mut ev = 0;
                        for (x64, y, on) in [(a64, &ya, "training"), (b64, &yb, "unseen")] {
                            for i in 0..x64.nrows() {
                                let x = x64[[i, j]];
                                let e = x * k;
                                if let Err(rt) = within(c, nm_map, (y[[i, j]] - e).abs(), eps * e.abs(), C_FLOOR) {
                                    return fail("C16/maxabs/map-from-definition",
                                        json!({"case":desc,"on":on,"row":i,"col":j,"x":x,"column_maxabs":s.maxabs,
                                               "got":y[[i,j]],"expected":e,"ratio":rt,"cmax":C_FLOOR}));
                                }
                                ev += 1;
                            }
                        }
                        // (holds for n = 1 too: a single non-zero value is a non-zero column)
                        let target = s.maxabs * k;
                        if let Err(rt) = within(c, nm_one, (ysta.maxabs - target).abs(), eps * target, C_FLOOR) {
                            return fail("C16/maxabs/max-not-one",
                                json!({"case":desc,"col":j,"got_maxabs":ysta.maxabs,"expected":target,"ratio":rt}));
                        }
                        Ok(ev + 1)
                    };
                    match attempt() {
                        Ok(ev) => {
                            evals += ev;
                            ok = true;
                            break;
                        }
                        Err(f) => {
                            if first_fail.is_none() {
                                first_fail = Some(f);
                            }
                        }
                    }
                }
                if !ok {
                    return Err(first_fail.unwrap());
                }
                if is_guard {
                    c.count("guard-class-column");
                } else {
                    strict_cols += 1;
                }
            }
        }
    }

    // ---- row-wise map, fixed
    evals += check_rowwise::<F>(c, asp, &tf, &b, &yb, &unit_b, &desc)?;
    if scaler != before {
        return fail("C16/rowwise/state-changed", json!({"case":desc}));
    }
    // ---- dataset form
    if with_meta {
        dataset_checks!(c, asp, scaler, F, &b, &yb, &unit_b, &desc)?;
        evals += 1;
    }
    Ok(LinReport { strict_cols, evals })
}

// ------------------------------------------------------------------ norm scaler

fn norm_of(kind: u8, row: &[f64]) -> f64 {
    match kind {
        0 => row.iter().map(|x| x.abs()).sum(),
        1 => {
            // scaled two-pass: immune to under/overflow of the squares
            let m = row.iter().fold(0.0f64, |a, x| a.max(x.abs()));
            if m == 0.0 {
                0.0
            } else {
                m * row.iter().map(|x| (x / m) * (x / m)).sum::<f64>().sqrt()
            }
        }
        _ => row.iter().fold(0.0f64, |a, x| a.max(x.abs())),
    }
}
const NORMS: [&str; 3] = ["l1", "l2", "max"];

fn check_norm<F: linfa::Float>(c: &mut Case, kind: u8, b64: &Array2<f64>, with_meta: bool) -> Result<(u64, u64), Fail> {
    let eps = eps_of::<F>();
    let (n, p) = b64.dim();
    let desc = json!({"scaler": format!("norm-{}", NORMS[kind as usize]), "F": fname::<F>(), "n": n, "p": p, "B": mat_json(b64)});
    let b: Array2<F> = from64(b64);
    let scaler = match kind {
        0 => NormScaler::l1(),
        1 => NormScaler::l2(),
        _ => NormScaler::max(),
    };
    let tf = |x: Array2<F>| scaler.transform(x);
    let yb = match guarded(|| tf(b.clone())) {
        Ok(y) => to64(&y),
        Err(pn) => return fail("C16/norm/panic", json!({"case":desc,"op":"transform","panic":pn})),
    };
    if yb.dim() != b64.dim() {
        return fail("C16/norm/output-shape", json!({"case":desc,"got":[yb.nrows(),yb.ncols()]}));
    }
    let mut unit = Array2::<f64>::zeros(b64.dim());
    let mut nonzero_rows = 0u64;
    let mut evals = 0u64;
    for i in 0..n {
        let x: Vec<f64> = b64.row(i).to_vec();
        let y: Vec<f64> = yb.row(i).to_vec();
        let nx = norm_of(kind, &x);
        if nx == 0.0 {
            // all-zero row: the property only asks for finite output
            if y.iter().any(|v| !v.is_finite()) {
                return fail("C16/norm/zero-row-non-finite", json!({"case":desc,"row":i,"input_row":x,"output_row":y.iter().map(|v| format!("{v}")).collect::<Vec<_>>()}));
            }
            c.count("norm-zero-row");
            for j in 0..p {
                unit[[i, j]] = 0.0;
            }
            evals += 1;
            continue;
        }
        nonzero_rows += 1;
        if y.iter().any(|v| !v.is_finite()) {
            return fail("C16/norm/non-finite", json!({"case":desc,"row":i,"input_row":x,"output_row":y.iter().map(|v| format!("{v}")).collect::<Vec<_>>()}));
        }
        let ny = norm_of(kind, &y);
        // at the bottom of the range the norm itself is only representable up to half a
        // subnormal spacing: eps*w grows by that relative amount
        let denorm_min = to64(&Array2::from_elem((1, 1), F::min_positive_value() * F::epsilon()))[[0, 0]];
        let w = (p + 2) as f64 + denorm_min / nx / eps;
        if let Err(rt) = within(c, "norm-unit-ratio", (ny - 1.0).abs(), eps * w, C_FLOOR) {
            return fail("C16/norm/not-unit", json!({"case":desc,"row":i,"input_row":x,"output_row":y,"output_norm":ny,"ratio":rt,"cmax":C_FLOOR}));
        }
        for j in 0..p {
            let e = x[j] / nx;
            unit[[i, j]] = eps * w * e.abs();
            if let Err(rt) = within(c, "norm-direction-ratio", (y[j] - e).abs(), unit[[i, j]], C_FLOOR) {
                return fail("C16/norm/direction", json!({"case":desc,"row":i,"col":j,"input_row":x,"got":y[j],"expected":e,"ratio":rt,"cmax":C_FLOOR}));
            }
        }
        evals += 2;
    }
    evals += check_rowwise::<F>(c, "norm", &tf, &b, &yb, &unit, &desc)?;
    if with_meta {
        dataset_checks!(c, "norm", scaler, F, &b, &yb, &unit, &desc)?;
        evals += 1;
    }
    Ok((nonzero_rows, evals))
}

// ------------------------------------------------------------------ whitening

const WHITE: [&str; 3] = ["pca", "zca", "cholesky"];
const WATCHDOG_SECS: u64 = 30;
const MAX_LEAKED: usize = 3;
static LEAKED: AtomicUsize = AtomicUsize::new(0);

/// run `f` on a helper thread; None when it has not returned after `secs` (the thread is leaked)
fn watchdog<T: Send + 'static>(secs: u64, f: impl FnOnce() -> T + Send + 'static) -> Option<Result<T, String>> {
    let (tx, rx) = std::sync::mpsc::channel();
    std::thread::Builder::new()
        .stack_size(16 << 20)
        .spawn(move || {
            let r = guarded(f);
            let _ = tx.send(r);
        })
        .expect("spawn watchdog thread");
    match rx.recv_timeout(std::time::Duration::from_secs(secs)) {
        Ok(r) => Some(r),
        Err(_) => {
            LEAKED.fetch_add(1, Ordering::SeqCst);
            None
        }
    }
}


/// fit `method` on `a`, whiten `a` itself, return max |cov(Y) - I| (None: fit failed / panicked)
fn whiten_deviation<F: linfa::Float>(method: u8, a: &Array2<F>) -> Option<f64> {
    let params = match method {
        0 => Whitener::pca(),
        1 => Whitener::zca(),
        _ => Whitener::cholesky(),
    };
    let y = guarded(|| {
        params
            .fit(&DatasetBase::from(a.view()))
            .ok()
            .map(|f| to64(&f.transform(a.clone())))
    })
    .ok()??;
    if y.dim() != a.dim() || y.iter().any(|v| !v.is_finite()) {
        return None;
    }
    let cov = oracle::covariance(y.view(), 1.0);
    let mut worst = 0.0f64;
    for ((i, j), v) in cov.indexed_iter() {
        let d = (v - if i == j { 1.0 } else { 0.0 }).abs();
        if !(d <= worst) {
            worst = d;
        }
    }
    Some(worst)
}

/// Largest |entry| of cov(Y) - I outside the single 2x2 principal block that holds the largest
/// off-diagonal entry, in the whitener's own principal axes (output axes for PCA, eigenvectors
/// of the symmetric matrix for ZCA).
fn outside_worst_plane(cov: &Array2<f64>, w: &Array2<f64>, method: u8) -> (f64, f64, f64) {
    let p = cov.nrows();
    let mut e = cov.clone();
    for i in 0..p {
        e[[i, i]] -= 1.0;
    }
    if method == 1 && w.nrows() == w.ncols() {
        let sym = (w + &w.t()) * 0.5;
        let (_, basis) = oracle::jacobi_eig(&sym);
        e = basis.t().dot(&e).dot(&basis);
    }
    let mut big = (0usize, 1usize, -1.0f64);
    for i in 0..p {
        for j in 0..p {
            if i != j && e[[i, j]].abs() > big.2 {
                big = (i, j, e[[i, j]].abs());
            }
        }
    }
    let mut rest = 0.0f64;
    for ((i, j), v) in e.indexed_iter() {
        let inside = (i == big.0 || i == big.1) && (j == big.0 || j == big.1);
        if !inside && !(v.abs() <= rest) {
            rest = v.abs();
        }
    }
    // a pure rotation error inside the plane leaves the determinant of the 2x2 block at one
    let (i, j) = (big.0, big.1);
    let det_dev = (e[[i, i]] + e[[j, j]] + e[[i, i]] * e[[j, j]] - e[[i, j]] * e[[j, i]]).abs();
    (rest, det_dev, big.2)
}

enum WhiteVerdict {
    Strict(u64),
    /// rank-deficient / ill-conditioned training data: only the map checks were made
    Loose(u64, String),
    Skip(String),
}

fn check_whiten<F: linfa::Float>(
    c: &mut Case,
    method: u8,
    a64: &Array2<f64>,
    b64: &Array2<f64>,
    la: u8,
    ctor: u8,
    with_meta: bool,
) -> Result<WhiteVerdict, Fail> {
    let eps = eps_of::<F>();
    let (n, p) = a64.dim();
    let desc = json!({"whitener": WHITE[method as usize], "F": fname::<F>(), "n": n, "p": p, "layout": LAYOUTS[la as usize],
                      "A": mat_json(a64), "B": mat_json(b64)});
    // --- how well-posed is whitening of A?  (oracle: accurate centring, Jacobi eigenvalues)
    let st = stats_of(a64);
    let mut strict = n >= p + 1;
    let mut unit_cov = f64::INFINITY;
    if strict {
        let xc = Array2::from_shape_fn((n, p), |(i, j)| st[j].centred(a64[[i, j]]));
        let sigma = xc.t().dot(&xc) / (n as f64 - 1.0);
        let (vals, _) = oracle::jacobi_eig(&sigma);
        let (lmax, lmin) = (vals[0], vals[p - 1]);
        let mmax = st.iter().fold(0.0f64, |a, s| a.max(s.maxabs));
        if !(lmin > 0.0) {
            strict = false;
        } else {
            unit_cov = eps * (p as f64) * (mmax * mmax + lmax) / lmin;
            if !(C_WHITE * unit_cov <= TOL_CAP) {
                strict = false;
            }
        }
    }
    let a: Array2<F> = from64(a64);
    let b: Array2<F> = from64(b64);
    let wm = [WhiteningMethod::Pca, WhiteningMethod::Zca, WhiteningMethod::Cholesky][method as usize].clone();
    let params = if ctor % 2 == 0 {
        match method {
            0 => Whitener::pca(),
            1 => Whitener::zca(),
            _ => Whitener::cholesky(),
        }
    } else {
        Whitener::cholesky().method(wm).clone()
    };
    let al = relayout(&a, la);
    // `fit` runs an SVD without an iteration cap; a watchdog thread keeps a non-returning fit from
    // blocking the run. The wall clock never decides by itself: only for n == 1, where the
    // covariance is 0/0 by the documented formula, is "did not return" reported as a violation
    // (value predicate); any other expiry is inconclusive.
    if n == 1 && LEAKED.load(Ordering::SeqCst) >= MAX_LEAKED {
        return Ok(WhiteVerdict::Skip("watchdog budget: fits on single-row data already failed to return; not starting another".into()));
    }
    let fit_in = al.clone();
    let fit_params = params.clone();
    let fit_with_targets = with_meta && c.rng.gen_bool(0.5);
    let fitted = match watchdog(WATCHDOG_SECS, move || {
        if fit_with_targets {
            let tar = Array2::from_shape_fn((fit_in.nrows(), 2), |(i, k)| (i + k) as f64);
            let ds = DatasetBase::new(fit_in.view(), tar).with_weights(Array1::from_shape_fn(fit_in.nrows(), |i| 0.5 + i as f32));
            fit_params.fit(&ds)
        } else {
            fit_params.fit(&DatasetBase::from(fit_in.view()))
        }
    }) {
        None => {
            if n == 1 {
                return fail("C16/whiten/single-row-fit-does-not-return",
                    json!({"case":desc,"waited_s":WATCHDOG_SECS,"note":"covariance divides by n-1 = 0; the SVD of the NaN matrix has no iteration cap"}));
            }
            return Ok(WhiteVerdict::Skip(format!("watchdog: fit did not return within {WATCHDOG_SECS} s")));
        }
        Some(Err(pn)) => return fail("C16/whiten/panic", json!({"case":desc,"op":"fit","panic":pn})),
        Some(Ok(Err(e))) => {
            if strict {
                return fail("C16/whiten/fit-error-full-rank", json!({"case":desc,"error":e.to_string(),"tolerance":C_WHITE*unit_cov}));
            }
            return Ok(WhiteVerdict::Skip(format!("fit error on rank-deficient / ill-conditioned data: {e}")));
        }
        Some(Ok(Ok(f))) => f,
    };
    let before = fitted.clone();
    let w = to64(&fitted.transformation_matrix().to_owned());
    let mean: Vec<f64> = fitted.mean().iter().map(|v| v.to_f64().unwrap()).collect();
    if w.ncols() != p || mean.len() != p {
        return fail("C16/whiten/accessor-shape", json!({"case":desc,"matrix":[w.nrows(),w.ncols()],"mean":mean.len()}));
    }
    if w.iter().chain(mean.iter()).any(|v| !v.is_finite()) {
        if strict {
            return fail("C16/whiten/non-finite-matrix", json!({"case":desc}));
        }
        return Ok(WhiteVerdict::Skip("non-finite whitening matrix on rank-deficient / ill-conditioned data".into()));
    }
    let q = w.nrows();
    if strict && q != p {
        return fail("C16/whiten/output-shape", json!({"case":desc,"matrix":[w.nrows(),w.ncols()]}));
    }
    let tf = |x: Array2<F>| fitted.transform(x);
    let ya = match guarded(|| tf(al.clone())) {
        Ok(y) => to64(&y),
        Err(pn) => return fail("C16/whiten/panic", json!({"case":desc,"op":"transform(A)","panic":pn})),
    };
    let yb = match guarded(|| tf(b.clone())) {
        Ok(y) => to64(&y),
        Err(pn) => return fail("C16/whiten/panic", json!({"case":desc,"op":"transform(B)","panic":pn})),
    };
    if ya.dim() != (n, q) || yb.dim() != (b64.nrows(), q) {
        return fail("C16/whiten/output-shape", json!({"case":desc,"ya":[ya.nrows(),ya.ncols()],"yb":[yb.nrows(),yb.ncols()],"q":q}));
    }
    let mut evals = 0u64;
    // --- affine map read off the accessors
    let mut unit_b = Array2::<f64>::zeros((b64.nrows(), q));
    for (x64, y, is_b) in [(a64, &ya, false), (b64, &yb, true)] {
        for i in 0..x64.nrows() {
            for j in 0..q {
                let mut e = 0.0;
                let mut sabs = 0.0;
                for k in 0..p {
                    let t = (x64[[i, k]] - mean[k]) * w[[j, k]];
                    e += t;
                    sabs += t.abs();
                }
                let unit = eps * (p as f64 + 2.0) * sabs;
                if is_b {
                    unit_b[[i, j]] = unit;
                }
                if let Err(rt) = within(c, "whiten-accessor-ratio", (y[[i, j]] - e).abs(), unit, C_FLOOR) {
                    return fail("C16/whiten/accessor-map",
                        json!({"case":desc,"on": if is_b {"unseen"} else {"training"},"row":i,"col":j,"got":y[[i,j]],"expected":e,"ratio":rt,"cmax":C_FLOOR}));
                }
                evals += 1;
            }
        }
    }
    // --- identity sample covariance on full-rank data
    if strict {
        let cov = oracle::covariance(ya.view(), 1.0);
        let mut worst = 0.0f64;
        let mut at = (0, 0);
        for ((i, j), v) in cov.indexed_iter() {
            let d = (v - if i == j { 1.0 } else { 0.0 }).abs();
            if !(d <= worst) {
                worst = d;
                at = (i, j);
            }
        }
        let mut res_name = format!("whiten-cov-ratio-{}", WHITE[method as usize]);
        let r_now = ratio(worst, unit_cov);
        if method != 2 && p >= 3 && r_now > 16.0 && r_now <= C_WHITE {
            // a small instance of the known SVD plane glitch that stays below the threshold:
            // keep it out of the clean-residual statistic
            let rest = ratio(outside_worst_plane(&cov, &w, method).0, unit_cov);
            if rest <= (r_now / 16.0).max(4.0) {
                res_name.push_str("-plane-glitch-below-threshold");
                c.count("whiten-plane-glitch-below-threshold");
            }
        }
        if let Err(rt) = within(c, &res_name, worst, unit_cov, C_WHITE) {
            // Discriminating predicates for the known numerical glitch of the external SVD
            // (linfa-linalg) behind the PCA and ZCA whiteners: the computed singular vectors are
            // rotated inside ONE plane spanned by two singular directions, everything else is
            // accurate. The failure carries the narrow signature iff
            //  (i)  the Cholesky whitener (no SVD) reaches identity covariance on the same data, and
            //  (ii) expressed in the whitener's own principal axes (the output axes for PCA, the
            //       eigenvectors of the symmetric ZCA matrix), cov(Y) - I vanishes within the
            //       ordinary tolerance outside a single 2x2 principal block (needs p >= 3), and
            // A wrong scale factor, a missing centring / transpose, a wrong clamp ... spread over
            // all p axes (or break the Cholesky route too) and keep the general signature.
            let mut sig = "C16/whiten/covariance-not-identity";
            let mut chol_dev = None;
            let mut perm_devs: Vec<Option<f64>> = vec![];
            let mut leftover = None;
            let mut block_det = None;
            let mut block_off = None;
            if method != 2 && p >= 3 {
                chol_dev = whiten_deviation::<F>(2, &a);
                let passes = |d: &Option<f64>| d.map_or(false, |d| ratio(d, unit_cov) <= C_WHITE);
                for _ in 0..4 {
                    let mut perm = gen::permutation(&mut c.rng, n);
                    if perm.iter().enumerate().all(|(i, v)| i == *v) {
                        perm.rotate_left(1);
                    }
                    perm_devs.push(whiten_deviation::<F>(method, &select_rows(&a, &perm)));
                }
                let (rest, det_dev, off) = outside_worst_plane(&cov, &w, method);
                block_det = Some(det_dev);
                block_off = Some(off);
                leftover = Some(rest);
                // (iii) the off-diagonal entry of that block is itself above the tolerance: the two
                //       directions are rotated against each other, not merely rescaled. (The
                //       determinant of the block was tried as a further invariant and dropped: the
                //       computed singular values are perturbed as well, det - 1 ranged from
                //       0.001 to 130 times the squared off-diagonal entry over 40 instances.)
                if passes(&chol_dev) && ratio(rest, unit_cov) <= C_WHITE && ratio(off, unit_cov) > C_WHITE {
                    sig = "C16/whiten/identity-missed-in-one-singular-plane-only";
                }
            }
            if std::env::var("VERIF_TRACE").is_ok() {
                eprintln!("TRACE covfail idx={} {} p={p} n={n} sig={sig} dev={worst:e} tol={:e} chol={chol_dev:?} left={leftover:?} det={block_det:?} off={block_off:?} perms={perm_devs:?}", c.idx, WHITE[method as usize], C_WHITE * unit_cov);
            }
            return fail(sig,
                json!({"case":desc,"entry":[at.0,at.1],"deviation":worst,"ratio":rt,"cmax":C_WHITE,"tolerance":C_WHITE*unit_cov,
                       "cholesky_whitener_deviation_same_data":chol_dev,"deviation_outside_the_worst_plane":leftover,"det_deviation_of_the_plane_block":block_det,"off_diagonal_of_the_plane_block":block_off,
                       "same_whitener_deviation_on_row_permuted_copies":perm_devs}));
        }
        evals += 1;
    }
    evals += check_rowwise::<F>(c, "whiten", &tf, &b, &yb, &unit_b, &desc)?;
    if fitted != before {
        return fail("C16/rowwise/state-changed", json!({"case":desc}));
    }
    if with_meta && q == p {
        dataset_checks!(c, "whiten", fitted, F, &b, &yb, &unit_b, &desc)?;
        evals += 1;
    }
    if strict {
        Ok(WhiteVerdict::Strict(evals))
    } else {
        Ok(WhiteVerdict::Loose(evals, if n < p + 1 { "n <= p".into() } else { "singular or ill-conditioned covariance".into() }))
    }
}

// ------------------------------------------------------------------ workload

fn quantize<F: linfa::Float>(a: &Array2<f64>) -> Array2<f64> {
    to64(&from64::<F>(a))
}

/// hostile record matrix for the column scalers
fn gen_columns(rng: &mut Rng, n: usize, p: usize, eps: f64) -> (Array2<f64>, Vec<&'static str>) {
    let kmax = 1e-4 / eps; // offset / spread ratios up to here keep 4 digits of the spread
    let mut a = Array2::<f64>::zeros((n, p));
    let mut kinds = vec![];
    for j in 0..p {
        let r: f64 = rng.gen();
        let kind = if r < 0.33 {
            let s = gen::log_uniform(rng, 1e-6, 1e6);
            let o = match rng.gen_range(0..4) {
                0 | 1 => 0.0,
                2 => gen::uniform(rng, -3.0, 3.0) * s,
                _ => {
                    let o = s * gen::log_uniform(rng, 1.0, kmax);
                    let o = o.min(1e9);
                    if rng.gen_bool(0.5) {
                        o
                    } else {
                        -o
                    }
                }
            };
            for i in 0..n {
                a[[i, j]] = o + s * gen::normal(rng);
            }
            "normal"
        } else if r < 0.47 {
            for i in 0..n {
                a[[i, j]] = rng.gen_range(-2..=3) as f64;
            }
            "small-int"
        } else if r < 0.60 {
            let v = *gen::pick(rng, &[0.0, 0.0, 0.0, 1.0, -3.5, 0.1, 1e6, -1e-6, 123456.789, -0.0]);
            for i in 0..n {
                a[[i, j]] = v;
            }
            if v == 0.0 {
                "zero"
            } else {
                "constant"
            }
        } else if r < 0.70 {
            // spread below the scalers' absolute "constant" guard (|spread| <= eps_F)
            let t = eps * gen::log_uniform(rng, 1e-6, 0.4);
            for i in 0..n {
                a[[i, j]] = t * rng.gen_range(-2..=2) as f64 / 2.0;
            }
            "guard"
        } else if r < 0.80 {
            let s = gen::log_uniform(rng, 1e-6, 1e6);
            let (v1, v2) = (s * gen::normal(rng), s * gen::normal(rng));
            for i in 0..n {
                a[[i, j]] = if rng.gen_bool(0.5) { v1 } else { v2 };
            }
            "two-valued"
        } else if r < 0.90 {
            let base: f64 = *gen::pick(rng, &[1e6, -1e6, 1e3, -1e3]);
            let wmin = (base.abs() * eps * 1e4).max(1e-3);
            let w = gen::log_uniform(rng, wmin, wmin * 1e6);
            for i in 0..n {
                a[[i, j]] = base + gen::uniform(rng, 0.0, w);
            }
            "offset-uniform"
        } else {
            let s = gen::log_uniform(rng, 1e-3, 1e3);
            for i in 0..n {
                a[[i, j]] = s * gen::normal(rng);
            }
            let i = rng.gen_range(0..n);
            a[[i, j]] = s * 1e4 * if rng.gen_bool(0.5) { 1.0 } else { -1.0 };
            "outlier"
        };
        kinds.push(kind);
    }
    // rows: zero rows, duplicates, all rows equal
    if n >= 2 && rng.gen_bool(0.2) {
        let i = rng.gen_range(0..n);
        a.row_mut(i).fill(0.0);
    }
    if n >= 2 && rng.gen_bool(0.25) {
        let (i, k) = (rng.gen_range(0..n), rng.gen_range(0..n));
        let r = a.row(i).to_owned();
        a.row_mut(k).assign(&r);
    }
    if n >= 2 && rng.gen_bool(0.04) {
        let r = a.row(0).to_owned();
        for i in 1..n {
            a.row_mut(i).assign(&r);
        }
    }
    (a, kinds)
}

/// unseen rows: training rows, perturbed training rows, zero rows, far-away rows
fn gen_unseen(rng: &mut Rng, a: &Array2<f64>, nb: usize) -> Array2<f64> {
    let (n, p) = a.dim();
    let st = stats_of(a);
    let mut b = Array2::<f64>::zeros((nb, p));
    for i in 0..nb {
        let r: f64 = rng.gen();
        let src = rng.gen_range(0..n);
        for j in 0..p {
            let scale = if st[j].sd > 0.0 {
                st[j].sd
            } else if st[j].maxabs > 0.0 {
                st[j].maxabs
            } else {
                1.0
            };
            b[[i, j]] = if r < 0.3 {
                a[[src, j]]
            } else if r < 0.65 {
                a[[src, j]] + scale * gen::normal(rng)
            } else if r < 0.75 {
                0.0
            } else if r < 0.9 {
                st[j].mean + scale * 100.0 * gen::normal(rng)
            } else {
                gen::normal(rng) * gen::log_uniform(rng, 1e-3, 1e3)
            };
        }
    }
    b
}

fn pick_n(rng: &mut Rng, nmax: usize) -> usize {
    match rng.gen_range(0..10) {
        0 => 1,
        1 => 2,
        2 | 3 => rng.gen_range(2..=5),
        4..=7 => rng.gen_range(3..=nmax.min(30)),
        _ => rng.gen_range(3..=nmax),
    }
}

fn gen_range_pair(rng: &mut Rng) -> (f64, f64) {
    match rng.gen_range(0..8) {
        0 => (0.0, 1.0),
        1 => (-1.0, 1.0),
        2 => (5.0, 10.0),
        3 => {
            let a = gen::uniform(rng, -10.0, 10.0);
            (a, a) // degenerate range: both ends coincide
        }
        4 => (1e6, 1e6 + 1.0),
        5 => (-1e-3, 1e3),
        _ => {
            let a = gen::normal(rng) * gen::log_uniform(rng, 1e-3, 1e3);
            let w = gen::log_uniform(rng, 1e-3, 1e3);
            (a, a + w)
        }
    }
}

/// rows for the norm scaler
fn gen_rows(rng: &mut Rng, n: usize, p: usize, f32mode: bool) -> Array2<f64> {
    let (lo, hi) = if f32mode { (1e-15, 1e15) } else { (1e-140, 1e140) };
    let mut b = Array2::<f64>::zeros((n, p));
    for i in 0..n {
        let r: f64 = rng.gen();
        let s = if rng.gen_bool(0.5) {
            gen::log_uniform(rng, 1e-3, 1e3)
        } else {
            gen::log_uniform(rng, lo * 1e3, hi * 1e-3)
        };
        for j in 0..p {
            b[[i, j]] = if r < 0.15 {
                if rng.gen_bool(0.3) {
                    -0.0
                } else {
                    0.0
                }
            } else if r < 0.3 {
                rng.gen_range(-2..=2) as f64 * s
            } else if r < 0.4 {
                0.0
            } else if r < 0.7 {
                if rng.gen_bool(0.4) {
                    0.0
                } else {
                    s * gen::normal(rng)
                }
            } else if r < 0.8 {
                // mixed magnitudes inside one row
                s * gen::normal(rng) * gen::log_uniform(rng, 1e-6, 1e6)
            } else {
                s * gen::normal(rng)
            };
        }
        if (0.3..0.4).contains(&r) {
            // exactly one non-zero entry
            let j = rng.gen_range(0..p);
            b[[i, j]] = s * if rng.gen_bool(0.5) { 1.0 } else { -1.0 };
        }
    }
    b.mapv_inplace(|v| if v != 0.0 && (v.abs() < lo || v.abs() > hi) { 0.0 } else { v });
    // finite, non-zero rows at the very bottom of the element type's range (subnormal norms)
    if std::env::var("C16_NO_TINY").is_err() && rng.gen_range(0..4) == 0 {
        let i = rng.gen_range(0..n);
        // ... or near the top of it (their squares overflow)
        // ... at the magnitudes where squares start to under- or overflow (sqrt of the smallest / largest float)
        let tiny = if f32mode {
            *gen::pick(rng, &[1e-42, 1e36, 1.5e19, 4e18, 1e-19, 3e-23])
        } else {
            *gen::pick(rng, &[1e-310, 1e305, 1.2e154, 3e153, 1e-154, 2e-162])
        };
        for j in 0..p {
            b[[i, j]] = tiny * rng.gen_range(-4..=4) as f64;
        }
        if b.row(i).iter().all(|v| *v == 0.0) {
            b[[i, 0]] = 3.0 * tiny;
        }
    }
    if n >= 2 && rng.gen_bool(0.3) {
        let (i, k) = (rng.gen_range(0..n), rng.gen_range(0..n));
        let r = b.row(i).to_owned();
        b.row_mut(k).assign(&r);
    }
    b
}

/// training matrix for whitening; `degenerate` = some rank-deficiency was injected on purpose
fn gen_whiten(rng: &mut Rng, nmax: usize, pmax: usize, f32mode: bool) -> (Array2<f64>, &'static str) {
    let p = rng.gen_range(1..=pmax);
    let deg = match rng.gen_range(0..10) {
        0 => "few-rows",
        1 => *gen::pick(rng, &["dup-column", "constant-column", "zero-column", "dup-rows"]),
        _ => "none",
    };
    let n = if deg == "few-rows" {
        rng.gen_range(1..=p)
    } else {
        match rng.gen_range(0..4) {
            0 => p + 1 + rng.gen_range(0..3),
            1 | 2 => rng.gen_range(p + 1..=(p + 1).max(nmax.min(40))),
            _ => rng.gen_range(p + 1..=(p + 1).max(nmax)),
        }
    };
    let z = match rng.gen_range(0..4) {
        0 => gen::uniform_matrix(rng, n, p, -1.0, 1.0),
        1 => Array2::from_shape_fn((n, p), |_| rng.gen_range(-3..=3) as f64),
        _ => gen::normal_matrix(rng, n, p),
    };
    let g = if f32mode { *gen::pick(rng, &[0.0, 0.15, 0.3]) } else { *gen::pick(rng, &[0.0, 0.3, 1.0]) };
    let mix = Array2::from_shape_fn((p, p), |(i, j)| (if i == j { 1.0 } else { 0.0 }) + g * gen::normal(rng));
    let mut a = z.dot(&mix);
    let global = gen::log_uniform(rng, 1e-3, 1e3);
    for j in 0..p {
        let s = global * if f32mode { gen::log_uniform(rng, 0.6, 1.6) } else { gen::log_uniform(rng, 0.03, 30.0) };
        let o = if rng.gen_bool(0.5) {
            0.0
        } else {
            s * gen::log_uniform(rng, 0.1, if f32mode { 3.0 } else { 300.0 }) * if rng.gen_bool(0.5) { 1.0 } else { -1.0 }
        };
        a.column_mut(j).mapv_inplace(|v| v * s + o);
    }
    match deg {
        "dup-column" if p >= 2 => {
            let col = a.column(0).to_owned();
            a.column_mut(p - 1).assign(&col);
        }
        "constant-column" => {
            let j = rng.gen_range(0..p);
            a.column_mut(j).fill(2.5);
        }
        "zero-column" => {
            let j = rng.gen_range(0..p);
            a.column_mut(j).fill(0.0);
        }
        "dup-rows" => {
            let r = a.row(0).to_owned();
            for i in 1..n {
                if rng.gen_bool(0.7) {
                    a.row_mut(i).assign(&r);
                }
            }
        }
        _ => {}
    }
    (a, deg)
}

// ------------------------------------------------------------------ small-scope enumeration

const ALPHABET: [f64; 4] = [-1.0, 0.0, 1.0, 2.0];
const ENUM_SHAPES: [(usize, usize); 6] = [(1, 1), (2, 1), (3, 1), (1, 2), (2, 2), (3, 2)];

fn enum_total() -> u64 {
    ENUM_SHAPES.iter().map(|(n, p)| 4u64.pow((n * p) as u32)).sum()
}
fn enum_decode(mut idx: u64) -> Array2<f64> {
    for (n, p) in ENUM_SHAPES {
        let cnt = 4u64.pow((n * p) as u32);
        if idx < cnt {
            let mut a = Array2::<f64>::zeros((n, p));
            for v in a.iter_mut() {
                *v = ALPHABET[(idx % 4) as usize];
                idx /= 4;
            }
            return a;
        }
        idx -= cnt;
    }
    unreachable!("enum index out of range")
}

fn all_lin_kinds() -> Vec<LinKind> {
    vec![
        LinKind::Standard(true, true),
        LinKind::Standard(false, true),
        LinKind::Standard(true, false),
        LinKind::Standard(false, false),
        LinKind::MinMax(0.0, 1.0),
        LinKind::MinMax(-2.0, 3.0),
        LinKind::MinMax(1.5, 1.5),
        LinKind::MaxAbs,
    ]
}

fn enum_case<F: linfa::Float>(c: &mut Case, a: &Array2<f64>) -> Result<(u64, u64), Fail> {
    let p = a.ncols();
    // unseen rows: the training rows plus fixed probes
    let probes = [[0.0, 0.0], [1.0, -1.0], [3.0, 0.5], [-4.0, 2.0]];
    let nb = a.nrows() + probes.len();
    let b = Array2::from_shape_fn((nb, p), |(i, j)| if i < a.nrows() { a[[i, j]] } else { probes[i - a.nrows()][j] });
    let mut strict = 0u64;
    let mut evals = 0u64;
    for kind in all_lin_kinds() {
        let r = check_linear::<F>(c, kind, a, &b, 0, 0, false)?;
        strict += r.strict_cols;
        evals += r.evals;
    }
    for k in 0..3u8 {
        let (nz, ev) = check_norm::<F>(c, k, &b, false)?;
        strict += nz;
        evals += ev;
    }
    for m in 0..3u8 {
        match check_whiten::<F>(c, m, a, &b, 0, 0, false)? {
            WhiteVerdict::Strict(ev) => {
                strict += 1;
                evals += ev;
                c.count("enum-whiten-strict");
            }
            WhiteVerdict::Loose(ev, _) => {
                evals += ev;
                c.count("enum-whiten-rank-deficient");
            }
            WhiteVerdict::Skip(_) => c.count("enum-whiten-rank-deficient"),
        }
    }
    Ok((strict, evals))
}

// ------------------------------------------------------------------ empty training data

fn empty_fit_case<F: linfa::Float>(fitter: usize, p: usize, la: u8, with_targets: bool) -> Result<(), Fail> {
    let a = relayout(&Array2::<F>::zeros((0, p)), la);
    let desc = json!({"fitter": fitter, "F": fname::<F>(), "p": p, "layout": LAYOUTS[la as usize], "targets": with_targets});
    // true = Err returned (wanted), false = accepted
    let r: Result<bool, String> = guarded(|| {
        macro_rules! go {
            ($params:expr) => {{
                let prm = $params;
                if with_targets {
                    let ds = DatasetBase::new(a.clone(), Array1::<usize>::zeros(0));
                    prm.fit(&ds).is_err()
                } else {
                    let ds = DatasetBase::from(a.view());
                    prm.fit(&ds).is_err()
                }
            }};
        }
        let kinds = all_lin_kinds();
        if fitter < kinds.len() {
            go!(lin_params::<F>(kinds[fitter], fitter as u8))
        } else {
            match fitter - kinds.len() {
                0 => go!(Whitener::pca()),
                1 => go!(Whitener::zca()),
                _ => go!(Whitener::cholesky()),
            }
        }
    });
    match r {
        Err(pn) => fail("C16/empty-fit/panic", json!({"case":desc,"panic":pn})),
        Ok(true) => Ok(()),
        Ok(false) => fail("C16/empty-fit/accepted", json!({"case":desc})),
    }
}

// ------------------------------------------------------------------ entry point

pub fn run(ctx: &Ctx) {
    ctx.set_rule(
        "one case = one (scaler variant, element type, training matrix A, unseen matrix B, memory layout). \
         A has hostile columns (offset up to 1e9 with spread down to 1e-6, small integers with ties, exactly constant, \
         all-zero, spread below the scalers' absolute constant-guard, two-valued, outliers), zero and duplicated rows, n from 1, \
         p from 1. Non-trivial: A has >= 2 distinct rows and at least one column (row for the norm scaler; the covariance for \
         whitening) was judged strictly, i.e. outside the guard / ill-conditioned classes. Distinct by variant, type, shape, \
         layout and a hash of A.",
    );
    ctx.assume("column statistics recomputed in f64 with a corrected two-pass scheme are exact to ~1 ulp(f64) relative to max|x|");
    ctx.assume("columns whose spread (sd, max-min, max|x|) is positive but <= 2*eps_F are an ambiguity class: the scalers' documented absolute guard (abs_diff_eq with the default epsilon) may treat them as constant; either outcome (scaled / only shifted) is accepted and counted as guard-class-column");
    ctx.assume("norm-scaler rows keep non-zero |x| in [1e-15,1e15] (f32) / [1e-140,1e140] (f64) so that squares neither under- nor overflow; outside that range the naive norm under/overflows (observed: [1e-23,1e-23] f32 -> inf) and the case is out of the generated domain");
    ctx.assume("whitening postcondition is judged only when n >= p+1 and 1024*eps_F*p*(max|x|^2+lambda_max)/lambda_min <= 0.02; otherwise only the affine-map / row-wise / pass-through checks are made (held, trivial) or, when fit errs or returns a non-finite matrix, the case is inconclusive");
    ctx.assume("a statistics check whose tolerance C*eps_F*sqrt(n)*kappa would exceed 0.02 is skipped and counted as ill-conditioned-column-skipped");
    ctx.assume("Whitener::fit runs on a watchdog thread (30 s; normal run time < 1 ms). Expiry alone never decides: it is a violation only for n = 1, where the documented covariance is 0/0 (value predicate), otherwise inconclusive");
    ctx.extra(
        "tolerances",
        json!({"C_FLOOR": C_FLOOR, "C_STAT": C_STAT, "C_WHITE": C_WHITE, "TOL_CAP": TOL_CAP,
               "note": "largest_residuals are ratios residual / (eps_F * S); a check fails when its ratio exceeds the constant of its class"}),
    );

    let t = ctx.tier;
    // development aid: C16_ONLY=<family> restricts the run to one family
    let only = std::env::var("C16_ONLY").ok();
    let want = |f: &str| only.as_deref().map_or(true, |o| o == f);
    let nmax = t.pick(60, 300);
    let pmax = t.pick(6, 10);

    // ---- linear scalers ------------------------------------------------------------------
    for (family, which) in [("standard", 0u8), ("minmax", 1u8), ("maxabs", 2u8)] {
        let cases = match which {
            0 => t.pick(1600, 100000),
            1 => t.pick(1000, 60000),
            _ => t.pick(600, 30000),
        };
        if !want(family) {
            continue;
        }
        ctx.family(family, cases, move |c: &mut Case| -> Outcome {
            let f32mode = c.idx % 2 == 1;
            let eps = if f32mode { f32::EPSILON as f64 } else { f64::EPSILON };
            let n = pick_n(&mut c.rng, nmax);
            let p = c.rng.gen_range(1..=pmax);
            let (a, kinds) = gen_columns(&mut c.rng, n, p, eps);
            let a = if f32mode { quantize::<f32>(&a) } else { a };
            let nb = c.rng.gen_range(1..=10);
            let b = gen_unseen(&mut c.rng, &a, nb);
            let b = if f32mode { quantize::<f32>(&b) } else { b };
            let kind = match which {
                0 => {
                    let v = (c.idx / 2) % 4;
                    LinKind::Standard(v & 1 == 0, v & 2 == 0)
                }
                1 => {
                    let (ra, rb) = gen_range_pair(&mut c.rng);
                    if f32mode {
                        LinKind::MinMax(ra as f32 as f64, rb as f32 as f64)
                    } else {
                        LinKind::MinMax(ra, rb)
                    }
                }
                _ => LinKind::MaxAbs,
            };
            let la = c.rng.gen_range(0..5u8);
            let ctor = c.rng.gen_range(0..3u8);
            c.note("scaler", json!(kind.name()));
            c.note("F", json!(if f32mode { "f32" } else { "f64" }));
            c.note("n", json!(n));
            c.note("p", json!(p));
            c.note("columns", json!(kinds));
            c.note("layout", json!(LAYOUTS[la as usize]));
            let rep = if f32mode {
                tri!(check_linear::<f32>(c, kind, &a, &b, la, ctor, true))
            } else {
                tri!(check_linear::<f64>(c, kind, &a, &b, la, ctor, true))
            };
            c.evals = rep.evals;
            c.note("strict_columns", json!(rep.strict_cols));
            held(
                rep.strict_cols > 0,
                format!("{} {} n={n} p={p} la={la} h={:08x}", kind.name(), if f32mode { "f32" } else { "f64" }, small_hash(&a)),
            )
        });
    }

    // ---- norm scaler -----------------------------------------------------------------------
    if want("norm") {
    ctx.family("norm", t.pick(1500, 80000), move |c: &mut Case| -> Outcome {
        let f32mode = c.idx % 2 == 1;
        let kind = ((c.idx / 2) % 3) as u8;
        let n = c.rng.gen_range(1..=t.pick(12, 40));
        let p = c.rng.gen_range(1..=pmax);
        let b = gen_rows(&mut c.rng, n, p, f32mode);
        let b = if f32mode { quantize::<f32>(&b) } else { b };
        c.note("scaler", json!(format!("norm-{}", NORMS[kind as usize])));
        c.note("F", json!(if f32mode { "f32" } else { "f64" }));
        c.note("n", json!(n));
        c.note("p", json!(p));
        let (nz, ev) = if f32mode {
            tri!(check_norm::<f32>(c, kind, &b, true))
        } else {
            tri!(check_norm::<f64>(c, kind, &b, true))
        };
        c.evals = ev;
        c.note("nonzero_rows", json!(nz));
        held(nz > 0, format!("norm-{} {} n={n} p={p} h={:08x}", NORMS[kind as usize], if f32mode { "f32" } else { "f64" }, small_hash(&b)))
    });
    }

    // ---- whitening -------------------------------------------------------------------------
    if want("whiten") {
    ctx.family("whiten", t.pick(1200, 60000), move |c: &mut Case| -> Outcome {
        let f32mode = c.idx % 2 == 1;
        let method = ((c.idx / 2) % 3) as u8;
        let (a, deg) = gen_whiten(&mut c.rng, t.pick(60, 300), t.pick(5, 8), f32mode);
        let a = if f32mode { quantize::<f32>(&a) } else { a };
        let (n, p) = a.dim();
        let nb = c.rng.gen_range(1..=8);
        let b = gen_unseen(&mut c.rng, &a, nb);
        let b = if f32mode { quantize::<f32>(&b) } else { b };
        let la = c.rng.gen_range(0..5u8);
        let ctor = c.rng.gen_range(0..2u8);
        if std::env::var("VERIF_TRACE").is_ok() {
            eprintln!("whiten idx={} method={} f32={} n={} p={} deg={} A={}", c.idx, method, f32mode, a.nrows(), a.ncols(), deg, mat_json(&a));
        }
        c.note("whitener", json!(WHITE[method as usize]));
        c.note("F", json!(if f32mode { "f32" } else { "f64" }));
        c.note("n", json!(n));
        c.note("p", json!(p));
        c.note("degenerate", json!(deg));
        c.note("layout", json!(LAYOUTS[la as usize]));
        let v = if f32mode {
            tri!(check_whiten::<f32>(c, method, &a, &b, la, ctor, true))
        } else {
            tri!(check_whiten::<f64>(c, method, &a, &b, la, ctor, true))
        };
        let key = format!("{} {} n={n} p={p} la={la} h={:08x}", WHITE[method as usize], if f32mode { "f32" } else { "f64" }, small_hash(&a));
        match v {
            WhiteVerdict::Strict(ev) => {
                c.evals = ev;
                c.count(if f32mode { "whiten-covariance-judged-f32" } else { "whiten-covariance-judged-f64" });
                held(true, key)
            }
            WhiteVerdict::Loose(ev, why) => {
                c.evals = ev;
                c.count("whiten-map-only");
                c.note("covariance_not_judged", json!(why));
                held(false, key)
            }
            WhiteVerdict::Skip(why) => inconclusive(why),
        }
    });
    }

    // ---- complete small scope --------------------------------------------------------------
    let total = enum_total();
    if want("enum-small") {
    ctx.family("enum-small", total, move |c: &mut Case| -> Outcome {
        let a = enum_decode(c.idx);
        c.note("A", mat_json(&a));
        let (mut strict, mut evals) = tri!(enum_case::<f64>(c, &a));
        let (s2, e2) = tri!(enum_case::<f32>(c, &a));
        strict += s2;
        evals += e2;
        c.evals = evals;
        held(strict > 0 && distinct_rows(&a), format!("enum {:?} {:?}", a.dim(), a.iter().collect::<Vec<_>>()))
    });
    ctx.set_exhaustive(
        "all matrices with n<=3, p<=2 over {-1,0,1,2} x {4 standard variants, 3 min-max ranges, max-abs, 3 norms, 3 whiteners} x {f32,f64}",
        ctx.replay.is_none(),
    );
    }

    // ---- empty training data ---------------------------------------------------------------
    let nfit = all_lin_kinds().len() + 3;
    let ps = [0usize, 1, 2, 5];
    let total_empty = (nfit * ps.len() * 2 * 2 * 2) as u64;
    if want("empty-fit") {
    ctx.family("empty-fit", total_empty, move |c: &mut Case| -> Outcome {
        let mut i = c.idx as usize;
        let fitter = i % nfit;
        i /= nfit;
        let p = ps[i % ps.len()];
        i /= ps.len();
        let la = (i % 2) as u8;
        i /= 2;
        let with_targets = i % 2 == 1;
        i /= 2;
        let f32mode = i % 2 == 1;
        c.note("fitter", json!(fitter));
        c.note("p", json!(p));
        if f32mode {
            tri!(empty_fit_case::<f32>(fitter, p, la, with_targets));
        } else {
            tri!(empty_fit_case::<f64>(fitter, p, la, with_targets));
        }
        held(true, format!("empty fitter={fitter} p={p} la={la} t={with_targets} f32={f32mode}"))
    });
    ctx.set_exhaustive("empty training data: 11 fitters x p in {0,1,2,5} x {c,f} layout x {with,without targets} x {f32,f64}", ctx.replay.is_none());
    }
    // Miri lane (thorough): the scalers and whiteners through the lapack-bound transmute path
    miri_lane(ctx, "c16", 1);
}
