//! C06 — kernel matrices hold the kernel function; hierarchical clustering partitions.
//!
//! Kernel half: the harness's own kernel function (written from the definitions
//! `<x,y>`, `exp(-|x-y|^2/eps)`, `(<x,y>+c)^deg`, evaluated in f64 on the exact values of the
//! records) is compared cell by cell with what `Kernel::column` reports; the sparse pattern is
//! judged against exact k-nearest-neighbour sets (with a tie class); every accessor is compared
//! with the matrix rebuilt from `column`.
//!
//! Hierarchical half: dissimilarity d = -ln(max(s, 1e-6)) of the *reported* upper triangle;
//! three independent judges: (1) union-find components of {d < t} for single linkage,
//! (2) a naive O(n^3) Lance-Williams agglomeration written here (all seven linkages) wherever
//! the merge order is free of (near-)ties, (3) the cut of the dendrogram obtained by calling
//! `kodama` directly (checks linfa's replay / stop arithmetic, trusts kodama).
use crate::fw::*;
use crate::gen;
use crate::oracle;
use linfa::dataset::{DatasetBase, Records};
use linfa::traits::Transformer;
use linfa::Float;
use linfa_hierarchical::{HierarchicalCluster, Method};
use linfa_kernel::{Inner, Kernel, KernelBase, KernelInner, KernelMethod, KernelType};
use linfa_nn::CommonNearestNeighbour as Nn;
use ndarray::{s, Array1, Array2, ArrayView2};
use rand::Rng as _;
use serde_json::{json, Value};

type R<T> = Result<T, Outcome>;

// ---------------------------------------------------------------- watchdog
// kodama does not terminate on some NaN inputs; a linfa that lets NaN through (e.g. a lost
// similarity floor) would hang a worker for ever. The watchdog never decides a verdict: when a
// call into linfa-hierarchical has not returned after WATCHDOG_SECS it reports what was judged so
// far and ends the run as inconclusive (exit 3) unless violations were already recorded (exit 1).
const WATCHDOG_SECS: u64 = 180;

struct Slot {
    since: std::sync::atomic::AtomicU64, // ms since process start + 1, 0 = idle
    idx: std::sync::atomic::AtomicU64,
}
static SLOTS: std::sync::Mutex<Vec<std::sync::Arc<Slot>>> = std::sync::Mutex::new(Vec::new());
thread_local! {
    static MY_SLOT: std::sync::Arc<Slot> = {
        let s = std::sync::Arc::new(Slot { since: 0.into(), idx: 0.into() });
        SLOTS.lock().unwrap().push(s.clone());
        s
    };
}
fn clock_ms() -> u64 {
    static T0: std::sync::OnceLock<std::time::Instant> = std::sync::OnceLock::new();
    T0.get_or_init(std::time::Instant::now).elapsed().as_millis() as u64 + 1
}
/// run a call into linfa-hierarchical under the watchdog
fn watched<T>(idx: u64, g: impl FnOnce() -> T) -> T {
    use std::sync::atomic::Ordering::SeqCst;
    MY_SLOT.with(|s| {
        s.idx.store(idx, SeqCst);
        s.since.store(clock_ms(), SeqCst);
    });
    struct Clear;
    impl Drop for Clear {
        fn drop(&mut self) {
            MY_SLOT.with(|s| s.since.store(0, std::sync::atomic::Ordering::SeqCst));
        }
    }
    let _c = Clear;
    g()
}
fn watchdog(ctx: &Ctx, done: &std::sync::atomic::AtomicBool) {
    use std::sync::atomic::Ordering::SeqCst;
    while !done.load(SeqCst) {
        std::thread::sleep(std::time::Duration::from_millis(500));
        let now = clock_ms();
        let stuck: Vec<u64> = SLOTS
            .lock()
            .unwrap()
            .iter()
            .filter(|s| {
                let t = s.since.load(SeqCst);
                t != 0 && now.saturating_sub(t) > WATCHDOG_SECS * 1000
            })
            .map(|s| s.idx.load(SeqCst))
            .collect();
        if !stuck.is_empty() {
            println!(
                "WATCHDOG property=C06 a hierarchical clustering call did not return within {WATCHDOG_SECS} s (case indices {stuck:?}); reporting what was judged so far"
            );
            let code = ctx.finish();
            std::process::exit(if code == 1 { 1 } else { 3 });
        }
    }
}

macro_rules! chk {
    ($cond:expr, $sig:expr, $($json:tt)+) => {
        if !($cond) {
            return Err(violated($sig, json!($($json)+)));
        }
    };
}

// ---------------------------------------------------------------- tolerances (units of eps_F * scale)
/// kernel cell vs the harness's kernel function
const TOL_ENTRY: f64 = 1024.0;
/// row sums / matrix products vs the matrix rebuilt from `column`
const TOL_SUM: f64 = 1024.0;
/// smallest eigenvalue of a Gaussian kernel matrix, units of eps_F * n * (d + 4)
const TOL_PSD: f64 = 256.0;
/// half-width of the neighbour tie class, units of eps_F * diam * (diam + max|coordinate|)
const BAND_NN: f64 = 64.0;
/// (near-)tie band of the naive agglomeration, units of eps_F * largest dissimilarity
const BAND_LINK: f64 = 1024.0;

fn f<F: Float>(v: F) -> f64 {
    v.to_f64().unwrap_or(f64::NAN)
}
fn eps_of<F: Float>() -> f64 {
    f(F::epsilon())
}
fn tiny_of<F: Float>() -> f64 {
    f(F::min_positive_value())
}
fn same(a: f64, b: f64) -> bool {
    a == b || (a.is_nan() && b.is_nan())
}
fn fname<F: Float>() -> &'static str {
    if std::mem::size_of::<F>() == 4 {
        "f32"
    } else {
        "f64"
    }
}

// ---------------------------------------------------------------- workload

const STYLES: &[&str] = &[
    "normal", "offset", "lattice", "blobs-dup", "colscale", "line", "identical", "uniform",
];

fn gen_records(rng: &mut Rng, n: usize, d: usize, style: &str) -> Array2<f64> {
    match style {
        "normal" => gen::normal_matrix(rng, n, d),
        "uniform" => gen::uniform_matrix(rng, n, d, -2.0, 2.0),
        "offset" => {
            let scale = gen::log_uniform(rng, 1e-2, 1e2);
            let off = gen::uniform(rng, -1.0, 1.0) * 300.0 * scale;
            gen::normal_matrix(rng, n, d).mapv(|v| v * scale + off)
        }
        "lattice" => {
            let hi = rng.gen_range(1..=3);
            Array2::from_shape_fn((n, d), |_| rng.gen_range(-hi..=hi) as f64)
        }
        "blobs-dup" => {
            let nb = rng.gen_range(1..=4);
            let (mut x, _) = gen::blobs(rng, n, d, nb, 3.0, 0.4);
            // copy some rows onto others: exact duplicates
            if n >= 2 {
                let ndup = rng.gen_range(1..=(n / 3).max(1));
                for _ in 0..ndup {
                    let a = rng.gen_range(0..n);
                    let b = rng.gen_range(0..n);
                    let row = x.row(a).to_owned();
                    x.row_mut(b).assign(&row);
                }
            }
            x
        }
        "colscale" => {
            let scales: Vec<f64> = (0..d).map(|_| gen::log_uniform(rng, 1e-3, 1e3)).collect();
            Array2::from_shape_fn((n, d), |(_, j)| gen::normal(rng) * scales[j])
        }
        "line" => {
            // equally spaced points on a line with dyadic step: distance ties between neighbours
            let dir: Vec<f64> = (0..d).map(|_| rng.gen_range(-2i32..=2) as f64 * 0.25).collect();
            let perm = gen::permutation(rng, n);
            Array2::from_shape_fn((n, d), |(i, j)| perm[i] as f64 * dir[j])
        }
        "identical" => {
            let row: Vec<f64> = (0..d).map(|_| gen::normal(rng)).collect();
            Array2::from_shape_fn((n, d), |(_, j)| row[j])
        }
        _ => unreachable!(),
    }
}

/// the records in element type F together with their exact f64 values
fn cast_records<F: Float>(x: &Array2<f64>) -> (Array2<F>, Vec<Vec<f64>>) {
    let xf = x.mapv(|v| F::cast(v));
    let rows = xf
        .rows()
        .into_iter()
        .map(|r| r.iter().map(|v| f(*v)).collect())
        .collect();
    (xf, rows)
}

#[derive(Clone, Copy, Debug, PartialEq)]
enum Layout {
    C,
    F,
    RowStrided,
    Strided,
    /// rows stored back to front behind a negative row stride (contiguous rows, contiguous buffer)
    RowsReversed,
}

/// run `g` on a view of `x` with the requested memory layout (junk in the unused cells)
fn with_layout<F: Float, T>(x: &Array2<F>, l: Layout, g: impl FnOnce(ArrayView2<F>) -> T) -> T {
    let (n, d) = x.dim();
    let junk = F::cast(777.25);
    match l {
        Layout::C => g(x.view()),
        Layout::F => {
            let mut t = Array2::from_elem((d, n), junk);
            t.assign(&x.t());
            g(t.t())
        }
        Layout::RowStrided => {
            let mut p = Array2::from_elem((n, d + 3), junk);
            p.slice_mut(s![.., 1..d + 1]).assign(x);
            g(p.slice(s![.., 1..d + 1]))
        }
        Layout::Strided => {
            let mut p = Array2::from_elem((2 * n + 1, 2 * d + 1), junk);
            p.slice_mut(s![..2 * n;2, ..2 * d;2]).assign(x);
            g(p.slice(s![..2 * n;2, ..2 * d;2]))
        }
        Layout::RowsReversed => {
            let back = Array2::from_shape_fn((n, d), |(i, j)| x[[n - 1 - i, j]]);
            g(back.slice(s![..;-1, ..]))
        }
    }
}

#[derive(Clone, Debug)]
enum Km {
    Lin,
    Gauss(f64),
    Poly(f64, f64),
}

impl Km {
    fn to<F: Float>(&self) -> KernelMethod<F> {
        match *self {
            Km::Lin => KernelMethod::Linear,
            Km::Gauss(e) => KernelMethod::Gaussian(F::cast(e)),
            Km::Poly(c, g) => KernelMethod::Polynomial(F::cast(c), F::cast(g)),
        }
    }
    /// round the parameters through F so that the oracle sees exactly what linfa sees
    fn rounded<F: Float>(&self) -> Km {
        match *self {
            Km::Lin => Km::Lin,
            Km::Gauss(e) => Km::Gauss(f(F::cast(e))),
            Km::Poly(c, g) => Km::Poly(f(F::cast(c)), f(F::cast(g))),
        }
    }
    fn name(&self) -> &'static str {
        match self {
            Km::Lin => "linear",
            Km::Gauss(_) => "gaussian",
            Km::Poly(..) => "polynomial",
        }
    }
    fn json(&self) -> Value {
        match *self {
            Km::Lin => json!("linear"),
            Km::Gauss(e) => json!({ "gaussian": e }),
            Km::Poly(c, g) => json!({"polynomial": [c, g]}),
        }
    }
}

fn sqdist(a: &[f64], b: &[f64]) -> f64 {
    a.iter().zip(b).map(|(x, y)| (x - y) * (x - y)).sum()
}

/// The kernel function by its definition, in f64 on exact inputs.
/// Returns (value, S): linfa's F-arithmetic result must lie within TOL_ENTRY*eps_F*S (+ one
/// subnormal) of value. None = definition not applicable (negative base with fractional degree,
/// base not separated from zero for degree < 1).
fn kfun(m: &Km, a: &[f64], b: &[f64], epsf: f64) -> Option<(f64, f64)> {
    let d = a.len() as f64;
    match *m {
        Km::Lin => {
            let s: f64 = a.iter().zip(b).map(|(x, y)| x * y).sum();
            let sa: f64 = a.iter().zip(b).map(|(x, y)| (x * y).abs()).sum();
            Some((s, (d + 2.0) * sa))
        }
        Km::Gauss(e) => {
            let q = sqdist(a, b) / e;
            let v = (-q).exp();
            if v == 0.0 {
                // far below F's range as well (q is beyond 745): nothing but an exact zero
                return Some((0.0, 0.0));
            }
            Some((v, v * (1.0 + (d + 3.0) * q)))
        }
        Km::Poly(c, g) => {
            let s: f64 = a.iter().zip(b).map(|(x, y)| x * y).sum();
            let sa: f64 = a.iter().zip(b).map(|(x, y)| (x * y).abs()).sum();
            let base = s + c;
            if g == 0.0 {
                return Some((1.0, 0.0));
            }
            let du = (d + 2.0) * (sa + c.abs()); // base error, units of eps_F
            let dabs = TOL_ENTRY * epsf * du;
            if g.fract() != 0.0 && base - dabs <= 0.0 {
                return None;
            }
            let v = base.powf(g);
            let slope = if g >= 1.0 {
                g * (base.abs() + dabs).powf(g - 1.0)
            } else {
                let lo = base.abs() - dabs;
                if lo < 0.5 * base.abs() || lo <= 0.0 {
                    return None;
                }
                g.abs() * lo.powf(g - 1.0)
            };
            Some((v, slope * du + (1.0 + g.abs()) * v.abs()))
        }
    }
}

fn gen_method<F: Float>(rng: &mut Rng, rows: &[Vec<f64>]) -> Km {
    let km = gen_method_raw(rng, rows);
    // "any bandwidth": now and then one from the ends of F's range (subnormal, smallest normal,
    // tiny, huge) - exp(-d/eps) is 1 on the diagonal and for duplicated records, 0 or 1 elsewhere
    if let Km::Gauss(_) = km {
        if rng.gen_bool(0.1) {
            let tiny = f(F::min_positive_value());
            let huge = f(F::max_value());
            let e = *gen::pick(rng, &[tiny / 8.0, tiny / 1024.0, tiny, tiny * 1e3, tiny.sqrt(), huge / 4.0, huge.sqrt()]);
            return Km::Gauss(e);
        }
    }
    // keep polynomial values (and their row sums) far from the overflow threshold of F
    if let Km::Poly(c, mut g) = km {
        let mut smax: f64 = 0.0;
        for a in rows {
            for b in rows {
                smax = smax.max(a.iter().zip(b).map(|(x, y)| (x * y).abs()).sum());
            }
        }
        let limit = f(F::max_value()).powf(0.6);
        while g > 1.0 && (smax + c.abs()).powf(g) > limit {
            g -= 1.0;
        }
        return Km::Poly(c, g);
    }
    km
}

fn gen_method_raw(rng: &mut Rng, rows: &[Vec<f64>]) -> Km {
    let n = rows.len();
    match rng.gen_range(0..10) {
        0 | 1 => Km::Lin,
        2..=5 => {
            // bandwidth relative to the mean squared distance, or absolute
            let mut msd = 0.0;
            let mut cnt = 0.0;
            for i in 0..n {
                for j in 0..i {
                    msd += sqdist(&rows[i], &rows[j]);
                    cnt += 1.0;
                }
            }
            let msd = if cnt > 0.0 && msd > 0.0 { msd / cnt } else { 1.0 };
            if rng.gen_bool(0.75) {
                Km::Gauss(msd * gen::log_uniform(rng, 1e-2, 1e2))
            } else {
                Km::Gauss(gen::log_uniform(rng, 1e-2, 1e2))
            }
        }
        6..=8 => {
            let c = *gen::pick(rng, &[0.0, 1.0, -1.5, 0.5, 2.0]) + if rng.gen_bool(0.3) { gen::uniform(rng, -1.0, 1.0) } else { 0.0 };
            let g = rng.gen_range(0..=4) as f64;
            Km::Poly(c, g)
        }
        _ => {
            // fractional / negative degree with a base kept positive by the constant
            let mut smin = f64::INFINITY;
            let mut samax: f64 = 0.0;
            for i in 0..n {
                for j in 0..=i {
                    let s: f64 = rows[i].iter().zip(&rows[j]).map(|(x, y)| x * y).sum();
                    let sa: f64 = rows[i].iter().zip(&rows[j]).map(|(x, y)| (x * y).abs()).sum();
                    smin = smin.min(s);
                    samax = samax.max(sa);
                }
            }
            if !smin.is_finite() {
                smin = 0.0;
            }
            let c = -smin + 0.5 + 0.01 * samax + gen::uniform(rng, 0.0, 2.0);
            let g = *gen::pick(rng, &[0.5, 1.5, 2.5, -1.0, -0.5, 0.25]);
            Km::Poly(c, g)
        }
    }
}

// ---------------------------------------------------------------- observation of a kernel

/// Rebuild the matrix from `column`, check every accessor against it. Returns M row-major.
fn check_accessors<F: Float, K1: Inner<Elem = F>, K2: Inner<Elem = F>>(
    c: &mut Case,
    k: &KernelBase<K1, K2>,
    n: usize,
    rhs: &ArrayView2<F>,
    view: bool,
) -> R<Vec<f64>> {
    let sig = |s: &str| {
        if view {
            format!("C06/accessor-view/{s}")
        } else {
            format!("C06/accessor/{s}")
        }
    };
    let epsf = eps_of::<F>();
    let tiny = tiny_of::<F>();
    chk!(k.size() == n, sig("size"), {"size": k.size(), "n": n});
    chk!(k.nsamples() == n && k.nfeatures() == n, sig("records-shape"),
         {"nsamples": k.nsamples(), "nfeatures": k.nfeatures(), "n": n});
    let mut m = vec![0.0f64; n * n];
    for j in 0..n {
        let col = k.column(j);
        chk!(col.len() == n, sig("column-length"), {"j": j, "len": col.len(), "n": n});
        for i in 0..n {
            m[i * n + j] = f(col[i]);
        }
    }
    let diag = k.diagonal();
    chk!(diag.len() == n, sig("diagonal-length"), {"len": diag.len(), "n": n});
    for i in 0..n {
        chk!(same(f(diag[i]), m[i * n + i]), sig("diagonal-differs-from-column"),
             {"i": i, "diagonal": f(diag[i]), "column": m[i * n + i]});
    }
    let ut = k.to_upper_triangle();
    chk!(ut.len() == n * n.saturating_sub(1) / 2, sig("upper-triangle-length"),
         {"len": ut.len(), "n": n});
    let mut p = 0;
    for i in 0..n {
        for j in (i + 1)..n {
            chk!(same(f(ut[p]), m[i * n + j]), sig("upper-triangle-differs-from-column"),
                 {"pos": p, "i": i, "j": j, "upper_triangle": f(ut[p]), "column": m[i * n + j]});
            p += 1;
        }
    }
    let sum = k.sum();
    chk!(sum.len() == n, sig("sum-length"), {"len": sum.len(), "n": n});
    let (mut worst_sum, mut worst_dot) = (0.0f64, 0.0f64);
    for i in 0..n {
        let want: f64 = (0..n).map(|j| m[i * n + j]).sum();
        let scale: f64 = (0..n).map(|j| m[i * n + j].abs()).sum::<f64>() * (n as f64 + 2.0);
        if !(scale < f(F::max_value()) / 1e6) {
            c.count("sum-in-overflow-range-not-judged");
            continue;
        }
        let diff = (f(sum[i]) - want).abs();
        if scale > 0.0 {
            worst_sum = worst_sum.max(diff / (epsf * scale));
        }
        if !(diff <= TOL_SUM * epsf * scale + tiny) {
            c.resid("row-sum [eps*(n+2)*sum|M|]", worst_sum);
        }
        chk!(diff <= TOL_SUM * epsf * scale + tiny, sig("row-sum-differs"),
             {"i": i, "sum": f(sum[i]), "expected": want, "tolerance": TOL_SUM * epsf * scale});
    }
    let mc = rhs.ncols();
    let prod = k.dot(rhs);
    chk!(prod.dim() == (n, mc), sig("dot-shape"), {"shape": [prod.nrows(), prod.ncols()], "expected": [n, mc]});
    for i in 0..n {
        for cc in 0..mc {
            let mut want = 0.0;
            let mut scale = 0.0;
            for j in 0..n {
                let t = m[i * n + j] * f(rhs[[j, cc]]);
                want += t;
                scale += t.abs();
            }
            scale *= n as f64 + 2.0;
            if !(scale < f(F::max_value()) / 1e6) {
                c.count("sum-in-overflow-range-not-judged");
                continue;
            }
            let diff = (f(prod[[i, cc]]) - want).abs();
            if scale > 0.0 {
                worst_dot = worst_dot.max(diff / (epsf * scale));
            }
            if !(diff <= TOL_SUM * epsf * scale + tiny) {
                c.resid("dot [eps*(n+2)*sum|M||rhs|]", worst_dot);
            }
            chk!(diff <= TOL_SUM * epsf * scale + tiny, sig("dot-differs"),
                 {"i": i, "col": cc, "dot": f(prod[[i, cc]]), "expected": want, "tolerance": TOL_SUM * epsf * scale});
        }
    }
    c.resid("row-sum [eps*(n+2)*sum|M|]", worst_sum);
    c.resid("dot [eps*(n+2)*sum|M||rhs|]", worst_dot);
    Ok(m)
}

/// all accessor checks on the owned kernel, on its view, and on the inner representation
fn observe<F: Float>(c: &mut Case, k: &Kernel<F>, n: usize, rhs: &ArrayView2<F>, dense: bool) -> R<Vec<f64>> {
    let m = check_accessors(c, k, n, rhs, false)?;
    let kv = k.view();
    let mv = check_accessors(c, &kv, n, rhs, true)?;
    for (p, (a, b)) in m.iter().zip(&mv).enumerate() {
        chk!(same(*a, *b), "C06/accessor-view/column-differs-from-owned", {"pos": p, "owned": a, "view": b});
    }
    chk!(kv.to_owned() == *k, "C06/accessor-view/to-owned-differs", {"n": n});
    match &k.inner {
        KernelInner::Dense(a) => {
            chk!(dense, "C06/kind/dense-requested-sparse-built", {"n": n});
            chk!(a.dim() == (n, n), "C06/inner/dense-shape", {"shape": [a.nrows(), a.ncols()], "n": n});
            for i in 0..n {
                for j in 0..n {
                    chk!(same(f(a[[i, j]]), m[i * n + j]), "C06/inner/dense-cell-differs-from-column",
                         {"i": i, "j": j, "inner": f(a[[i, j]]), "column": m[i * n + j]});
                }
            }
        }
        KernelInner::Sparse(sm) => {
            chk!(!dense, "C06/kind/sparse-requested-dense-built", {"n": n});
            chk!(sm.rows() == n && sm.cols() == n, "C06/inner/sparse-shape", {"shape": [sm.rows(), sm.cols()], "n": n});
            for i in 0..n {
                for j in 0..n {
                    match sm.get(i, j) {
                        Some(v) => chk!(same(f(*v), m[i * n + j]), "C06/inner/sparse-cell-differs-from-column",
                                        {"i": i, "j": j, "inner": f(*v), "column": m[i * n + j]}),
                        None => chk!(m[i * n + j] == 0.0, "C06/inner/unstored-cell-nonzero-in-column",
                                     {"i": i, "j": j, "column": m[i * n + j]}),
                    }
                }
            }
        }
    }
    Ok(m)
}

/// cell (i,j) of the observed matrix against the kernel function
fn check_cell<F: Float>(c: &mut Case, km: &Km, rows: &[Vec<f64>], i: usize, j: usize, got: f64, aspect: &str, worst: &mut f64) -> R<bool> {
    let epsf = eps_of::<F>();
    match kfun(km, &rows[i], &rows[j], epsf) {
        None => {
            c.count_n("cell-oracle-not-applicable", 1);
            Ok(false)
        }
        Some((want, _)) if !(want.abs() < f(F::max_value()) / 1e6) => {
            c.count("cell-in-overflow-range-not-judged");
            Ok(false)
        }
        Some((want, scale)) => {
            let diff = (got - want).abs();
            // (cells in the subnormal range are judged by the absolute floor, not by the relative residual)
            if epsf * scale > tiny_of::<F>() / epsf {
                let r = diff / (epsf * scale);
                if r.is_nan() || r > *worst {
                    *worst = r;
                }
            }
            chk!(diff <= TOL_ENTRY * epsf * scale + tiny_of::<F>() && !got.is_nan(),
                 format!("C06/{aspect}/cell-differs-from-kernel-function"),
                 {"i": i, "j": j, "got": got, "expected": want, "tolerance": TOL_ENTRY * epsf * scale,
                  "method": km.json(), "xi": rows[i], "xj": rows[j]});
            Ok(true)
        }
    }
}

fn flush_cell_resid<F: Float>(c: &mut Case, km: &Km, worst: f64) {
    c.resid(&format!("kernel-cell {} {} [eps*S]", km.name(), fname::<F>()), worst);
}

fn rhs_for<F: Float>(rng: &mut Rng, n: usize) -> (Array2<F>, bool) {
    let mc = *gen::pick(rng, &[0usize, 1, 2, 3, 7, 8, 9]);
    let r = gen::normal_matrix(rng, n, mc).mapv(|v| F::cast(v));
    (r, rng.gen_bool(0.3))
}

fn data_hash(rows: &[Vec<f64>]) -> u64 {
    let mut h: u64 = 0xcbf29ce484222325;
    for r in rows {
        for v in r {
            h = (h ^ v.to_bits()).wrapping_mul(0x100000001b3);
        }
    }
    h
}

// ---------------------------------------------------------------- dense family

fn dense_case<F: Float>(c: &mut Case) -> Outcome {
    let nmax = c.tier.pick(32, 48);
    let n = match c.idx % 16 {
        0 => 0,
        1 => 1,
        2 => 2,
        _ => c.rng.gen_range(3..=nmax),
    };
    let d = if c.idx % 23 == 5 { 0 } else { c.rng.gen_range(1..=6) };
    let style = STYLES[(c.idx as usize / 2) % STYLES.len()];
    let layout = [Layout::C, Layout::F, Layout::RowStrided, Layout::Strided, Layout::RowsReversed][c.rng.gen_range(0..5)];
    let x = gen_records(&mut c.rng, n, d, style);
    let (xf, rows) = cast_records::<F>(&x);
    let km = gen_method::<F>(&mut c.rng, &rows).rounded::<F>();
    let (rhs, rhs_f) = rhs_for::<F>(&mut c.rng, n);
    c.note("n", json!(n));
    c.note("d", json!(d));
    c.note("style", json!(style));
    c.note("layout", json!(format!("{layout:?}")));
    c.note("method", km.json());
    c.note("elem", json!(fname::<F>()));

    let params = Kernel::<F>::params_with_nn(Nn::LinearSearch)
        .kind(KernelType::Dense)
        .method(km.to::<F>());
    let k: Kernel<F> = with_layout(&xf, layout, |v| params.transform(v));
    ensure!(k.method == km.to::<F>(), "C06/dense/method-not-recorded", {"method": km.json()});
    let rhs_t = rhs.t().to_owned(); // (mc, n), its transpose is an F-order (n, mc) view
    let rhs_view = if rhs_f { rhs_t.t() } else { rhs.view() };
    let m = match observe(c, &k, n, &rhs_view, true) {
        Ok(m) => m,
        Err(o) => return o,
    };
    let mut decided = 0usize;
    let mut worst = 0.0f64;
    for i in 0..n {
        for j in 0..n {
            let r = check_cell::<F>(c, &km, &rows, i, j, m[i * n + j], "dense", &mut worst);
            match r {
                Ok(true) => decided += 1,
                Ok(false) => {}
                Err(o) => {
                    flush_cell_resid::<F>(c, &km, worst);
                    return o;
                }
            }
            ensure!(same(m[i * n + j], m[j * n + i]), "C06/dense/not-symmetric",
                    {"i": i, "j": j, "mij": m[i * n + j], "mji": m[j * n + i], "method": km.json()});
        }
    }
    flush_cell_resid::<F>(c, &km, worst);
    if let Km::Gauss(_) = km {
        for i in 0..n {
            ensure!(m[i * n + i] == 1.0, "C06/dense/gaussian-diagonal-not-one", {"i": i, "got": m[i * n + i]});
        }
        if n >= 1 {
            let a = Array2::from_shape_fn((n, n), |(i, j)| m[i * n + j]);
            let (vals, _) = oracle::jacobi_eig(&a);
            let lmin = vals[n - 1];
            let unit = eps_of::<F>() * n as f64 * (d as f64 + 4.0);
            c.resid(&format!("gaussian-psd {} [-lambda_min/(eps*n*(d+4))]", fname::<F>()), (-lmin / unit).max(0.0));
            ensure!(lmin >= -TOL_PSD * unit, "C06/dense/gaussian-not-psd",
                    {"lambda_min": lmin, "tolerance": TOL_PSD * unit, "n": n});
            c.count("psd-checked");
        }
    }
    c.evals = 1 + (n * n) as u64;
    held(n >= 2 && d >= 1 && decided > 0,
         format!("{} {} n{n} d{d} {style} {layout:?} {:x}", fname::<F>(), km.name(), data_hash(&rows)))
}

// ---------------------------------------------------------------- sparse family

struct NnTruth {
    d2: Vec<f64>,      // n*n squared distances (f64 on exact inputs)
    sorted: Vec<Vec<f64>>, // per point: ascending squared distances to the other points
    band: f64,
}

fn nn_truth<F: Float>(rows: &[Vec<f64>]) -> NnTruth {
    let n = rows.len();
    let mut d2 = vec![0.0; n * n];
    let mut diam2: f64 = 0.0;
    let mut cmax: f64 = 0.0;
    for i in 0..n {
        for v in &rows[i] {
            cmax = cmax.max(v.abs());
        }
        for j in 0..n {
            let q = sqdist(&rows[i], &rows[j]);
            d2[i * n + j] = q;
            diam2 = diam2.max(q);
        }
    }
    let sorted = (0..n)
        .map(|i| {
            let mut v: Vec<f64> = (0..n).filter(|j| *j != i).map(|j| d2[i * n + j]).collect();
            v.sort_by(|a, b| a.partial_cmp(b).unwrap());
            v
        })
        .collect();
    let diam = diam2.sqrt();
    let dd = rows.first().map(|r| r.len()).unwrap_or(0) as f64;
    let band = BAND_NN * eps_of::<F>() * diam * (diam + cmax * dd.sqrt());
    NnTruth { d2, sorted, band }
}

impl NnTruth {
    /// j is among the k nearest other points of i however (near-)ties are broken
    fn surely_in(&self, n: usize, i: usize, j: usize, k: usize) -> bool {
        let lim = self.d2[i * n + j] + self.band;
        let le = self.sorted[i].partition_point(|v| *v <= lim);
        le.saturating_sub(1) < k
    }
    /// at least k other points are closer to i than j by more than the band
    fn surely_out(&self, n: usize, i: usize, j: usize, k: usize) -> bool {
        let lim = self.d2[i * n + j] - self.band;
        self.sorted[i].partition_point(|v| *v < lim) >= k
    }
}

fn sparse_case<F: Float>(c: &mut Case) -> Outcome {
    let nmax = c.tier.pick(36, 56);
    let n = match c.idx % 12 {
        0 => 2,
        1 => 3,
        2 => c.rng.gen_range(17..=nmax), // above the leaf size of the tree indices
        _ => c.rng.gen_range(4..=nmax),
    };
    let d = c.rng.gen_range(1..=6);
    let style = STYLES[(c.idx as usize / 2) % STYLES.len()];
    let x = gen_records(&mut c.rng, n, d, style);
    let (xf, rows) = cast_records::<F>(&x);
    let km = gen_method::<F>(&mut c.rng, &rows).rounded::<F>();
    let (rhs, _) = rhs_for::<F>(&mut c.rng, n);
    let layout_tree = [Layout::C, Layout::RowStrided, Layout::RowsReversed][c.rng.gen_range(0..3)];
    let layout_any = [Layout::C, Layout::F, Layout::RowStrided, Layout::Strided, Layout::RowsReversed][c.rng.gen_range(0..5)];
    c.note("n", json!(n));
    c.note("d", json!(d));
    c.note("style", json!(style));
    c.note("method", km.json());
    c.note("elem", json!(fname::<F>()));
    c.note("layouts", json!(format!("{layout_tree:?}/{layout_any:?}")));
    let truth = nn_truth::<F>(&rows);
    let mut evals = 0u64;
    let mut strict_kernels = 0u64;
    let mut worst = 0.0f64;
    let mut worst_nn = 0.0f64;
    let (mut n_strict, mut n_tie, mut n_tie_pairs) = (0u64, 0u64, 0u64);
    for k in 1..n {
        for (nn, nn_name) in [(Nn::LinearSearch, "linear"), (Nn::KdTree, "kdtree"), (Nn::BallTree, "balltree")] {
            // the k-d tree documents a panic on rows that are not contiguous
            let layout = if nn == Nn::KdTree { layout_tree } else { layout_any };
            let params = Kernel::<F>::params_with_nn(nn.clone())
                .kind(KernelType::Sparse(k))
                .method(km.to::<F>());
            let kern: Kernel<F> = with_layout(&xf, layout, |v| params.transform(v));
            evals += 1;
            // accessors once per k (rotating over the index kinds), pattern for every kernel
            let m = if (k + evals as usize) % 3 == 0 || n <= 6 {
                match observe(c, &kern, n, &rhs.view(), false) {
                    Ok(m) => m,
                    Err(o) => return o,
                }
            } else {
                let mut m = vec![0.0; n * n];
                for j in 0..n {
                    let col = kern.column(j);
                    ensure!(col.len() == n, "C06/accessor/column-length", {"j": j, "len": col.len(), "n": n});
                    for i in 0..n {
                        m[i * n + j] = f(col[i]);
                    }
                }
                m
            };
            let sm = match &kern.inner {
                KernelInner::Sparse(sm) => sm,
                KernelInner::Dense(_) => bail!("C06/kind/sparse-requested-dense-built", {"n": n, "k": k}),
            };
            ensure!(sm.rows() == n && sm.cols() == n, "C06/inner/sparse-shape", {"shape": [sm.rows(), sm.cols()], "n": n});
            let mut stored = vec![false; n * n];
            for (_, (i, j)) in sm.iter() {
                ensure!(i < n && j < n, "C06/inner/sparse-index-out-of-range", {"i": i, "j": j, "n": n});
                ensure!(!stored[i * n + j], "C06/inner/sparse-duplicate-entry", {"i": i, "j": j});
                stored[i * n + j] = true;
            }
            let mut ties = 0u64;
            for i in 0..n {
                ensure!(stored[i * n + i], "C06/sparse/diagonal-not-stored", {"i": i, "k": k, "n": n, "index": nn_name});
                let dki = truth.sorted[i][k - 1];
                let mut own = 0usize;
                for j in 0..n {
                    if i == j {
                        continue;
                    }
                    let st = stored[i * n + j];
                    ensure!(st == stored[j * n + i], "C06/sparse/pattern-not-symmetric",
                            {"i": i, "j": j, "k": k, "n": n, "index": nn_name});
                    let dij = truth.d2[i * n + j];
                    let dkj = truth.sorted[j][k - 1];
                    let must = truth.surely_in(n, i, j, k) || truth.surely_in(n, j, i, k);
                    let must_not = truth.surely_out(n, i, j, k) && truth.surely_out(n, j, i, k);
                    if must {
                        ensure!(st, "C06/sparse/neighbour-pair-missing",
                                {"i": i, "j": j, "k": k, "n": n, "index": nn_name, "d2": dij, "dk_i": dki, "dk_j": dkj,
                                 "xi": rows[i], "xj": rows[j]});
                    } else if must_not {
                        ensure!(!st, "C06/sparse/non-neighbour-pair-stored",
                                {"i": i, "j": j, "k": k, "n": n, "index": nn_name, "d2": dij, "dk_i": dki, "dk_j": dkj,
                                 "xi": rows[i], "xj": rows[j]});
                    } else {
                        ties += 1;
                    }
                    if st && !truth.surely_out(n, i, j, k) {
                        own += 1;
                    }
                    // how much of the tie band the real neighbour selection uses
                    if truth.band > 0.0 {
                        let off = if st { dij - dki.max(dkj) } else { (dki - dij).max(dkj - dij) };
                        if off > 0.0 {
                            worst_nn = worst_nn.max(off / (truth.band / BAND_NN));
                        }
                    }
                }
                // whichever way ties are broken, i's own k nearest neighbours are stored
                ensure!(own >= k, "C06/sparse/fewer-than-k-neighbours-stored",
                        {"i": i, "k": k, "n": n, "index": nn_name, "stored_within_dk": own});
            }
            // stored values are the kernel function, unstored cells read as zero
            for i in 0..n {
                for j in 0..n {
                    if stored[i * n + j] {
                        if let Err(o) = check_cell::<F>(c, &km, &rows, i, j, m[i * n + j], "sparse", &mut worst) {
                            flush_cell_resid::<F>(c, &km, worst);
                            return o;
                        }
                        ensure!(same(m[i * n + j], m[j * n + i]), "C06/sparse/not-symmetric",
                                {"i": i, "j": j, "mij": m[i * n + j], "mji": m[j * n + i]});
                    } else {
                        ensure!(m[i * n + j] == 0.0, "C06/sparse/unstored-cell-nonzero", {"i": i, "j": j, "got": m[i * n + j]});
                    }
                }
            }
            if let Km::Gauss(_) = km {
                for i in 0..n {
                    ensure!(m[i * n + i] == 1.0, "C06/sparse/gaussian-diagonal-not-one", {"i": i, "got": m[i * n + i]});
                }
            }
            if ties == 0 {
                strict_kernels += 1;
                n_strict += 1;
            } else {
                n_tie += 1;
                n_tie_pairs += ties;
            }
        }
    }
    flush_cell_resid::<F>(c, &km, worst);
    if worst_nn > 0.0 {
        c.resid(&format!("neighbour-order {} [band/{BAND_NN}]", fname::<F>()), worst_nn);
    }
    c.count_n("sparse-pattern-strict", n_strict);
    c.count_n("sparse-pattern-with-tie-class", n_tie);
    c.count_n("tie-class-pairs", n_tie_pairs);
    c.evals = evals;
    c.note("strict_kernels", json!(strict_kernels));
    held(strict_kernels > 0 && n >= 3,
         format!("{} {} n{n} d{d} {style} {:x}", fname::<F>(), km.name(), data_hash(&rows)))
}

// ---------------------------------------------------------------- calling forms

fn forms_case<F: Float>(c: &mut Case) -> Outcome {
    let n = c.rng.gen_range(2..=c.tier.pick(20, 30));
    let d = c.rng.gen_range(1..=5);
    let style = STYLES[(c.idx as usize) % STYLES.len()];
    let x = gen_records(&mut c.rng, n, d, style);
    let (xf, rows) = cast_records::<F>(&x);
    let km = gen_method::<F>(&mut c.rng, &rows).rounded::<F>();
    let kind = if c.rng.gen_bool(0.5) { KernelType::Dense } else { KernelType::Sparse(c.rng.gen_range(1..n)) };
    let nn = [Nn::LinearSearch, Nn::KdTree, Nn::BallTree][c.rng.gen_range(0..3)].clone();
    c.note("n", json!(n));
    c.note("kind", json!(format!("{kind:?}")));
    c.note("method", km.json());
    let params = Kernel::<F>::params_with_nn(nn).kind(kind.clone()).method(km.to::<F>());
    let targets: Array1<usize> = Array1::from_shape_fn(n, |i| (i * 7 + 3) % 11);
    let k0: Kernel<F> = Kernel::new(xf.view(), &params);
    let k1: Kernel<F> = params.transform(&xf);
    let k2: Kernel<F> = params.transform(xf.view());
    let v = xf.view();
    let k3: Kernel<F> = params.transform(&v);
    ensure!(k1 == k0 && k2 == k0 && k3 == k0, "C06/forms/array-forms-disagree", {"n": n, "kind": format!("{kind:?}")});
    let ds = DatasetBase::new(xf.clone(), targets.clone());
    {
        let r = params.transform(&ds);
        ensure!(*r.records() == k0, "C06/forms/dataset-ref-kernel-differs", {"n": n});
        ensure!(r.targets().iter().eq(targets.iter()), "C06/forms/dataset-ref-targets-differ", {"n": n});
    }
    {
        let dv = DatasetBase::new(xf.view(), targets.view());
        let r = params.transform(&dv);
        ensure!(*r.records() == k0, "C06/forms/dataset-view-kernel-differs", {"n": n});
        ensure!(r.targets().iter().eq(targets.iter()), "C06/forms/dataset-view-targets-differ", {"n": n});
    }
    {
        let r = params.transform(ds);
        ensure!(*r.records() == k0, "C06/forms/dataset-owned-kernel-differs", {"n": n});
        ensure!(r.targets().iter().eq(targets.iter()), "C06/forms/dataset-owned-targets-differ", {"n": n});
    }
    // the default parameter set is a dense Gaussian(0.5) kernel
    let kd: Kernel<F> = Kernel::<F>::params().transform(xf.view());
    ensure!(kd.method == KernelMethod::Gaussian(F::cast(0.5)), "C06/forms/default-method", {"n": n});
    ensure!(matches!(kd.inner, KernelInner::Dense(_)), "C06/forms/default-kind", {"n": n});
    ensure!(kd.is_linear() == false && k0.is_linear() == matches!(km, Km::Lin), "C06/forms/is-linear", {"method": km.json()});
    // spot check of KernelMethod::distance against the kernel function
    let i = c.rng.gen_range(0..n);
    let j = c.rng.gen_range(0..n);
    let got = f(km.to::<F>().distance(xf.row(i), xf.row(j)));
    let mut worst = 0.0;
    if let Err(o) = check_cell::<F>(c, &km, &rows, i, j, got, "forms", &mut worst) {
        return o;
    }
    held(true, format!("{} {} {kind:?} n{n} {:x}", fname::<F>(), km.name(), data_hash(&rows)))
}

// ---------------------------------------------------------------- hierarchical: references

const METHODS: [(Method, &str); 7] = [
    (Method::Single, "single"),
    (Method::Complete, "complete"),
    (Method::Average, "average"),
    (Method::Weighted, "weighted"),
    (Method::Ward, "ward"),
    (Method::Centroid, "centroid"),
    (Method::Median, "median"),
];

fn on_squares(m: Method) -> bool {
    matches!(m, Method::Ward | Method::Centroid | Method::Median)
}

struct Uf(Vec<usize>);
impl Uf {
    fn new(n: usize) -> Uf {
        Uf((0..n).collect())
    }
    fn find(&mut self, a: usize) -> usize {
        let mut r = a;
        while self.0[r] != r {
            r = self.0[r];
        }
        let mut a = a;
        while self.0[a] != r {
            let nx = self.0[a];
            self.0[a] = r;
            a = nx;
        }
        r
    }
    fn union(&mut self, a: usize, b: usize) {
        let (ra, rb) = (self.find(a), self.find(b));
        if ra != rb {
            self.0[ra.max(rb)] = ra.min(rb);
        }
    }
    /// canonical labelling: clusters numbered by first occurrence
    fn canon(&mut self) -> Vec<usize> {
        let n = self.0.len();
        let mut map = vec![usize::MAX; n];
        let mut next = 0;
        (0..n)
            .map(|i| {
                let r = self.find(i);
                if map[r] == usize::MAX {
                    map[r] = next;
                    next += 1;
                }
                map[r]
            })
            .collect()
    }
}

fn canon_labels(l: &[usize]) -> Vec<usize> {
    let mut map = std::collections::BTreeMap::new();
    l.iter()
        .map(|v| {
            let nx = map.len();
            *map.entry(*v).or_insert(nx)
        })
        .collect()
}

/// one merge of a dendrogram in terms of a representative leaf of either side
#[derive(Clone, Debug)]
struct Merge {
    a: usize,
    b: usize,
    h: f64,
}

struct RefDend {
    merges: Vec<Merge>,
    /// the merge order was decided by a margin below the noise band somewhere
    tie: bool,
    /// heights are not non-decreasing / contain NaN
    inversion: bool,
}

/// Naive agglomeration by the definitions (global minimum pair, Lance-Williams update), f64.
fn ref_linkage(cond: &[f64], n: usize, method: Method, band_units: f64) -> RefDend {
    let sq = on_squares(method);
    let mut dm = vec![0.0f64; n * n];
    let mut p = 0;
    let mut dmax: f64 = 0.0;
    for i in 0..n {
        for j in (i + 1)..n {
            let v = if sq { cond[p] * cond[p] } else { cond[p] };
            dm[i * n + j] = v;
            dm[j * n + i] = v;
            dmax = dmax.max(v.abs());
            p += 1;
        }
    }
    let band = band_units * dmax;
    let mut active: Vec<usize> = (0..n).collect();
    let mut size = vec![1.0f64; n];
    let mut merges = vec![];
    let mut tie = false;
    let mut inversion = false;
    let mut last = f64::NEG_INFINITY;
    while active.len() > 1 {
        let (mut best, mut second) = (f64::INFINITY, f64::INFINITY);
        let (mut ba, mut bb) = (usize::MAX, usize::MAX);
        let mut nan = false;
        for (ia, &a) in active.iter().enumerate() {
            for &b in &active[ia + 1..] {
                let v = dm[a * n + b];
                if v.is_nan() {
                    nan = true;
                }
                if v < best {
                    second = best;
                    best = v;
                    ba = a;
                    bb = b;
                } else if v < second {
                    second = v;
                }
            }
        }
        if nan || ba == usize::MAX {
            // not orderable: give up, flag as tie + inversion so that nothing is judged strictly
            return RefDend { merges, tie: true, inversion: true };
        }
        if second - best <= band {
            tie = true;
        }
        let h = if sq { best.sqrt() } else { best };
        if h.is_nan() || h < last {
            inversion = true;
        }
        if !h.is_nan() {
            last = last.max(h);
        }
        merges.push(Merge { a: ba, b: bb, h });
        let (na, nb) = (size[ba], size[bb]);
        let dab = best;
        for &x in &active {
            if x == ba || x == bb {
                continue;
            }
            let (dax, dbx, nx) = (dm[ba * n + x], dm[bb * n + x], size[x]);
            let v = match method {
                Method::Single => dax.min(dbx),
                Method::Complete => dax.max(dbx),
                Method::Average => (na * dax + nb * dbx) / (na + nb),
                Method::Weighted => 0.5 * (dax + dbx),
                Method::Ward => ((na + nx) * dax + (nb + nx) * dbx - nx * dab) / (na + nb + nx),
                Method::Centroid => (na * dax + nb * dbx) / (na + nb) - na * nb * dab / ((na + nb) * (na + nb)),
                Method::Median => 0.5 * dax + 0.5 * dbx - 0.25 * dab,
            };
            dm[ba * n + x] = v;
            dm[x * n + ba] = v;
        }
        size[ba] = na + nb;
        active.retain(|&x| x != bb);
    }
    RefDend { merges, tie, inversion }
}

/// dendrogram returned by kodama, rewritten in terms of representative leaves
fn kodama_dend<F: Float>(cond: &[F], n: usize, method: Method) -> Result<Vec<Merge>, String> {
    let mut buf = cond.to_vec();
    let dend = guarded(|| kodama::linkage(&mut buf, n, method))?;
    let mut rep: Vec<usize> = (0..n).collect();
    let mut out = vec![];
    for st in dend.steps() {
        if st.cluster1 >= rep.len() || st.cluster2 >= rep.len() {
            return Err("kodama step refers to an unknown cluster".into());
        }
        out.push(Merge { a: rep[st.cluster1], b: rep[st.cluster2], h: f(st.dissimilarity) });
        rep.push(rep[st.cluster1].min(rep[st.cluster2]));
    }
    Ok(out)
}

fn cut_prefix(n: usize, merges: &[Merge], m: usize) -> Vec<usize> {
    let mut uf = Uf::new(n);
    for s in merges.iter().take(m) {
        uf.union(s.a, s.b);
    }
    uf.canon()
}

/// prefix of merges with h < t (stops at the first merge that is not below t)
fn cut_below_prefix(n: usize, merges: &[Merge], t: f64) -> Vec<usize> {
    let m = merges.iter().take_while(|s| s.h < t).count();
    cut_prefix(n, merges, m)
}

/// every merge with h < t performed (each joins the complete subtrees of its two sides)
fn cut_below_all(n: usize, merges: &[Merge], t: f64) -> Vec<usize> {
    // subtree membership: replay all merges, remember for each the full leaf sets
    let mut sets: Vec<Vec<usize>> = (0..n).map(|i| vec![i]).collect();
    let mut owner: Vec<usize> = (0..n).collect(); // leaf -> index into sets of its current cluster
    let mut uf = Uf::new(n);
    for s in merges {
        let (ia, ib) = (owner[s.a], owner[s.b]);
        if ia == ib {
            continue;
        }
        if s.h < t {
            let (fa, fb) = (sets[ia].clone(), sets[ib].clone());
            for w in fa.windows(2) {
                uf.union(w[0], w[1]);
            }
            for w in fb.windows(2) {
                uf.union(w[0], w[1]);
            }
            uf.union(fa[0], fb[0]);
        }
        let moved = std::mem::take(&mut sets[ib]);
        for &l in &moved {
            owner[l] = ia;
        }
        sets[ia].extend(moved);
    }
    uf.canon()
}

/// prefix of merges that are not (h >= t): differs from cut_below_prefix only on NaN heights
fn cut_not_ge_prefix(n: usize, merges: &[Merge], t: f64) -> Vec<usize> {
    let m = merges.iter().take_while(|s| !(s.h >= t)).count();
    cut_prefix(n, merges, m)
}

fn has_inversion_at(merges: &[Merge], t: f64) -> bool {
    let mut stopped = false;
    for s in merges {
        if s.h.is_nan() {
            return true;
        }
        if !(s.h < t) {
            stopped = true;
        } else if stopped {
            return true;
        }
    }
    false
}

/// the dissimilarities of the property: -ln(max(s, 1e-6)), computed in F from the reported
/// upper triangle
fn dissimilarities<F: Float>(k: &Kernel<F>) -> Vec<F> {
    let floor = F::cast(1e-6);
    k.to_upper_triangle()
        .into_iter()
        .map(|s| if s > floor { -s.ln() } else { -floor.ln() })
        .collect()
}

fn check_labelling(labels: &[usize], n: usize, aspect: &str) -> R<usize> {
    chk!(labels.len() == n, format!("C06/{aspect}/not-every-sample-labelled"), {"labels": labels.len(), "n": n});
    let nc = {
        let mut s: Vec<usize> = labels.to_vec();
        s.sort_unstable();
        s.dedup();
        s.len()
    };
    for (i, l) in labels.iter().enumerate() {
        chk!(*l < nc, format!("C06/{aspect}/label-out-of-range"), {"i": i, "label": l, "clusters": nc});
    }
    Ok(nc)
}

struct HierSetup<F: Float> {
    n: usize,
    kernel: Kernel<F>,
    cond: Vec<F>,
    cond64: Vec<f64>,
    desc: String,
    floor_hits: usize,
}

fn hier_setup<F: Float>(c: &mut Case, nmax: usize) -> HierSetup<F> {
    let n = match c.idx % 20 {
        0 => 1,
        1 => 2,
        2 => 3,
        3 => 0,
        _ => c.rng.gen_range(4..=nmax),
    };
    let d = c.rng.gen_range(1..=4);
    let style = STYLES[(c.idx as usize / 3) % STYLES.len()];
    let x = gen_records(&mut c.rng, n, d, style);
    let (xf, rows) = cast_records::<F>(&x);
    // mostly Gaussian kernels whose similarities stay above the 1e-6 floor; some with a small
    // bandwidth (floor ties), some linear / polynomial (negative or floored dissimilarities),
    // some sparse (unstored pairs sit at the floor)
    let mut dmax: f64 = 0.0;
    for i in 0..n {
        for j in 0..i {
            dmax = dmax.max(sqdist(&rows[i], &rows[j]));
        }
    }
    if dmax == 0.0 {
        dmax = 1.0;
    }
    let km = match c.rng.gen_range(0..10) {
        0..=5 => Km::Gauss(dmax / gen::uniform(&mut c.rng, 0.5, 12.0)),
        6 => Km::Gauss(dmax / gen::uniform(&mut c.rng, 12.0, 60.0)),
        7 => Km::Lin,
        _ => Km::Poly(gen::uniform(&mut c.rng, 0.0, 2.0), c.rng.gen_range(1..=3) as f64),
    }
    .rounded::<F>();
    let kind = if n >= 3 && c.rng.gen_range(0..6) == 0 {
        KernelType::Sparse(c.rng.gen_range(1..n))
    } else {
        KernelType::Dense
    };
    let params = Kernel::<F>::params_with_nn(Nn::LinearSearch).kind(kind.clone()).method(km.to::<F>());
    let kernel: Kernel<F> = params.transform(xf.view());
    let cond = dissimilarities(&kernel);
    let cond64: Vec<f64> = cond.iter().map(|v| f(*v)).collect();
    let floor = f(-F::cast(1e-6).ln());
    let floor_hits = cond64.iter().filter(|v| **v == floor).count();
    c.note("n", json!(n));
    c.note("d", json!(d));
    c.note("style", json!(style));
    c.note("kernel", km.json());
    c.note("kind", json!(format!("{kind:?}")));
    c.note("elem", json!(fname::<F>()));
    HierSetup {
        n,
        kernel,
        cond,
        cond64,
        desc: format!("{} {} {kind:?} n{n} {style} {:x}", fname::<F>(), km.name(), data_hash(&rows)),
        floor_hits,
    }
}

fn run_hier<F: Float>(idx: u64, hc: HierarchicalCluster<F>, kernel: &Kernel<F>, as_dataset: bool) -> Result<(Vec<usize>, bool), String> {
    watched(idx, || run_hier_inner(hc, kernel, as_dataset))
}

fn run_hier_inner<F: Float>(hc: HierarchicalCluster<F>, kernel: &Kernel<F>, as_dataset: bool) -> Result<(Vec<usize>, bool), String> {
    let k = kernel.clone();
    if as_dataset {
        let ds = DatasetBase::new(k, vec![7u8; kernel.size()]);
        match hc.transform(ds) {
            Ok(r) => {
                let same = *r.records() == *kernel;
                Ok((r.targets().clone(), same))
            }
            Err(e) => Err(format!("{e}")),
        }
    } else {
        match hc.transform(k) {
            Ok(r) => {
                let same = *r.records() == *kernel;
                Ok((r.targets().clone(), same))
            }
            Err(e) => Err(format!("{e}")),
        }
    }
}

// ---------------------------------------------------------------- hierarchical: cluster counts

fn hier_count_case<F: Float>(c: &mut Case) -> Outcome {
    let s = hier_setup::<F>(c, c.tier.pick(20, 32));
    let n = s.n;
    let (method, mname) = METHODS[(c.idx as usize / 2) % 7];
    c.note("linkage", json!(mname));
    let refd = ref_linkage(&s.cond64, n, method, BAND_LINK * eps_of::<F>());
    let kd = match kodama_dend(&s.cond, n, method) {
        Ok(k) => k,
        Err(e) => return inconclusive(format!("kodama itself panics on these dissimilarities: {e}")),
    };
    ensure!(kd.len() == n.saturating_sub(1), "C06/hier-count/kodama-step-count", {"steps": kd.len(), "n": n});
    let strict = !refd.tie;
    if strict {
        c.count("count-cases-strict-vs-naive-reference");
    } else {
        c.count("count-cases-tie-class");
    }
    let mut evals = 0;
    for req in 1..=(n + 2) {
        let hc = HierarchicalCluster::<F>::default().with_method(method).num_clusters(req);
        let (labels, same_kernel) = match run_hier(c.idx, hc, &s.kernel, req % 2 == 0) {
            Ok(v) => v,
            Err(e) => bail!("C06/hier-count/valid-request-rejected", {"requested": req, "n": n, "error": e}),
        };
        evals += 1;
        ensure!(same_kernel, "C06/hier-count/kernel-not-returned-intact", {"requested": req, "n": n});
        let nc = match check_labelling(&labels, n, "hier-count") {
            Ok(nc) => nc,
            Err(o) => return o,
        };
        let want = req.min(n);
        ensure!(nc == want, "C06/hier-count/wrong-number-of-clusters",
                {"requested": req, "n": n, "clusters": nc, "expected": want, "linkage": mname, "labels": labels});
        // the c clusters are those of the dendrogram after n - c merges
        let got = canon_labels(&labels);
        let kcut = cut_prefix(n, &kd, n - want);
        ensure!(got == kcut, "C06/hier-count/partition-is-not-the-dendrogram-cut",
                {"requested": req, "n": n, "linkage": mname, "got": got, "expected": kcut});
        if strict {
            let rcut = cut_prefix(n, &refd.merges, n - want);
            ensure!(got == rcut, "C06/hier-count/partition-differs-from-naive-agglomeration",
                    {"requested": req, "n": n, "linkage": mname, "got": got, "expected": rcut, "dissimilarities": s.cond64});
        }
    }
    c.evals = evals;
    held(n >= 3, format!("{mname} {}", s.desc))
}

// ---------------------------------------------------------------- hierarchical: distance thresholds

fn hier_threshold_case<F: Float>(c: &mut Case) -> Outcome {
    let s = hier_setup::<F>(c, c.tier.pick(20, 32));
    let n = s.n;
    let (method, mname) = METHODS[(c.idx as usize / 2) % 7];
    c.note("linkage", json!(mname));
    let epsf = eps_of::<F>();
    let refd = ref_linkage(&s.cond64, n, method, BAND_LINK * epsf);
    let kd = match kodama_dend(&s.cond, n, method) {
        Ok(k) => k,
        Err(e) => return inconclusive(format!("kodama itself panics on these dissimilarities: {e}")),
    };
    let absmax = s.cond64.iter().fold(0.0f64, |a, v| a.max(v.abs()));
    let hmax = kd.iter().chain(refd.merges.iter()).filter(|m| m.h.is_finite()).fold(absmax, |a, m| a.max(m.h.abs()));
    let hband = BAND_LINK * epsf * hmax;

    // thresholds (as F values): exactly at every merge height, midpoints, outside, zero
    let mut ts: Vec<F> = vec![F::zero()];
    let mut heights: Vec<f64> = kd.iter().map(|m| m.h).filter(|h| h.is_finite()).collect();
    if matches!(method, Method::Single | Method::Complete) {
        heights.extend(refd.merges.iter().map(|m| m.h).filter(|h| h.is_finite()));
    }
    heights.sort_by(|a, b| a.partial_cmp(b).unwrap());
    heights.dedup();
    for (i, h) in heights.iter().enumerate() {
        if *h >= 0.0 {
            ts.push(F::cast(*h + 0.0));
        }
        if i + 1 < heights.len() {
            let mid = 0.5 * (h + heights[i + 1]);
            if mid >= 0.0 {
                ts.push(F::cast(mid));
            }
        }
    }
    if let (Some(lo), Some(hi)) = (heights.first(), heights.last()) {
        if *lo > 0.0 {
            ts.push(F::cast(0.5 * lo));
        }
        ts.push(F::cast(hi.abs() * 1.5 + 1.0));
        ts.push(F::max_value());
    }
    // a few random thresholds in the range of the dissimilarities
    for _ in 0..3 {
        ts.push(F::cast(gen::uniform(&mut c.rng, 0.0, absmax * 1.1 + 1e-3)));
    }
    let max_t = c.tier.pick(40, 90);
    if ts.len() > max_t {
        // keep a deterministic spread
        let step = ts.len() as f64 / max_t as f64;
        ts = (0..max_t).map(|i| ts[(i as f64 * step) as usize]).collect();
    }

    let mut evals = 0;
    let mut strict_ref = 0u64;
    let mut exact_at = 0u64;
    for (ti, tf) in ts.iter().enumerate() {
        let t = f(*tf);
        if !(t >= 0.0) || !t.is_finite() {
            continue;
        }
        let hc = HierarchicalCluster::<F>::default().with_method(method).max_distance(*tf);
        let (labels, same_kernel) = match run_hier(c.idx, hc, &s.kernel, ti % 2 == 1) {
            Ok(v) => v,
            Err(e) => bail!("C06/hier-threshold/valid-threshold-rejected", {"threshold": t, "n": n, "error": e}),
        };
        evals += 1;
        ensure!(same_kernel, "C06/hier-threshold/kernel-not-returned-intact", {"threshold": t, "n": n});
        if let Err(o) = check_labelling(&labels, n, "hier-threshold") {
            return o;
        }
        let got = canon_labels(&labels);
        let at_height = kd.iter().any(|m| m.h == t);
        if at_height {
            exact_at += 1;
        }
        // judge 1: single linkage = connected components of the graph {d < t}
        if method == Method::Single {
            let mut uf = Uf::new(n);
            let mut p = 0;
            for i in 0..n {
                for j in (i + 1)..n {
                    if s.cond64[p] < t {
                        uf.union(i, j);
                    }
                    p += 1;
                }
            }
            let want = uf.canon();
            ensure!(got == want, "C06/hier-threshold/single-linkage-not-the-components-of-the-threshold-graph",
                    {"threshold": t, "n": n, "got": got, "expected": want, "threshold_equals_a_merge_height": at_height,
                     "dissimilarities": s.cond64});
            c.count("single-linkage-component-checks");
        }
        // judge 2: cut of kodama's own dendrogram (replay and stop arithmetic)
        let kp = cut_below_prefix(n, &kd, t);
        if has_inversion_at(&kd, t) {
            // centroid / median inversions (or NaN heights): "every merge below the threshold" is
            // ambiguous; accept stopping at the first merge not below, or performing all that are
            let ka = cut_below_all(n, &kd, t);
            let kq = cut_not_ge_prefix(n, &kd, t);
            c.count("threshold-inversion-ambiguity-class");
            if kd.iter().any(|m| m.h.is_nan()) {
                c.count("threshold-nan-height-ambiguity-class");
            }
            ensure!(got == kp || got == ka || got == kq, "C06/hier-threshold/partition-is-not-a-dendrogram-cut(inversion)",
                    {"threshold": t, "n": n, "linkage": mname, "got": got, "prefix": kp, "all_below": ka});
        } else {
            ensure!(got == kp, "C06/hier-threshold/partition-is-not-the-dendrogram-cut",
                    {"threshold": t, "n": n, "linkage": mname, "got": got, "expected": kp,
                     "threshold_equals_a_merge_height": at_height,
                     "heights": kd.iter().map(|m| m.h).collect::<Vec<_>>()});
        }
        // judge 3: naive agglomeration, where its merge order and the comparison with t are
        // decided by more than the noise band
        let exact_heights = matches!(method, Method::Single | Method::Complete);
        let clear = refd.merges.iter().all(|m| (m.h - t).abs() > hband || (exact_heights && m.h.is_finite()));
        if !refd.tie && !refd.inversion && clear {
            let want = cut_below_prefix(n, &refd.merges, t);
            ensure!(got == want, "C06/hier-threshold/partition-differs-from-naive-agglomeration",
                    {"threshold": t, "n": n, "linkage": mname, "got": got, "expected": want,
                     "heights": refd.merges.iter().map(|m| m.h).collect::<Vec<_>>(), "dissimilarities": s.cond64});
            strict_ref += 1;
        }
    }
    // residual between kodama's heights and the naive ones (monotone, tie free cases)
    if !refd.tie && !refd.inversion && kd.len() == refd.merges.len() && hmax > 0.0 {
        for (a, b) in kd.iter().zip(&refd.merges) {
            c.resid(&format!("merge-height {} [eps*hmax]", fname::<F>()), (a.h - b.h).abs() / (epsf * hmax));
        }
    }
    c.evals = evals;
    c.count_n("threshold-checks-vs-naive-reference", strict_ref);
    c.count_n("threshold-exactly-at-merge-height", exact_at);
    if refd.tie {
        c.count("threshold-cases-tie-class");
    }
    if s.floor_hits > 0 {
        c.count("cases-with-similarities-at-the-floor");
    }
    held(n >= 3 && (strict_ref > 0 || method == Method::Single), format!("{mname} {}", s.desc))
}

// ---------------------------------------------------------------- exhaustive small scope

/// every point sequence on a tiny integer lattice (n <= 5 points in {0,1,2}x{0,1}), every k, every
/// index, every linkage, every cluster count and every threshold at / between the distinct
/// dissimilarities
fn small_scope_case(c: &mut Case) -> Outcome {
    // 6 lattice points; a case is a sequence of n points given by c.idx
    let pts: [[f64; 2]; 6] = [[0., 0.], [1., 0.], [2., 0.], [0., 1.], [1., 1.], [2., 1.]];
    // idx enumerates all sequences of n = 2, 3, 4, 5 lattice points (36 + 216 + 1296 + 7776)
    let mut code = c.idx as usize;
    let mut n = 2;
    while code >= 6usize.pow(n as u32) {
        code -= 6usize.pow(n as u32);
        n += 1;
    }
    let mut rows = vec![];
    for _ in 0..n {
        rows.push(pts[code % 6].to_vec());
        code /= 6;
    }
    let x = Array2::from_shape_fn((n, 2), |(i, j)| rows[i][j]);
    c.note("points", json!(rows));
    let km = Km::Gauss(4.0);
    let truth = nn_truth::<f64>(&rows);
    let mut evals = 0;
    // sparse patterns
    for k in 1..n {
        for nn in [Nn::LinearSearch, Nn::KdTree, Nn::BallTree] {
            let params = Kernel::<f64>::params_with_nn(nn.clone()).kind(KernelType::Sparse(k)).method(km.to::<f64>());
            let kern: Kernel<f64> = params.transform(x.view());
            evals += 1;
            let sm = match &kern.inner {
                KernelInner::Sparse(sm) => sm,
                _ => bail!("C06/kind/sparse-requested-dense-built", {"n": n, "k": k}),
            };
            for i in 0..n {
                let mut own = 0;
                for j in 0..n {
                    let st = sm.get(i, j).is_some();
                    if i == j {
                        ensure!(st, "C06/sparse/diagonal-not-stored", {"i": i, "k": k, "n": n});
                        continue;
                    }
                    ensure!(st == sm.get(j, i).is_some(), "C06/sparse/pattern-not-symmetric", {"i": i, "j": j, "k": k, "n": n});
                    let dij = truth.d2[i * n + j];
                    if truth.surely_in(n, i, j, k) || truth.surely_in(n, j, i, k) {
                        ensure!(st, "C06/sparse/neighbour-pair-missing", {"i": i, "j": j, "k": k, "n": n, "index": format!("{nn:?}")});
                    } else if truth.surely_out(n, i, j, k) && truth.surely_out(n, j, i, k) {
                        ensure!(!st, "C06/sparse/non-neighbour-pair-stored", {"i": i, "j": j, "k": k, "n": n, "index": format!("{nn:?}")});
                    } else {
                        c.count("tie-class-pairs");
                    }
                    if st && !truth.surely_out(n, i, j, k) {
                        own += 1;
                    }
                    if st {
                        let want = (-dij / 4.0).exp();
                        ensure!((*sm.get(i, j).unwrap() - want).abs() <= 8.0 * f64::EPSILON, "C06/sparse/cell-differs-from-kernel-function",
                                {"i": i, "j": j, "got": sm.get(i, j), "expected": want});
                    }
                }
                ensure!(own >= k, "C06/sparse/fewer-than-k-neighbours-stored", {"i": i, "k": k, "n": n, "stored_within_dk": own});
            }
        }
    }
    // hierarchical on the dense kernel
    let kernel: Kernel<f64> = Kernel::<f64>::params().method(km.to::<f64>()).transform(x.view());
    let cond = dissimilarities(&kernel);
    let mut levels: Vec<f64> = cond.clone();
    levels.sort_by(|a, b| a.partial_cmp(b).unwrap());
    levels.dedup();
    for (method, mname) in METHODS {
        let kd = match kodama_dend(&cond, n, method) {
            Ok(k) => k,
            Err(e) => return inconclusive(format!("kodama panics: {e}")),
        };
        for req in 1..=n + 1 {
            let hc = HierarchicalCluster::<f64>::default().with_method(method).num_clusters(req);
            let (labels, _) = match run_hier(c.idx, hc, &kernel, false) {
                Ok(v) => v,
                Err(e) => bail!("C06/hier-count/valid-request-rejected", {"requested": req, "error": e}),
            };
            evals += 1;
            let nc = match check_labelling(&labels, n, "hier-count") {
                Ok(v) => v,
                Err(o) => return o,
            };
            ensure!(nc == req.min(n), "C06/hier-count/wrong-number-of-clusters",
                    {"requested": req, "n": n, "clusters": nc, "expected": req.min(n), "linkage": mname, "labels": labels});
        }
        let mut ts = vec![0.0];
        for (i, l) in levels.iter().enumerate() {
            ts.push(*l + 0.0);
            ts.push(if i + 1 < levels.len() { 0.5 * (l + levels[i + 1]) } else { l + 1.0 });
        }
        for h in kd.iter().map(|m| m.h).filter(|h| h.is_finite() && *h >= 0.0) {
            ts.push(h + 0.0);
        }
        for t in ts {
            let hc = HierarchicalCluster::<f64>::default().with_method(method).max_distance(t);
            let (labels, _) = match run_hier(c.idx, hc, &kernel, false) {
                Ok(v) => v,
                Err(e) => bail!("C06/hier-threshold/valid-threshold-rejected", {"threshold": t, "error": e}),
            };
            evals += 1;
            if let Err(o) = check_labelling(&labels, n, "hier-threshold") {
                return o;
            }
            let got = canon_labels(&labels);
            if method == Method::Single {
                let mut uf = Uf::new(n);
                let mut p = 0;
                for i in 0..n {
                    for j in (i + 1)..n {
                        if cond[p] < t {
                            uf.union(i, j);
                        }
                        p += 1;
                    }
                }
                let want = uf.canon();
                ensure!(got == want, "C06/hier-threshold/single-linkage-not-the-components-of-the-threshold-graph",
                        {"threshold": t, "n": n, "got": got, "expected": want, "dissimilarities": cond});
            }
            let kp = cut_below_prefix(n, &kd, t);
            if has_inversion_at(&kd, t) {
                let ka = cut_below_all(n, &kd, t);
                let kq = cut_not_ge_prefix(n, &kd, t);
                ensure!(got == kp || got == ka || got == kq, "C06/hier-threshold/partition-is-not-a-dendrogram-cut(inversion)",
                        {"threshold": t, "n": n, "linkage": mname, "got": got, "prefix": kp, "all_below": ka});
            } else {
                ensure!(got == kp, "C06/hier-threshold/partition-is-not-the-dendrogram-cut",
                        {"threshold": t, "n": n, "linkage": mname, "got": got, "expected": kp});
            }
        }
    }
    c.evals = evals;
    held(true, format!("lattice {}", c.idx))
}

// ---------------------------------------------------------------- entry point

pub fn run(ctx: &Ctx) {
    ctx.set_rule(
        "records: n<=56 rows, d<=6, eight styles (normal, offset, integer lattice, blobs with duplicate rows, \
         column scaling 1e-3..1e3, equally spaced line, identical rows, uniform), f32 and f64, C / F / strided layouts; \
         kernel method drawn per case. dense: non-trivial = n>=2, d>=1 and at least one cell judged by the kernel \
         function; sparse: every 0<k<n x {linear,kdtree,balltree}, non-trivial = at least one pattern free of \
         distance ties; hierarchical: seven linkages, every cluster count 1..n+2, thresholds at and between all merge \
         heights, non-trivial = n>=3 and (for thresholds) at least one threshold judged by the naive agglomeration \
         or single linkage; distinct = element type, method, shape, style and a hash of the data",
    );
    ctx.assume("kernel functions as documented and pinned by the crate's tests: <x,y>, exp(-|x-y|^2/eps), (<x,y>+c)^deg; harness evaluates them in f64 on the exact element values");
    ctx.assume("neighbour ties (squared distances closer than 64*eps_F*diam*(diam+|x|max)) may be broken either way");
    ctx.assume("kodama::linkage is trusted for the dendrogram-cut judge; the naive Lance-Williams judge and the single-linkage component judge do not trust it");
    ctx.assume("centroid/median inversions and NaN heights (kodama's domain): 'stop at the first merge not below t', 'perform every merge below t' and (NaN only) 'stop at the first merge with h >= t' are all accepted");

    let done = std::sync::atomic::AtomicBool::new(false);
    std::thread::scope(|sc| {
        sc.spawn(|| watchdog(ctx, &done));
        run_families(ctx);
        done.store(true, std::sync::atomic::Ordering::SeqCst);
    });
}

fn run_families(ctx: &Ctx) {
    let q = ctx.tier;
    let t0 = std::time::Instant::now();
    let lap = |name: &str| {
        if std::env::var("C06_TIMING").is_ok() {
            eprintln!("[timing] {name} done at {:.1}s", t0.elapsed().as_secs_f64());
        }
    };
    ctx.family("dense-f64", q.pick(3000, 14000), |c| dense_case::<f64>(c));
    lap("dense-f64");
    ctx.family("dense-f32", q.pick(2000, 9000), |c| dense_case::<f32>(c));
    lap("dense-f32");
    ctx.family("sparse-f64", q.pick(900, 3000), |c| sparse_case::<f64>(c));
    lap("sparse-f64");
    ctx.family("sparse-f32", q.pick(600, 2000), |c| sparse_case::<f32>(c));
    lap("sparse-f32");
    ctx.family("forms", q.pick(1000, 4000), |c| {
        if c.idx % 2 == 0 {
            forms_case::<f64>(c)
        } else {
            forms_case::<f32>(c)
        }
    });
    lap("forms");
    ctx.family("hier-count-f64", q.pick(6000, 30000), |c| hier_count_case::<f64>(c));
    lap("hier-count-f64");
    ctx.family("hier-count-f32", q.pick(3000, 12000), |c| hier_count_case::<f32>(c));
    lap("hier-count-f32");
    ctx.family("hier-threshold-f64", q.pick(8000, 36000), |c| hier_threshold_case::<f64>(c));
    lap("hier-threshold-f64");
    ctx.family("hier-threshold-f32", q.pick(4000, 18000), |c| hier_threshold_case::<f32>(c));
    lap("hier-threshold-f32");
    // complete enumeration: sequences of 2..5 points out of a 3x2 lattice (with repetition)
    let total = 36 + 216 + 1296 + 7776;
    ctx.family("small-scope", total, small_scope_case);
    lap("small-scope");
    ctx.set_exhaustive("point sequences of length 2..5 on a 3x2 lattice x all k x 3 indices x 7 linkages x all counts x all thresholds at/between dissimilarity levels and merge heights", true);
}
