//! C02 — dataset operations keep record, target and weight of a sample together.
//!
//! History monitor. A *base* dataset is identity-tagged: record cell (i, j) holds `i*P0 + j`, the
//! weight of sample i is `i + 0.5 (+ 4096*g after the g-th with_weights)`, feature j is named
//! `f<j>`, target column c `t<c>`, and the label of (i, c) comes from a per-case code table
//! (either all-distinct "identity" codes or a small alphabet, so that label filtering and
//! one-vs-all are non-trivial). A *program* of dataset operations is applied one after another to
//! the real linfa values: the output of one operation is the input of the next (owned datasets are
//! moved, views borrow the value held by the previous step's stack frame - the recursion
//! `go_own -> go_view -> go_cown ...` is what keeps the borrow alive). Nothing is re-materialised
//! by the harness between steps.
//!
//! After every operation every returned dataset is read back through the public accessors only
//! (`records()`, `targets()`/`as_targets()`, `weights()`, `feature_names()`, `target_names()`,
//! `label_count()`, `nsamples()`, `nfeatures()`, `ntargets()`) and judged:
//!   1. alignment by identity: all cells of a record row decode to one sample id, the target cells
//!      of that row are the labels of that sample (through the chain of target maps applied so
//!      far), the weight is the weight of that sample, a carried name is the name of the column
//!      the cells decode to;
//!   2. the selection law of the operation from the property text (prefix/suffix of
//!      ceil(n*ratio) in f32, permutation, draws from existing rows/columns, label filter,
//!      one binary view per distinct label, consecutive chunks, item i = row/column i);
//!   3. cached label counts == recount of the wrapped targets;
//!   4. operations taking `&self` leave their source unchanged.
//! All comparisons are exact (integers, labels, bit-exact small floats).
use crate::fw::*;
use linfa::dataset::{
    AsTargets, CountedTargets, DatasetBase, Label, Labels, Records, TargetDim,
};
use ndarray::{
    Array, Array1, Array2, ArrayBase, ArrayView, ArrayView2, Axis, Data, Ix1, Ix2, ShapeBuilder,
    Slice,
};
use rand::{Rng as _, SeedableRng};
use serde_json::{json, Value};
use std::collections::{BTreeMap, BTreeSet, VecDeque};

// ------------------------------------------------------------------------------------------------
// element / label / dimension abstractions
// ------------------------------------------------------------------------------------------------

pub trait Fl: Copy + Send + Sync + std::fmt::Debug + PartialEq + 'static {
    const NAME: &'static str;
    fn tag(u: usize) -> Self;
    fn val(self) -> f64;
    fn poison() -> Self;
}
impl Fl for f64 {
    const NAME: &'static str = "f64";
    fn tag(u: usize) -> f64 {
        u as f64
    }
    fn val(self) -> f64 {
        self
    }
    fn poison() -> f64 {
        -7.0
    }
}
impl Fl for f32 {
    const NAME: &'static str = "f32";
    fn tag(u: usize) -> f32 {
        u as f32
    }
    fn val(self) -> f64 {
        self as f64
    }
    fn poison() -> f32 {
        -7.0
    }
}

#[derive(Clone, Copy, PartialEq, Eq, Debug)]
pub enum LabKind {
    Usize,
    Bool,
    Str,
}
const STRN: usize = 4096;
const BAD_CODE: usize = usize::MAX - 1;
fn canon(k: LabKind, c: usize) -> usize {
    match k {
        LabKind::Usize => c,
        LabKind::Bool => c % 2,
        LabKind::Str => c % STRN,
    }
}
fn str_table() -> &'static Vec<&'static str> {
    static T: std::sync::OnceLock<Vec<&'static str>> = std::sync::OnceLock::new();
    T.get_or_init(|| {
        (0..STRN)
            .map(|i| &*Box::leak(format!("s{i}").into_boxed_str()))
            .collect()
    })
}

pub trait Lab: Label + Copy + Send + Sync + 'static {
    const KIND: LabKind;
    fn from_code(c: usize) -> Self;
    fn code(&self) -> usize;
}
impl Lab for usize {
    const KIND: LabKind = LabKind::Usize;
    fn from_code(c: usize) -> usize {
        c
    }
    fn code(&self) -> usize {
        *self
    }
}
impl Lab for bool {
    const KIND: LabKind = LabKind::Bool;
    fn from_code(c: usize) -> bool {
        c % 2 == 1
    }
    fn code(&self) -> usize {
        *self as usize
    }
}
impl Lab for &'static str {
    const KIND: LabKind = LabKind::Str;
    fn from_code(c: usize) -> &'static str {
        str_table()[c % STRN]
    }
    fn code(&self) -> usize {
        self.strip_prefix('s')
            .and_then(|d| d.parse::<usize>().ok())
            .filter(|c| *c < STRN)
            .unwrap_or(BAD_CODE)
    }
}

type Own<F, L, I> = DatasetBase<Array2<F>, Array<L, I>>;
type Vw<'a, F, L, I> = DatasetBase<ArrayView2<'a, F>, ArrayView<'a, L, I>>;
type COwn<F, L, I> = DatasetBase<Array2<F>, CountedTargets<L, Array<L, I>>>;
type CVw<'a, F, L, I> = DatasetBase<ArrayView2<'a, F>, CountedTargets<L, ArrayView<'a, L, I>>>;
type VOwn<'a, F, L, I> = DatasetBase<ArrayView2<'a, F>, Array<L, I>>;
type VCOwn<'a, F, L, I> = DatasetBase<ArrayView2<'a, F>, CountedTargets<L, Array<L, I>>>;

/// target dimension (Ix1 / Ix2) with the operations that exist for one of them only
pub trait TD: TargetDim + 'static {
    const IX1: bool;
    /// n x t cells in row-major order -> target array (t must be 1 for Ix1)
    fn build<L: Lab>(cells: Vec<L>, n: usize, t: usize, forder: bool) -> Array<L, Self>;
    #[allow(clippy::type_complexity)]
    fn ova<'x, F: Fl, L: Lab, D: Data<Elem = F>, T>(
        ds: &'x DatasetBase<ArrayBase<D, Ix2>, T>,
    ) -> Option<Vec<(L, VCOwn<'x, F, bool, Ix1>)>>
    where
        T: AsTargets<Elem = L, Ix = Self> + Labels<Elem = L>;
    fn into_single<F: Fl, L: Lab>(ds: Own<F, L, Self>) -> Option<Own<F, L, Ix1>>;
}
impl TD for Ix1 {
    const IX1: bool = true;
    fn build<L: Lab>(cells: Vec<L>, n: usize, _t: usize, _forder: bool) -> Array1<L> {
        assert_eq!(cells.len(), n);
        Array1::from_vec(cells)
    }
    fn ova<'x, F: Fl, L: Lab, D: Data<Elem = F>, T>(
        ds: &'x DatasetBase<ArrayBase<D, Ix2>, T>,
    ) -> Option<Vec<(L, VCOwn<'x, F, bool, Ix1>)>>
    where
        T: AsTargets<Elem = L, Ix = Ix1> + Labels<Elem = L>,
    {
        ds.one_vs_all().ok()
    }
    fn into_single<F: Fl, L: Lab>(_ds: Own<F, L, Ix1>) -> Option<Own<F, L, Ix1>> {
        None
    }
}
impl TD for Ix2 {
    const IX1: bool = false;
    fn build<L: Lab>(cells: Vec<L>, n: usize, t: usize, forder: bool) -> Array2<L> {
        if forder {
            let mut cm = Vec::with_capacity(n * t);
            for c in 0..t {
                for r in 0..n {
                    cm.push(cells[r * t + c]);
                }
            }
            Array2::from_shape_vec((n, t).f(), cm).unwrap()
        } else {
            Array2::from_shape_vec((n, t), cells).unwrap()
        }
    }
    fn ova<'x, F: Fl, L: Lab, D: Data<Elem = F>, T>(
        _ds: &'x DatasetBase<ArrayBase<D, Ix2>, T>,
    ) -> Option<Vec<(L, VCOwn<'x, F, bool, Ix1>)>>
    where
        T: AsTargets<Elem = L, Ix = Ix2> + Labels<Elem = L>,
    {
        None
    }
    fn into_single<F: Fl, L: Lab>(ds: Own<F, L, Ix2>) -> Option<Own<F, L, Ix1>> {
        Some(ds.into_single_target())
    }
}

// ------------------------------------------------------------------------------------------------
// expected state (the oracle's model), observation, judgement
// ------------------------------------------------------------------------------------------------

#[derive(Clone, Debug, PartialEq)]
enum TMap {
    Affine {
        mul: usize,
        add: usize,
        modu: usize,
        to: LabKind,
    },
    Eq {
        x: usize,
    },
}
impl TMap {
    fn apply(&self, c: usize) -> usize {
        match *self {
            TMap::Affine { mul, add, modu, to } => {
                let v = c.wrapping_mul(mul).wrapping_add(add);
                canon(to, if modu == 0 { v } else { v % modu })
            }
            TMap::Eq { x } => (c == x) as usize,
        }
    }
}

struct Base {
    n0: usize,
    p0: usize,
    t0: usize,
    codes0: Vec<Vec<usize>>,
    desc: String,
}

#[derive(Clone, Debug)]
struct Exp {
    rows: Vec<usize>,
    fcols: Vec<usize>,
    tcols: Vec<usize>,
    ix1: bool,
    weights: Option<u32>,
    fnames: bool,
    tnames: bool,
    tmaps: Vec<TMap>,
    kind: LabKind,
}
impl Exp {
    fn code(&self, base: &Base, id: usize, c: usize) -> usize {
        let mut v = base.codes0[id][self.tcols[c]];
        for m in &self.tmaps {
            v = m.apply(v);
        }
        v
    }
    fn distinct_codes(&self, base: &Base) -> Vec<usize> {
        let mut s = BTreeSet::new();
        for &id in &self.rows {
            for c in 0..self.tcols.len() {
                s.insert(self.code(base, id, c));
            }
        }
        s.into_iter().collect()
    }
}
fn wexp(id: usize, g: u32) -> f32 {
    id as f32 + 0.5 + 4096.0 * g as f32
}
fn fname(j: usize) -> String {
    format!("f{j}")
}
fn tname(c: usize) -> String {
    format!("t{c}")
}

#[derive(Clone, Debug, PartialEq)]
struct Obs {
    n: usize,
    p: usize,
    rec: Vec<Vec<f64>>,
    t_rows: usize,
    t_cols: usize,
    tc: Vec<Vec<usize>>,
    weights: Option<Vec<f32>>,
    fnames: Vec<String>,
    tnames: Vec<String>,
    counts: Vec<BTreeMap<usize, usize>>,
    rep: (usize, usize, usize),
}

fn observe<F: Fl, L: Lab, D: Data<Elem = F>, T>(ds: &DatasetBase<ArrayBase<D, Ix2>, T>) -> Obs
where
    T: AsTargets<Elem = L> + Labels<Elem = L>,
{
    let r = ds.records();
    let (n, p) = r.dim();
    let rec: Vec<Vec<f64>> = r
        .outer_iter()
        .map(|row| row.iter().map(|v| v.val()).collect())
        .collect();
    let tv = ds.as_targets();
    let t_rows = tv.len_of(Axis(0));
    let t_cols = if tv.ndim() == 1 { 1 } else { tv.len_of(Axis(1)) };
    let tc: Vec<Vec<usize>> = tv
        .axis_iter(Axis(0))
        .map(|row| row.iter().map(|l| l.code()).collect())
        .collect();
    let counts = ds
        .label_count()
        .into_iter()
        .map(|m| {
            let mut b = BTreeMap::new();
            for (k, v) in m {
                *b.entry(k.code()).or_insert(0) += v;
            }
            b
        })
        .collect();
    Obs {
        n,
        p,
        rec,
        t_rows,
        t_cols,
        tc,
        weights: ds.weights().map(|w| w.to_vec()),
        fnames: ds.feature_names().to_vec(),
        tnames: ds.target_names().to_vec(),
        counts,
        rep: (ds.nsamples(), ds.nfeatures(), ds.ntargets()),
    }
}

#[derive(Clone, Copy, Debug, PartialEq)]
enum Law {
    Exact,
    Perm,
    Draw(usize),
}
struct Want<'e> {
    /// expected state: for `Exact` laws the rows/fcols are the expected result, for Perm/Draw the source
    exp: &'e Exp,
    rows: Law,
    cols: Law,
    /// the operation may legitimately return a dataset without weights / feature names / target names
    wdrop: bool,
    fdrop: bool,
    tdrop: bool,
}
impl<'e> Want<'e> {
    fn keep(exp: &'e Exp) -> Want<'e> {
        Want {
            exp,
            rows: Law::Exact,
            cols: Law::Exact,
            wdrop: false,
            fdrop: false,
            tdrop: false,
        }
    }
    fn may_drop_all(mut self) -> Self {
        self.wdrop = true;
        self.fdrop = true;
        self.tdrop = true;
        self
    }
}

type Fail = (&'static str, String);

/// decode the sample id of every record row and the original column of every record column
fn decode_records(rec: &[Vec<f64>], base: &Base) -> Result<(Vec<usize>, Option<Vec<usize>>), Fail> {
    let lim = (base.n0 * base.p0) as f64;
    let mut ids = Vec::with_capacity(rec.len());
    let mut cols: Option<Vec<usize>> = None;
    for (r, row) in rec.iter().enumerate() {
        let mut rid: Option<usize> = None;
        let mut rcols = Vec::with_capacity(row.len());
        for (j, &v) in row.iter().enumerate() {
            if !(v >= 0.0 && v.fract() == 0.0 && v < lim) {
                return Err((
                    "foreign-value",
                    format!("row {r} cell {j} holds {v}, which is not a cell of the source"),
                ));
            }
            let u = v as usize;
            let (id, col) = (u / base.p0, u % base.p0);
            match rid {
                None => rid = Some(id),
                Some(x) if x != id => {
                    return Err((
                        "record-row-mixed",
                        format!("row {r}: cell 0 belongs to sample {x}, cell {j} to sample {id}"),
                    ))
                }
                _ => {}
            }
            rcols.push(col);
        }
        match &cols {
            None => cols = Some(rcols),
            Some(c0) if *c0 != rcols => {
                return Err((
                    "record-columns-mixed",
                    format!("row 0 holds source columns {c0:?}, row {r} holds {rcols:?}"),
                ))
            }
            _ => {}
        }
        match rid {
            Some(id) => ids.push(id),
            None => return Err(("feature-count", "record row without cells".into())),
        }
    }
    Ok((ids, cols))
}

fn judge(obs: &Obs, w: &Want, base: &Base) -> Result<Exp, Fail> {
    let e = w.exp;
    let n = obs.n;
    if obs.rep.0 != n || obs.rep.1 != obs.p {
        return Err((
            "shape",
            format!(
                "nsamples()/nfeatures() = {:?} but records are {}x{}",
                (obs.rep.0, obs.rep.1),
                n,
                obs.p
            ),
        ));
    }
    if obs.t_rows != n {
        return Err((
            "rows-differ",
            format!("records have {n} rows, targets {}", obs.t_rows),
        ));
    }
    if let Some(wt) = &obs.weights {
        if wt.len() != n {
            return Err((
                "weights-length",
                format!("{} weights for {n} samples: {wt:?}", wt.len()),
            ));
        }
    }
    let t = e.tcols.len();
    if obs.t_cols != t || obs.rep.2 != t {
        return Err((
            "target-columns",
            format!(
                "{} target columns (ntargets() = {}), expected {t}",
                obs.t_cols, obs.rep.2
            ),
        ));
    }
    let p_expected = match w.cols {
        Law::Draw(k) => k,
        _ => e.fcols.len(),
    };
    if obs.p != p_expected {
        return Err((
            "feature-count",
            format!("{} feature columns, expected {p_expected}", obs.p),
        ));
    }
    let (ids, cols) = decode_records(&obs.rec, base)?;
    // targets, by identity of the record row
    for r in 0..n {
        if obs.tc[r].len() != t {
            return Err(("target-columns", format!("row {r}: {} target cells", obs.tc[r].len())));
        }
        for c in 0..t {
            let want = e.code(base, ids[r], c);
            if obs.tc[r][c] != want {
                return Err((
                    "target-misaligned",
                    format!(
                        "row {r}: record belongs to sample {} whose label in target column {} is code {want}, the row carries code {}",
                        ids[r], e.tcols[c], obs.tc[r][c]
                    ),
                ));
            }
        }
    }
    // weights, by identity
    match (&obs.weights, e.weights) {
        (Some(wt), Some(g)) => {
            for r in 0..n {
                if wt[r].to_bits() != wexp(ids[r], g).to_bits() {
                    return Err((
                        "weight-misaligned",
                        format!(
                            "row {r}: record belongs to sample {} (weight {}), the row carries weight {}",
                            ids[r],
                            wexp(ids[r], g),
                            wt[r]
                        ),
                    ));
                }
            }
        }
        (Some(wt), None) => {
            return Err((
                "weights-invented",
                format!("source carries no weights, result carries {wt:?}"),
            ))
        }
        (None, Some(_)) if n > 0 && !w.wdrop => {
            return Err(("weights-dropped", "source carries weights, result none".into()))
        }
        _ => {}
    }
    // selection law: rows
    match w.rows {
        Law::Exact => {
            if ids != e.rows {
                return Err((
                    "selection-rows",
                    format!("rows are samples {ids:?}, expected {:?}", e.rows),
                ));
            }
        }
        Law::Perm => {
            let (mut a, mut b) = (ids.clone(), e.rows.clone());
            a.sort_unstable();
            b.sort_unstable();
            if a != b {
                return Err((
                    "not-a-permutation",
                    format!("rows are samples {ids:?}, source has {:?}", e.rows),
                ));
            }
        }
        Law::Draw(k) => {
            if n != k {
                return Err(("sample-count", format!("{n} rows, requested {k}")));
            }
            let s: BTreeSet<usize> = e.rows.iter().copied().collect();
            if let Some(bad) = ids.iter().find(|i| !s.contains(i)) {
                return Err((
                    "foreign-sample",
                    format!("sample {bad} is not in the source {:?}", e.rows),
                ));
            }
        }
    }
    // selection law: feature columns
    let cols = match cols {
        Some(c) => c,
        None => match w.cols {
            // no rows: the columns cannot be decoded; take the model's word
            Law::Draw(k) => e.fcols.iter().cycle().take(k).copied().collect(),
            _ => e.fcols.clone(),
        },
    };
    match w.cols {
        Law::Draw(_) => {
            let s: BTreeSet<usize> = e.fcols.iter().copied().collect();
            if let Some(bad) = cols.iter().find(|c| !s.contains(c)) {
                return Err((
                    "foreign-feature",
                    format!("feature {bad} is not in the source {:?}", e.fcols),
                ));
            }
        }
        _ => {
            if cols != e.fcols {
                return Err((
                    "selection-columns",
                    format!("columns are source features {cols:?}, expected {:?}", e.fcols),
                ));
            }
        }
    }
    // names, by identity of the column
    if !obs.fnames.is_empty() {
        let want: Vec<String> = cols.iter().map(|j| fname(*j)).collect();
        if obs.fnames != want {
            return Err((
                "feature-name-misplaced",
                format!("columns hold features {cols:?} but are named {:?}", obs.fnames),
            ));
        }
    } else if e.fnames && !w.fdrop {
        return Err(("feature-names-dropped", "source carries feature names, result none".into()));
    }
    if !obs.tnames.is_empty() {
        let want: Vec<String> = e.tcols.iter().map(|c| tname(*c)).collect();
        if obs.tnames != want {
            return Err((
                "target-name-misplaced",
                format!("target columns are {:?} but are named {:?}", e.tcols, obs.tnames),
            ));
        }
    } else if e.tnames && !w.tdrop {
        return Err(("target-names-dropped", "source carries target names, result none".into()));
    }
    // reported label counts == recount of the targets the result wraps
    let mut recount = vec![BTreeMap::new(); t];
    for r in 0..n {
        for c in 0..t {
            *recount[c].entry(obs.tc[r][c]).or_insert(0usize) += 1;
        }
    }
    if obs.counts != recount {
        return Err((
            "label-count",
            format!("label_count() = {:?}, recount of the targets = {:?}", obs.counts, recount),
        ));
    }
    Ok(Exp {
        rows: ids,
        fcols: cols,
        tcols: e.tcols.clone(),
        ix1: e.ix1,
        weights: if obs.weights.is_some() { e.weights } else { None },
        fnames: !obs.fnames.is_empty(),
        tnames: !obs.tnames.is_empty(),
        tmaps: e.tmaps.clone(),
        kind: e.kind,
    })
}

/// ceil(n * ratio) with the product taken in single precision (the exact product of two f32 fits
/// an f64, so rounding it to f32 is the IEEE single-precision product)
fn split_point(n: usize, ratio: f32) -> usize {
    let prod = ((n as f32) as f64 * ratio as f64) as f32;
    prod.ceil() as usize
}

// ------------------------------------------------------------------------------------------------
// programs
// ------------------------------------------------------------------------------------------------

#[derive(Clone, Debug)]
enum Op {
    SplitOwned { ratio: f32, second: bool },
    SplitView { ratio: f32, second: bool },
    View,
    Shuffle,
    Bootstrap { ns: usize, nf: usize, take: usize },
    BootSamples { ns: usize, take: usize },
    BootFeatures { nf: usize, take: usize },
    WithLabels { codes: Vec<usize> },
    OneVsAll { pick: usize },
    Chunks { size: usize, pick: usize },
    SampleIter,
    TargetIter { pick: usize },
    FeatureIter { pick: usize },
    MapTargets { to: LabKind, mul: usize, add: usize, modu: usize },
    ToOwned,
    IntoSingle,
    WithWeights,
    WithNames,
}
impl Op {
    /// harness set-up steps that are not among the operations the property lists
    fn is_setup(&self) -> bool {
        matches!(self, Op::WithNames)
    }
}

#[derive(Clone, Copy)]
struct Caps {
    owned_split: bool,
    view_split: bool,
    into_single: bool,
}

enum Stop {
    Viol { sig: String, detail: Value },
    Harness(String),
    Inconclusive(String),
}
type R = Result<(), Stop>;

struct St<'s> {
    base: &'s Base,
    rng: Rng,
    maxlen: usize,
    script: Option<VecDeque<Op>>,
    steps: usize,
    linfa_ops: usize,
    log: Vec<String>,
    evals: u64,
    counters: BTreeMap<String, u64>,
    wgen: u32,
    /// number of rows of the dataset the current operation is applied to
    cur_rows: usize,
}

impl<'s> St<'s> {
    fn count(&mut self, k: &str) {
        *self.counters.entry(k.to_string()).or_insert(0) += 1;
    }
    fn viol(&self, op: &str, mode: &str, why: String) -> Stop {
        Stop::Viol {
            sig: format!("C02/{op}/{mode}"),
            detail: json!({"op": op, "why": why, "program": self.log, "base": self.base.desc}),
        }
    }
    fn guard<T>(&self, op: &str, f: impl FnOnce() -> T) -> Result<T, Stop> {
        guarded(f).map_err(|msg| {
            // ndarray 0.15.6 `from_shape_vec_unchecked` carries a debug assertion that rejects *empty*
            // arrays which keep the strides of the non-empty array they were sliced from (to_owned /
            // map of a 0-row view). It exists only in builds with debug assertions (the harness
            // profile), lies in the dependency and says nothing about the dataset operation: not
            // decided. The same assertion on a non-empty dataset stays a violation.
            if self.cur_rows == 0 && msg.contains("can_index_slice") && msg.contains("ndarray") {
                Stop::Inconclusive("ndarray debug assertion on an empty strided view (dependency, debug builds only)".into())
            } else {
                self.viol(op, "panic", msg)
            }
        })
    }
    fn fork_rng(&mut self) -> Rng {
        Rng::seed_from_u64(self.rng.gen())
    }
    fn chk<F: Fl, L: Lab, D: Data<Elem = F>, T>(
        &mut self,
        op: &'static str,
        ds: &DatasetBase<ArrayBase<D, Ix2>, T>,
        want: &Want,
    ) -> Result<Exp, Stop>
    where
        T: AsTargets<Elem = L> + Labels<Elem = L>,
    {
        self.evals += 1;
        let obs = match guarded(|| observe(ds)) {
            Ok(o) => o,
            Err(msg) => return Err(self.viol(op, "accessor-panic", msg)),
        };
        let had_w = want.exp.weights.is_some() && obs.n > 0;
        match judge(&obs, want, self.base) {
            Ok(e) => {
                if had_w && e.weights.is_none() {
                    self.count("legit-drop/weights");
                }
                if want.exp.fnames && !e.fnames {
                    self.count(&format!("legit-drop/feature-names/{op}"));
                }
                Ok(e)
            }
            Err((mode, why)) => Err(self.viol(op, mode, why)),
        }
    }
    /// `&self` operations must leave their source as it was
    fn unchanged<F: Fl, L: Lab, D: Data<Elem = F>, T>(
        &mut self,
        op: &'static str,
        ds: &DatasetBase<ArrayBase<D, Ix2>, T>,
        before: &Obs,
    ) -> R
    where
        T: AsTargets<Elem = L> + Labels<Elem = L>,
    {
        let now = observe(ds);
        if &now != before {
            return Err(self.viol(op, "source-modified", format!("before {before:?} after {now:?}")));
        }
        Ok(())
    }

    fn ratio(&mut self, n: usize) -> f32 {
        let r: f32 = match self.rng.gen_range(0..6) {
            0 => self.rng.gen_range(0..=16) as f32 / 16.0,
            1 => *crate::gen::pick(&mut self.rng, &[1.0f32 / 3.0, 2.0 / 3.0, 0.1, 0.2, 0.3, 0.7, 0.9]),
            2 if n > 0 => self.rng.gen_range(0..=n) as f32 / n as f32,
            3 if n > 0 => {
                let r = self.rng.gen_range(0..=n) as f32 / n as f32;
                let b = r.to_bits();
                f32::from_bits(if self.rng.gen_bool(0.5) { b + 1 } else { b.saturating_sub(1) })
            }
            _ => 1.0 - self.rng.gen::<f32>(),
        };
        if r.is_finite() {
            r.clamp(0.0, 1.0)
        } else {
            0.5
        }
    }

    fn next_op(&mut self, exp: &Exp, caps: Caps) -> Option<Op> {
        if let Some(s) = &mut self.script {
            return s.pop_front();
        }
        if self.steps >= self.maxlen {
            return None;
        }
        let n = exp.rows.len();
        let p = exp.fcols.len();
        let t = exp.tcols.len();
        for _ in 0..64 {
            let second = self.rng.gen_bool(0.4);
            let op = match self.rng.gen_range(0..23) {
                0 | 1 if caps.owned_split => Op::SplitOwned { ratio: self.ratio(n), second },
                0 | 1 | 2 if caps.view_split => Op::SplitView { ratio: self.ratio(n), second },
                0 | 1 | 2 | 3 => Op::View,
                4 | 5 => Op::Shuffle,
                6 if n > 0 => Op::Bootstrap {
                    ns: self.rng.gen_range(1..=(n + 3).min(48)),
                    nf: self.rng.gen_range(1..=(p + 2).min(7)),
                    take: self.rng.gen_range(1..=2),
                },
                7 => Op::BootSamples {
                    ns: if n == 0 { 0 } else { self.rng.gen_range(0..=(n + 3).min(48)) },
                    take: self.rng.gen_range(1..=2),
                },
                8 if n > 0 => Op::BootFeatures {
                    nf: self.rng.gen_range(1..=(p + 2).min(7)),
                    take: self.rng.gen_range(1..=2),
                },
                9 | 10 | 11 => {
                    let present = exp.distinct_codes(self.base);
                    let mut codes: Vec<usize> = vec![];
                    let keep_p = *crate::gen::pick(&mut self.rng, &[0.0, 0.3, 0.5, 0.7, 1.0]);
                    for c in &present {
                        if self.rng.gen_bool(keep_p) {
                            codes.push(*c);
                        }
                    }
                    if self.rng.gen_bool(0.3) {
                        // a label nobody carries (may coincide with a carried one for bool)
                        let absent = canon(exp.kind, present.last().copied().unwrap_or(0) + 1 + self.rng.gen_range(0..3));
                        codes.push(absent);
                    }
                    if self.rng.gen_bool(0.2) && !codes.is_empty() {
                        codes.push(codes[0]);
                    }
                    use rand::seq::SliceRandom;
                    codes.shuffle(&mut self.rng);
                    Op::WithLabels { codes }
                }
                12 | 13 if exp.ix1 => Op::OneVsAll { pick: self.rng.gen_range(0..8) },
                14 => {
                    let size = if self.rng.gen_bool(0.7) {
                        self.rng.gen_range(1..=(n / 2).max(1))
                    } else {
                        self.rng.gen_range(1..=n + 2)
                    };
                    Op::Chunks { size, pick: self.rng.gen_range(0..64) }
                }
                15 => Op::SampleIter,
                16 => Op::TargetIter { pick: self.rng.gen_range(0..t.max(1)) },
                17 => Op::FeatureIter { pick: self.rng.gen_range(0..p.max(1)) },
                18 => {
                    let to = if self.rng.gen_bool(0.5) {
                        exp.kind
                    } else {
                        *crate::gen::pick(&mut self.rng, &[LabKind::Usize, LabKind::Bool, LabKind::Str])
                    };
                    let big = exp.distinct_codes(self.base).last().copied().unwrap_or(0) > 100_000;
                    let modu = if big {
                        7
                    } else {
                        *crate::gen::pick(&mut self.rng, &[0usize, 0, 2, 3, 4, 7])
                    };
                    Op::MapTargets {
                        to,
                        mul: *crate::gen::pick(&mut self.rng, &[1usize, 1, 2, 3, 5]),
                        add: self.rng.gen_range(0..5),
                        modu,
                    }
                }
                19 => Op::ToOwned,
                20 if caps.into_single && !exp.ix1 && t == 1 => Op::IntoSingle,
                21 => Op::WithWeights,
                22 => Op::WithNames,
                _ => continue,
            };
            return Some(op);
        }
        Some(Op::View)
    }
}

macro_rules! when_own {
    (own, $a:block, $b:block) => {
        $a
    };
    ($other:ident, $a:block, $b:block) => {
        $b
    };
}
macro_rules! when_vw {
    (vw, $a:block, $b:block) => {
        $a
    };
    ($other:ident, $a:block, $b:block) => {
        $b
    };
}

/// One interpreter per concrete dataset type. `$gown`/`$gview`/`$gmap` are the interpreters of the
/// types that shuffle/bootstrap/to_owned, view/chunks and map_targets return for this type.
macro_rules! def_go {
    ($name:ident, [$($lt:lifetime)*], $ty:ty, $flag:ident, own=$gown:ident, view=$gview:ident, map=$gmap:ident) => {
        fn $name<$($lt,)* F: Fl, L: Lab, I: TD>(ds: $ty, exp: Exp, st: &mut St) -> R {
            let caps = Caps {
                owned_split: when_own!($flag, { ds.records.is_standard_layout() && ds.targets.is_standard_layout() }, { false }),
                view_split: true,
                into_single: when_own!($flag, { true }, { false }),
            };
            let op = match st.next_op(&exp, caps) {
                Some(op) => op,
                None => return Ok(()),
            };
            st.steps += 1;
            if !op.is_setup() {
                st.linfa_ops += 1;
            }
            st.log.push(format!("{}:{:?}", stringify!($name), op));
            st.count(concat!("kind/", stringify!($name)));
            let before = observe(&ds);
            let n = exp.rows.len();
            st.cur_rows = n;
            match op {
                Op::SplitOwned { ratio, second } => {
                    when_own!($flag, {
                        if !caps.owned_split {
                            return Err(Stop::Harness("owned split on non-standard layout is a documented panic".into()));
                        }
                        st.count("op/split-owned");
                        // discriminating signatures for one defect of the raw-vector split: it takes the whole
                        // allocation (`into_raw_vec`) as if it started at the first element
                        // (predicate: the allocation is larger than the array, read through the public ndarray API)
                        let had_offset_arrays = ds.records.clone().into_raw_vec().len() != ds.records.len()
                            || ds.targets.clone().into_raw_vec().len() != ds.targets.len();
                        let had_offset_weights = ds.weights.clone().into_raw_vec().len() != ds.weights.len();
                        let reclass = move |e: Stop| match e {
                            Stop::Viol { sig, detail } => {
                                let why = detail["why"].as_str().unwrap_or("").to_string();
                                let sig = if had_offset_arrays && sig == "C02/split-owned/panic" && why.contains("IncompatibleShape") {
                                    "C02/split-owned/panic-arrays-sliced-in-place".to_string()
                                } else if had_offset_weights
                                    && (sig == "C02/split-owned/weight-misaligned" || sig == "C02/split-owned/weights-length")
                                {
                                    "C02/split-owned/weights-sliced-in-place-misaligned".to_string()
                                } else {
                                    sig
                                };
                                Stop::Viol { sig, detail }
                            }
                            o => o,
                        };
                        let (a, b) = st.guard("split-owned", move || ds.split_with_ratio(ratio)).map_err(reclass)?;
                        let n1 = split_point(n, ratio).min(n);
                        let mut e1 = exp.clone();
                        e1.rows = exp.rows[..n1].to_vec();
                        let mut e2 = exp.clone();
                        e2.rows = exp.rows[n1..].to_vec();
                        if n1 > 0 && n1 < n {
                            st.count("split/proper");
                        }
                        let r1 = st.chk("split-owned", &a, &Want::keep(&e1)).map_err(reclass)?;
                        let r2 = st.chk("split-owned", &b, &Want::keep(&e2)).map_err(reclass)?;
                        if second { $name(b, r2, st) } else { $name(a, r1, st) }
                    }, {
                        let _ = (ratio, second);
                        Err(Stop::Harness("SplitOwned scripted for a non-owned dataset".into()))
                    })
                }
                Op::SplitView { ratio, second } => {
                    // `split_with_ratio(&'a self)` of a view borrows for the view's own data lifetime, so
                    // (like any caller holding a view it did not create) take `view()` first
                    st.count("op/split-view");
                    let v = st.guard("view", || ds.view())?;
                    st.chk("view", &v, &Want::keep(&exp))?;
                    let (a, b) = st.guard("split-view", || v.split_with_ratio(ratio))?;
                    let n1 = split_point(n, ratio).min(n);
                    let mut e1 = exp.clone();
                    e1.rows = exp.rows[..n1].to_vec();
                    let mut e2 = exp.clone();
                    e2.rows = exp.rows[n1..].to_vec();
                    if n1 > 0 && n1 < n {
                        st.count("split/proper");
                    }
                    let r1 = st.chk("split-view", &a, &Want::keep(&e1))?;
                    let r2 = st.chk("split-view", &b, &Want::keep(&e2))?;
                    st.unchanged("split-view", &ds, &before)?;
                    if second { $gview(b, r2, st) } else { $gview(a, r1, st) }
                }
                Op::View => {
                    st.count("op/view");
                    let v = st.guard("view", || ds.view())?;
                    let e2 = st.chk("view", &v, &Want::keep(&exp))?;
                    st.unchanged("view", &ds, &before)?;
                    $gview(v, e2, st)
                }
                Op::Shuffle => {
                    st.count("op/shuffle");
                    let mut rng = st.fork_rng();
                    let out = st.guard("shuffle", || ds.shuffle(&mut rng))?;
                    let mut w = Want::keep(&exp);
                    w.rows = Law::Perm;
                    w.wdrop = true;
                    let e2 = st.chk("shuffle", &out, &w)?;
                    if n >= 4 && e2.rows != exp.rows {
                        st.count("shuffle/moved-something");
                    }
                    st.unchanged("shuffle", &ds, &before)?;
                    $gown(out, e2, st)
                }
                Op::Bootstrap { ns, nf, take } => {
                    st.count("op/bootstrap");
                    let mut rng = st.fork_rng();
                    let mut outs = st.guard("bootstrap", || {
                        ds.bootstrap((ns, nf), &mut rng).take(take).collect::<Vec<_>>()
                    })?;
                    let mut w = Want::keep(&exp).may_drop_all();
                    w.rows = Law::Draw(ns);
                    w.cols = Law::Draw(nf);
                    let mut last = None;
                    for o in &outs {
                        last = Some(st.chk("bootstrap", o, &w)?);
                    }
                    st.unchanged("bootstrap", &ds, &before)?;
                    match (outs.pop(), last) {
                        (Some(o), Some(e2)) => $gown(o, e2, st),
                        _ => Err(st.viol("bootstrap", "count", "iterator ended".into())),
                    }
                }
                Op::BootSamples { ns, take } => {
                    st.count("op/bootstrap_samples");
                    let mut rng = st.fork_rng();
                    let mut outs = st.guard("bootstrap_samples", || {
                        ds.bootstrap_samples(ns, &mut rng).take(take).collect::<Vec<_>>()
                    })?;
                    let mut w = Want::keep(&exp).may_drop_all();
                    w.rows = Law::Draw(ns);
                    let mut last = None;
                    for o in &outs {
                        last = Some(st.chk("bootstrap_samples", o, &w)?);
                    }
                    st.unchanged("bootstrap_samples", &ds, &before)?;
                    match (outs.pop(), last) {
                        (Some(o), Some(e2)) => $gown(o, e2, st),
                        _ => Err(st.viol("bootstrap_samples", "count", "iterator ended".into())),
                    }
                }
                Op::BootFeatures { nf, take } => {
                    st.count("op/bootstrap_features");
                    let mut rng = st.fork_rng();
                    let mut outs = st.guard("bootstrap_features", || {
                        ds.bootstrap_features(nf, &mut rng).take(take).collect::<Vec<_>>()
                    })?;
                    let mut w = Want::keep(&exp).may_drop_all();
                    w.cols = Law::Draw(nf);
                    let mut last = None;
                    for o in &outs {
                        last = Some(st.chk("bootstrap_features", o, &w)?);
                    }
                    st.unchanged("bootstrap_features", &ds, &before)?;
                    match (outs.pop(), last) {
                        (Some(o), Some(e2)) => $gown(o, e2, st),
                        _ => Err(st.viol("bootstrap_features", "count", "iterator ended".into())),
                    }
                }
                Op::WithLabels { codes } => {
                    st.count("op/with_labels");
                    let labels: Vec<L> = codes.iter().map(|c| L::from_code(*c)).collect();
                    let out = st.guard("with_labels", || ds.with_labels(&labels))?;
                    let t = exp.tcols.len();
                    let mut e1 = exp.clone();
                    e1.rows = exp
                        .rows
                        .iter()
                        .copied()
                        .filter(|id| (0..t).any(|c| codes.contains(&exp.code(st.base, *id, c))))
                        .collect();
                    if !e1.rows.is_empty() && e1.rows.len() < n {
                        st.count("with_labels/proper-filter");
                    }
                    // documented: "Sample weights and feature names are preserved"
                    let mut w = Want::keep(&e1);
                    w.tdrop = true;
                    let e2 = st.chk("with_labels", &out, &w)?;
                    st.unchanged("with_labels", &ds, &before)?;
                    go_cown(out, e2, st)
                }
                Op::OneVsAll { pick } => {
                    let res = st.guard("one_vs_all", || I::ova(&ds))?;
                    let mut res = match res {
                        Some(r) => r,
                        None => return Err(Stop::Harness("one_vs_all needs single targets / returned Err".into())),
                    };
                    st.count("op/one_vs_all");
                    let distinct = exp.distinct_codes(st.base);
                    let mut got: Vec<usize> = res.iter().map(|(l, _)| l.code()).collect();
                    got.sort_unstable();
                    if got != distinct {
                        return Err(st.viol(
                            "one_vs_all",
                            "label-set",
                            format!("views for label codes {got:?}, distinct labels of the dataset {distinct:?}"),
                        ));
                    }
                    if distinct.len() >= 2 {
                        st.count("one_vs_all/at-least-2-labels");
                    }
                    let mut exps = Vec::with_capacity(res.len());
                    for (l, d) in res.iter() {
                        let mut e1 = exp.clone();
                        e1.tmaps.push(TMap::Eq { x: l.code() });
                        e1.kind = LabKind::Bool;
                        e1.ix1 = true;
                        exps.push(st.chk("one_vs_all", d, &Want::keep(&e1))?);
                    }
                    st.unchanged("one_vs_all", &ds, &before)?;
                    if res.is_empty() {
                        return $name(ds, exp, st);
                    }
                    // deterministic choice: by label order, not by the (hash) order of the result
                    let target = distinct[pick % distinct.len()];
                    let k = res.iter().position(|(l, _)| l.code() == target).unwrap_or(0);
                    let (_, d) = res.swap_remove(k);
                    let e2 = exps.swap_remove(k);
                    go_vcown::<F, bool, Ix1>(d, e2, st)
                }
                Op::Chunks { size, pick } => {
                    st.count("op/sample_chunks");
                    let mut chunks = st.guard("sample_chunks", || ds.sample_chunks(size).collect::<Vec<_>>())?;
                    let (lo, hi) = (n / size, (n + size - 1) / size);
                    if chunks.len() < lo || chunks.len() > hi {
                        return Err(st.viol(
                            "sample_chunks",
                            "count",
                            format!("{} chunks of size {size} from {n} samples", chunks.len()),
                        ));
                    }
                    if n % size != 0 && n > size {
                        st.count("sample_chunks/with-remainder");
                    }
                    let mut exps = Vec::with_capacity(chunks.len());
                    for (i, ch) in chunks.iter().enumerate() {
                        let mut e1 = exp.clone();
                        e1.rows = exp.rows[i * size..((i + 1) * size).min(n)].to_vec();
                        exps.push(st.chk("sample_chunks", ch, &Want::keep(&e1).may_drop_all())?);
                    }
                    st.unchanged("sample_chunks", &ds, &before)?;
                    if chunks.is_empty() {
                        return $name(ds, exp, st);
                    }
                    let k = pick % chunks.len();
                    let ch = chunks.swap_remove(k);
                    let e2 = exps.swap_remove(k);
                    $gview(ch, e2, st)
                }
                Op::SampleIter => {
                    st.count("op/sample_iter");
                    let items: Vec<(Vec<f64>, Vec<usize>)> = st.guard("sample_iter", || {
                        ds.sample_iter()
                            .map(|(x, y)| {
                                (
                                    x.iter().map(|v| v.val()).collect(),
                                    y.iter().map(|l| l.code()).collect(),
                                )
                            })
                            .collect()
                    })?;
                    st.evals += 1;
                    if items.len() != n {
                        return Err(st.viol("sample_iter", "count", format!("{} items from {n} samples", items.len())));
                    }
                    let recs: Vec<Vec<f64>> = items.iter().map(|i| i.0.clone()).collect();
                    let (ids, cols) = decode_records(&recs, st.base).map_err(|(m, w)| st.viol("sample_iter", m, w))?;
                    if ids != exp.rows {
                        return Err(st.viol("sample_iter", "selection-rows", format!("items are samples {ids:?}, dataset rows {:?}", exp.rows)));
                    }
                    if let Some(c) = cols {
                        if c != exp.fcols {
                            return Err(st.viol("sample_iter", "selection-columns", format!("{c:?} vs {:?}", exp.fcols)));
                        }
                    }
                    for (r, it) in items.iter().enumerate() {
                        let want: Vec<usize> = (0..exp.tcols.len()).map(|c| exp.code(st.base, ids[r], c)).collect();
                        if it.1 != want {
                            return Err(st.viol(
                                "sample_iter",
                                "target-misaligned",
                                format!("item {r}: record of sample {} with target codes {:?}, expected {want:?}", ids[r], it.1),
                            ));
                        }
                    }
                    st.unchanged("sample_iter", &ds, &before)?;
                    $name(ds, exp, st)
                }
                Op::TargetIter { pick } => {
                    st.count("op/target_iter");
                    let mut items = match guarded(|| ds.target_iter().collect::<Vec<_>>()) {
                        Ok(i) => i,
                        Err(msg) => {
                            // discriminating predicate: every call on a single-target (Ix1) dataset
                            let mode = if I::IX1 { "panic-single-target" } else { "panic" };
                            return Err(st.viol("target_iter", mode, msg));
                        }
                    };
                    let t = exp.tcols.len();
                    if items.len() != t {
                        return Err(st.viol("target_iter", "count", format!("{} items from {t} targets", items.len())));
                    }
                    if t >= 2 {
                        st.count("target_iter/multi");
                    }
                    let mut exps = Vec::with_capacity(t);
                    for (c, it) in items.iter().enumerate() {
                        let mut e1 = exp.clone();
                        e1.tcols = vec![exp.tcols[c]];
                        exps.push(st.chk("target_iter", it, &Want::keep(&e1))?);
                    }
                    st.unchanged("target_iter", &ds, &before)?;
                    // the same iterator consumed through the standard adaptors must yield the same columns
                    if t >= 1 && !I::IX1 {
                        let k = (pick / 3) % t;
                        let got: Vec<(usize, _)> = match pick % 3 {
                            0 => ds.target_iter().nth(k).into_iter().map(|it| (k, it)).collect(),
                            1 => ds.target_iter().skip(k).next().into_iter().map(|it| (k, it)).collect(),
                            _ => ds.target_iter().step_by(2).enumerate().map(|(q, it)| (2 * q, it)).collect(),
                        };
                        if got.is_empty() {
                            return Err(st.viol("target_iter", "adaptor-yields-nothing", format!("pattern {} at column {k} of {t}", pick % 3)));
                        }
                        for (col, it) in got.iter() {
                            let mut e1 = exp.clone();
                            e1.tcols = vec![exp.tcols[*col]];
                            st.chk("target_iter", it, &Want::keep(&e1))?;
                        }
                        st.count("target_iter/adaptor-forms");
                    }
                    if items.is_empty() {
                        return $name(ds, exp, st);
                    }
                    let k = pick % items.len();
                    let it = items.swap_remove(k);
                    let e2 = exps.swap_remove(k);
                    go_view(it, e2, st)
                }
                Op::FeatureIter { pick } => {
                    st.count("op/feature_iter");
                    let mut items = st.guard("feature_iter", || ds.feature_iter().collect::<Vec<_>>())?;
                    let p = exp.fcols.len();
                    if items.len() != p {
                        return Err(st.viol("feature_iter", "count", format!("{} items from {p} features", items.len())));
                    }
                    let mut exps = Vec::with_capacity(p);
                    for (j, it) in items.iter().enumerate() {
                        let mut e1 = exp.clone();
                        e1.fcols = vec![exp.fcols[j]];
                        // the single feature name may be absent (it is today on multi-feature data);
                        // a name that is present must be the name of column j
                        let mut w = Want::keep(&e1);
                        w.fdrop = true;
                        exps.push(st.chk("feature_iter", it, &w)?);
                    }
                    st.unchanged("feature_iter", &ds, &before)?;
                    if p >= 1 {
                        let k = (pick / 3) % p;
                        let got: Vec<(usize, _)> = match pick % 3 {
                            0 => ds.feature_iter().nth(k).into_iter().map(|it| (k, it)).collect(),
                            1 => ds.feature_iter().skip(k).next().into_iter().map(|it| (k, it)).collect(),
                            _ => ds.feature_iter().step_by(2).enumerate().map(|(q, it)| (2 * q, it)).collect(),
                        };
                        if got.is_empty() {
                            return Err(st.viol("feature_iter", "adaptor-yields-nothing", format!("pattern {} at column {k} of {p}", pick % 3)));
                        }
                        for (col, it) in got.iter() {
                            let mut e1 = exp.clone();
                            e1.fcols = vec![exp.fcols[*col]];
                            let mut w = Want::keep(&e1);
                            w.fdrop = true;
                            st.chk("feature_iter", it, &w)?;
                        }
                        st.count("feature_iter/adaptor-forms");
                    }
                    if items.is_empty() {
                        return $name(ds, exp, st);
                    }
                    let k = pick % items.len();
                    let it = items.swap_remove(k);
                    let e2 = exps.swap_remove(k);
                    go_view(it, e2, st)
                }
                Op::MapTargets { to, mul, add, modu } => {
                    st.count("op/map_targets");
                    let m = TMap::Affine { mul, add, modu, to };
                    let mut e1 = exp.clone();
                    e1.tmaps.push(m.clone());
                    e1.kind = to;
                    macro_rules! cont {
                        ($l2:ty) => {{
                            let m2 = m.clone();
                            let out = st.guard("map_targets", move || {
                                ds.map_targets(|x: &L| <$l2 as Lab>::from_code(m2.apply(x.code())))
                            })?;
                            let e2 = st.chk("map_targets", &out, &Want::keep(&e1))?;
                            $gmap::<F, $l2, I>(out, e2, st)
                        }};
                    }
                    match to {
                        LabKind::Usize => cont!(usize),
                        LabKind::Bool => cont!(bool),
                        LabKind::Str => cont!(&'static str),
                    }
                }
                Op::ToOwned => {
                    st.count("op/to_owned");
                    let out = st.guard("to_owned", || ds.to_owned())?;
                    let e2 = st.chk("to_owned", &out, &Want::keep(&exp).may_drop_all())?;
                    st.unchanged("to_owned", &ds, &before)?;
                    $gown(out, e2, st)
                }
                Op::IntoSingle => {
                    when_own!($flag, {
                        if I::IX1 || exp.tcols.len() != 1 {
                            return Err(Stop::Harness("into_single_target outside its domain".into()));
                        }
                        st.count("op/into_single_target");
                        let strided = !ds.targets.is_standard_layout();
                        let out = st.guard("into_single_target", move || I::into_single(ds)).map_err(|e| match e {
                            // discriminating: [n, 1] targets that are not contiguous, rejected by `into_shape`
                            Stop::Viol { sig, detail }
                                if strided
                                    && sig == "C02/into_single_target/panic"
                                    && detail["why"].as_str().unwrap_or("").contains("IncompatibleLayout") =>
                            {
                                Stop::Viol { sig: "C02/into_single_target/panic-noncontiguous-targets".into(), detail }
                            }
                            o => o,
                        })?;
                        let out = match out {
                            Some(o) => o,
                            None => return Err(Stop::Harness("into_single on Ix1".into())),
                        };
                        let mut e1 = exp.clone();
                        e1.ix1 = true;
                        let e2 = st.chk("into_single_target", &out, &Want::keep(&e1).may_drop_all())?;
                        go_own::<F, L, Ix1>(out, e2, st)
                    }, {
                        Err(Stop::Harness("IntoSingle scripted for a non-owned dataset".into()))
                    })
                }
                Op::WithWeights => {
                    st.count("op/with_weights");
                    st.wgen += 1;
                    let g = st.wgen;
                    let w = Array1::from_iter(exp.rows.iter().map(|id| wexp(*id, g)));
                    let out = st.guard("with_weights", move || ds.with_weights(w))?;
                    let mut e1 = exp.clone();
                    e1.weights = Some(g);
                    let e2 = st.chk("with_weights", &out, &Want::keep(&e1))?;
                    $name(out, e2, st)
                }
                Op::WithNames => {
                    let f: Vec<String> = exp.fcols.iter().map(|j| fname(*j)).collect();
                    let t: Vec<String> = exp.tcols.iter().map(|c| tname(*c)).collect();
                    let out = st.guard("with_names", move || ds.with_feature_names(f).with_target_names(t))?;
                    let mut e1 = exp.clone();
                    e1.fnames = true;
                    e1.tnames = true;
                    let e2 = st.chk("with_names", &out, &Want::keep(&e1))?;
                    $name(out, e2, st)
                }
            }
        }
    };
}

def_go!(go_own, [], Own<F, L, I>, own, own = go_own, view = go_view, map = go_own);
def_go!(go_view, ['a], Vw<'a, F, L, I>, vw, own = go_own, view = go_view, map = go_vown);
def_go!(go_cown, [], COwn<F, L, I>, none, own = go_cown, view = go_cview, map = go_own);
def_go!(go_cview, ['a], CVw<'a, F, L, I>, vw, own = go_cown, view = go_cview, map = go_vown);
def_go!(go_vown, ['a], VOwn<'a, F, L, I>, vw, own = go_own, view = go_view, map = go_vown);
def_go!(go_vcown, ['a], VCOwn<'a, F, L, I>, vw, own = go_cown, view = go_cview, map = go_vown);

// ------------------------------------------------------------------------------------------------
// case construction
// ------------------------------------------------------------------------------------------------

#[derive(Clone, Copy, Debug, PartialEq)]
enum Layout {
    /// owned, row-major
    C,
    /// owned, column-major records (and targets when two-dimensional)
    F,
    /// owned, row-major, but sliced in place out of a larger allocation (non-zero offset)
    SlicedOwned,
    /// owned, but not contiguous: columns 1..=p of a wider allocation (targets alike; Ix1: every 2nd)
    StridedOwned,
    /// a view with row stride 2 / column offset into a larger buffer
    StridedView,
    /// a view with negative row stride
    ReversedView,
}

#[derive(Clone, Debug)]
enum LabMode {
    Identity,
    Alphabet(usize),
    Given(Vec<Vec<usize>>),
}

#[derive(Clone, Debug)]
struct Cfg {
    n0: usize,
    p0: usize,
    t0: usize,
    ix1: bool,
    layout: Layout,
    weights: bool,
    /// weights array sliced in place out of a larger allocation
    woffset: bool,
    names: bool,
    labmode: LabMode,
    script: Option<Vec<Op>>,
    maxlen: usize,
}

fn random_cfg(rng: &mut Rng, tier: Tier, kind: LabKind) -> Cfg {
    let n0 = match rng.gen_range(0..10) {
        0 => rng.gen_range(0..3),
        1..=6 => rng.gen_range(3..20),
        7 | 8 => rng.gen_range(20..41),
        _ => tier.pick(rng.gen_range(3..41), rng.gen_range(41..160)),
    };
    let p0 = rng.gen_range(1..=5);
    let t0 = *crate::gen::pick(rng, &[1usize, 1, 1, 2, 3]);
    let ix1 = t0 == 1 && rng.gen_bool(0.7);
    let layout = match rng.gen_range(0..11) {
        0..=4 => Layout::C,
        10 => Layout::StridedView,
        5 => Layout::F,
        6 => Layout::SlicedOwned,
        7 => Layout::StridedOwned,
        8 => Layout::StridedView,
        _ => Layout::ReversedView,
    };
    let labmode = match kind {
        LabKind::Bool => LabMode::Alphabet(if rng.gen_bool(0.1) { 1 } else { 2 }),
        _ => match rng.gen_range(0..4) {
            0 => LabMode::Identity,
            _ => LabMode::Alphabet(*crate::gen::pick(rng, &[1usize, 2, 2, 3, 3, 4, 5])),
        },
    };
    let weights = rng.gen_bool(0.6);
    Cfg {
        n0,
        p0,
        t0,
        ix1,
        layout,
        weights,
        woffset: weights && rng.gen_bool(0.3),
        names: rng.gen_bool(0.6),
        labmode,
        script: None,
        maxlen: rng.gen_range(1..=tier.pick(6, 8)),
    }
}

fn run_case<F: Fl, L: Lab>(c: &mut Case, cfg: Cfg) -> Outcome {
    if cfg.ix1 {
        run_dim::<F, L, Ix1>(c, cfg)
    } else {
        run_dim::<F, L, Ix2>(c, cfg)
    }
}

fn run_dim<F: Fl, L: Lab, I: TD>(c: &mut Case, cfg: Cfg) -> Outcome {
    let (n, p, t) = (cfg.n0, cfg.p0, cfg.t0);
    let codes0: Vec<Vec<usize>> = match &cfg.labmode {
        LabMode::Identity => (0..n)
            .map(|i| (0..t).map(|cc| canon(L::KIND, i * t + cc)).collect())
            .collect(),
        LabMode::Alphabet(k) => (0..n)
            .map(|_| (0..t).map(|_| canon(L::KIND, c.rng.gen_range(0..*k))).collect())
            .collect(),
        LabMode::Given(g) => g.clone(),
    };
    let desc = format!(
        "{}/{:?}/ix{} n={n} p={p} t={t} layout={:?} weights={}{} names={} labels={}",
        F::NAME,
        L::KIND,
        if I::IX1 { 1 } else { 2 },
        cfg.layout,
        cfg.weights,
        if cfg.woffset { "(offset)" } else { "" },
        cfg.names,
        match &cfg.labmode {
            LabMode::Identity => "identity".to_string(),
            LabMode::Alphabet(k) => format!("alphabet{k}"),
            LabMode::Given(g) => format!("{g:?}"),
        }
    );
    let base = Base {
        n0: n,
        p0: p,
        t0: t,
        codes0,
        desc,
    };
    let _ = base.t0;
    let exp = Exp {
        rows: (0..n).collect(),
        fcols: (0..p).collect(),
        tcols: (0..t).collect(),
        ix1: I::IX1,
        weights: if cfg.weights && n > 0 { Some(0) } else { None },
        fnames: cfg.names,
        tnames: cfg.names,
        tmaps: vec![],
        kind: L::KIND,
    };
    let mut st = St {
        base: &base,
        rng: Rng::seed_from_u64(c.rng.gen()),
        maxlen: cfg.maxlen,
        script: cfg.script.clone().map(VecDeque::from),
        steps: 0,
        linfa_ops: 0,
        log: vec![],
        evals: 0,
        counters: BTreeMap::new(),
        wgen: 0,
        cur_rows: n,
    };
    // weights, possibly with an offset into a larger allocation
    let weights: Array1<f32> = if cfg.weights {
        if cfg.woffset {
            let mut big = Array1::from_shape_fn(n + 3, |i| if i >= 2 && i < n + 2 { wexp(i - 2, 0) } else { -3.0 });
            big.slice_axis_inplace(Axis(0), Slice::from(2..n + 2));
            big
        } else {
            Array1::from_shape_fn(n, |i| wexp(i, 0))
        }
    } else {
        Array1::zeros(0)
    };
    let fnames: Vec<String> = if cfg.names { (0..p).map(fname).collect() } else { vec![] };
    let tnames: Vec<String> = if cfg.names { (0..t).map(tname).collect() } else { vec![] };
    let lab = |i: usize, cc: usize| L::from_code(base.codes0[i][cc]);
    let poison_l = L::from_code(1);

    let res: R = match cfg.layout {
        Layout::C | Layout::F | Layout::SlicedOwned | Layout::StridedOwned => {
            let forder = cfg.layout == Layout::F;
            let (rec, tar): (Array2<F>, Array<L, I>) = if cfg.layout == Layout::StridedOwned {
                let mut big = Array2::from_shape_fn((n, p + 2), |(i, j)| {
                    if j >= 1 && j < p + 1 {
                        F::tag(i * p + j - 1)
                    } else {
                        F::poison()
                    }
                });
                big.slice_axis_inplace(Axis(1), Slice::from(1..p + 1));
                let bt = if I::IX1 {
                    let mut cells = Vec::with_capacity(2 * n);
                    for i in 0..n {
                        cells.push(lab(i, 0));
                        cells.push(poison_l);
                    }
                    let mut bt = I::build(cells, 2 * n, 1, false);
                    bt.slice_axis_inplace(Axis(0), Slice::new(0, None, 2));
                    bt
                } else {
                    let mut cells = Vec::with_capacity(n * (t + 2));
                    for i in 0..n {
                        cells.push(poison_l);
                        for cc in 0..t {
                            cells.push(lab(i, cc));
                        }
                        cells.push(poison_l);
                    }
                    let mut bt = I::build(cells, n, t + 2, false);
                    bt.slice_axis_inplace(Axis(1), Slice::from(1..t + 1));
                    bt
                };
                (big, bt)
            } else if cfg.layout == Layout::SlicedOwned {
                let mut big = Array2::from_shape_fn((n + 3, p), |(i, j)| {
                    if i >= 1 && i < n + 1 {
                        F::tag((i - 1) * p + j)
                    } else {
                        F::poison()
                    }
                });
                big.slice_axis_inplace(Axis(0), Slice::from(1..n + 1));
                let mut cells = Vec::with_capacity((n + 2) * t);
                for i in 0..n + 2 {
                    for cc in 0..t {
                        cells.push(if i >= 2 { lab(i - 2, cc) } else { poison_l });
                    }
                }
                let mut bt = I::build(cells, n + 2, t, false);
                bt.slice_axis_inplace(Axis(0), Slice::from(2..n + 2));
                (big, bt)
            } else {
                let rec = if forder {
                    let mut cm = Vec::with_capacity(n * p);
                    for j in 0..p {
                        for i in 0..n {
                            cm.push(F::tag(i * p + j));
                        }
                    }
                    Array2::from_shape_vec((n, p).f(), cm).unwrap()
                } else {
                    Array2::from_shape_fn((n, p), |(i, j)| F::tag(i * p + j))
                };
                let mut cells = Vec::with_capacity(n * t);
                for i in 0..n {
                    for cc in 0..t {
                        cells.push(lab(i, cc));
                    }
                }
                (rec, I::build(cells, n, t, forder))
            };
            let ds: Own<F, L, I> = DatasetBase::new(rec, tar)
                .with_weights(weights)
                .with_feature_names(fnames)
                .with_target_names(tnames);
            go_own(ds, exp, &mut st)
        }
        Layout::StridedView | Layout::ReversedView => {
            let rev = cfg.layout == Layout::ReversedView;
            // big buffers: sample i lives in big row 1 + 2*i (or mirrored), columns 1..=p
            let nb = 2 * n + 2;
            let pos = |i: usize| if rev { nb - 1 - (1 + 2 * i) } else { 1 + 2 * i };
            let mut big = Array2::from_elem((nb, p + 2), F::poison());
            for i in 0..n {
                for j in 0..p {
                    big[[pos(i), j + 1]] = F::tag(i * p + j);
                }
            }
            let mut cells = vec![poison_l; nb * t];
            for i in 0..n {
                for cc in 0..t {
                    cells[pos(i) * t + cc] = lab(i, cc);
                }
            }
            let bt: Array<L, I> = I::build(cells, nb, t, false);
            let (rv, tv) = if rev {
                // rows nb-2, nb-4, ... : reversed order with stride -2
                let s = Slice::new(0, Some(nb as isize - 1), -2);
                (
                    { let mut v = big.slice_axis(Axis(0), s); v.slice_axis_inplace(Axis(1), Slice::from(1..p + 1)); v },
                    bt.slice_axis(Axis(0), s),
                )
            } else {
                let s = Slice::new(1, None, 2);
                (
                    { let mut v = big.slice_axis(Axis(0), s); v.slice_axis_inplace(Axis(1), Slice::from(1..p + 1)); v },
                    bt.slice_axis(Axis(0), s),
                )
            };
            // slicing 2n+2 rows from 1 (or from the back) with step 2 yields n+1 / n rows: trim
            let (mut rv, mut tv) = (rv, tv);
            rv.slice_axis_inplace(Axis(0), Slice::from(0..n));
            tv.slice_axis_inplace(Axis(0), Slice::from(0..n));
            let ds: Vw<F, L, I> = DatasetBase::new(rv, tv)
                .with_weights(weights)
                .with_feature_names(fnames)
                .with_target_names(tnames);
            go_view(ds, exp, &mut st)
        }
    };
    c.evals = st.evals.max(1);
    // every comparison of this monitor is exact (ids, labels, bit patterns of small floats)
    c.resid("exact-comparisons/tolerance-used", 0.0);
    for (k, v) in &st.counters {
        c.count_n(k, *v);
    }
    c.note("base", json!(base.desc));
    c.note("program", json!(st.log));
    match res {
        Ok(()) => {
            let nontrivial = st.linfa_ops >= 2 && n >= 3;
            let mut h = 0u64;
            for s in &st.log {
                for b in s.bytes() {
                    h = h.wrapping_mul(0x100000001b3).wrapping_add(b as u64);
                }
            }
            held(nontrivial, format!("{} prog#{h:x}", base.desc))
        }
        Err(Stop::Viol { sig, detail }) => violated(sig, detail),
        Err(Stop::Harness(m)) => inconclusive(format!("harness: {m}")),
        Err(Stop::Inconclusive(m)) => inconclusive(m),
    }
}

// ------------------------------------------------------------------------------------------------
// families
// ------------------------------------------------------------------------------------------------

fn scripted(n0: usize, p0: usize, t0: usize, ix1: bool, script: Vec<Op>) -> Cfg {
    Cfg {
        n0,
        p0,
        t0,
        ix1,
        layout: Layout::C,
        weights: true,
        woffset: false,
        names: true,
        labmode: LabMode::Identity,
        script: Some(script),
        maxlen: 0,
    }
}

pub fn run(ctx: &Ctx) {
    ctx.set_rule(
        "identity-tagged datasets (record cell = i*P+j, weight = i+0.5, names f<j>/t<c>, labels from a \
         per-case code table); random programs of 1..6 (thorough 1..8) dataset operations applied one \
         after another to the real linfa values (outputs feed the next operation, no re-materialisation), \
         over f32/f64 records x usize/bool/&str labels x Ix1/Ix2 targets x C/F/sliced-owned/strided-view/\
         reversed-view layouts x weights(offset)/names on/off; plus enumerated single-operation sweeps. \
         A program is non-trivial when it applied >= 2 linfa operations to a base of >= 3 samples; \
         sweep cases are non-trivial when n >= 2. distinct = (base description, program hash).",
    );
    ctx.assume("row/column identity is carried by integer-valued float tags (exact in f32 for all sizes used)");
    ctx.assume("the rand crate's shuffle/gen_range are trusted to produce the draws; the oracle checks admissibility of whatever was drawn");
    ctx.assume("results that drop weights/names altogether (shuffle: weights; bootstrap*, to_owned, into_single_target, sample_chunks: all; feature_iter: feature names) are accepted; split, view, with_labels (weights, feature names), one_vs_all, map_targets, target_iter, feature_iter (weights, target names) must carry what their source carries");

    let nprog = ctx.tier.pick(40_000, 200_000);
    macro_rules! prog_family {
        ($name:expr, $f:ty, $l:ty, $n:expr) => {
            ctx.family($name, $n, |c| {
                let cfg = random_cfg(&mut c.rng, c.tier, <$l as Lab>::KIND);
                run_case::<$f, $l>(c, cfg)
            });
        };
    }
    prog_family!("programs-f64-usize", f64, usize, nprog);
    prog_family!("programs-f64-bool", f64, bool, nprog);
    prog_family!("programs-f64-str", f64, &'static str, nprog);
    prog_family!("programs-f32-usize", f32, usize, nprog);
    prog_family!("programs-f32-str", f32, &'static str, nprog / 2);

    // ---- ratio split: every n <= N x a ratio grid that contains every exact boundary j/n and its
    // f32 neighbours, owned and view form, with weights and names
    let nmax = ctx.tier.pick(40usize, 200);
    let mut grid: Vec<(usize, f32)> = vec![];
    for n in 0..=nmax {
        let mut rs: Vec<f32> = (0..=16).map(|k| k as f32 / 16.0).collect();
        rs.extend_from_slice(&[1.0 / 3.0, 2.0 / 3.0, 0.1, 0.2, 0.3, 0.7, 0.9, 0.25, 0.05, 0.95]);
        for j in 0..=n {
            if n > 0 {
                let r = j as f32 / n as f32;
                rs.push(r);
                rs.push(f32::from_bits(r.to_bits() + 1).min(1.0));
                rs.push(f32::from_bits(r.to_bits().saturating_sub(1)));
            }
        }
        for r in rs {
            grid.push((n, r));
        }
    }
    ctx.set_exhaustive(
        &format!("split_with_ratio: n in 0..={nmax} x ratios {{k/16, j/n and both f32 neighbours, 1/3, 2/3, 0.05..0.95}} x {{owned, view}}"),
        true,
    );
    let grid = &grid;
    ctx.family("split-sweep", grid.len() as u64 * 2, |c| {
        let (n, ratio) = grid[(c.idx / 2) as usize];
        let view = c.idx % 2 == 1;
        let p = 1 + (n + c.idx as usize) % 3;
        let t = 1 + (n / 3 + c.idx as usize / 2) % 3;
        let second = c.rng.gen_bool(0.5);
        let script = if view {
            vec![Op::View, Op::SplitView { ratio, second }, Op::SampleIter]
        } else {
            vec![Op::SplitOwned { ratio, second }, Op::SampleIter]
        };
        c.note("n", json!(n));
        c.note("ratio", json!(ratio));
        let mut cfg = scripted(n, p, t, t == 1 && n % 2 == 0, script);
        cfg.woffset = c.idx % 3 == 0;
        match run_case::<f64, usize>(c, cfg) {
            Outcome::Held { key, .. } => held(n >= 2, format!("{key} ratio={ratio} view={view}")),
            o => o,
        }
    });

    // ---- label filtering and one-vs-all: every label matrix over {0,1,2} for n <= N, T in {1,2},
    // every subset of {0,1,2,3} as label list
    let nl = ctx.tier.pick(3usize, 4);
    let mut lcases: Vec<(usize, usize, usize, usize)> = vec![]; // n, t, matrix index, subset mask
    for n in 0..=nl {
        for t in 1..=2usize {
            let m = 3usize.pow((n * t) as u32);
            for mi in 0..m {
                for mask in 0..16usize {
                    lcases.push((n, t, mi, mask));
                }
            }
        }
    }
    ctx.set_exhaustive(
        &format!("with_labels/one_vs_all: all label matrices over {{0,1,2}} with n <= {nl}, T in {{1,2}} x all subsets of {{0,1,2,3}}"),
        true,
    );
    let lcases = &lcases;
    ctx.family("labels-sweep", lcases.len() as u64, |c| {
        let (n, t, mut mi, mask) = lcases[c.idx as usize];
        let mut codes = vec![vec![0usize; t]; n];
        for row in codes.iter_mut() {
            for cell in row.iter_mut() {
                *cell = mi % 3;
                mi /= 3;
            }
        }
        let list: Vec<usize> = (0..4).filter(|b| mask >> b & 1 == 1).collect();
        let ix1 = t == 1 && c.idx % 2 == 0;
        let mut script = vec![];
        if c.idx % 3 == 1 {
            script.push(Op::View);
        }
        script.push(Op::WithLabels { codes: list });
        if ix1 {
            script.push(Op::OneVsAll { pick: c.idx as usize % 3 });
            script.push(Op::SampleIter);
        } else {
            script.push(Op::TargetIter { pick: 0 });
        }
        let mut cfg = scripted(n, 1 + n % 2, t, ix1, script);
        cfg.labmode = LabMode::Given(codes);
        let r = if c.idx % 5 == 4 {
            run_case::<f32, &'static str>(c, cfg)
        } else {
            run_case::<f64, usize>(c, cfg)
        };
        match r {
            Outcome::Held { key, .. } => held(n >= 2, format!("{key} mask={mask}")),
            o => o,
        }
    });

    // ---- chunking: every (n, size)
    let nc = ctx.tier.pick(40usize, 150);
    let mut ccases = vec![];
    for n in 0..=nc {
        for size in 1..=n + 2 {
            ccases.push((n, size));
        }
    }
    ctx.set_exhaustive(&format!("sample_chunks: all (n, size) with n <= {nc}, 1 <= size <= n+2"), true);
    let ccases = &ccases;
    ctx.family("chunks-sweep", ccases.len() as u64, |c| {
        let (n, size) = ccases[c.idx as usize];
        let mut script = vec![];
        match c.idx % 3 {
            1 => script.push(Op::View),
            2 => script.push(Op::WithLabels { codes: (0..n * 3 + 3).collect() }),
            _ => {}
        }
        script.push(Op::Chunks { size, pick: c.rng.gen_range(0..64) });
        script.push(Op::SampleIter);
        let t = 1 + c.idx as usize % 3;
        let cfg = scripted(n, 1 + (n + size) % 4, t, t == 1 && n % 2 == 1, script);
        match run_case::<f64, usize>(c, cfg) {
            Outcome::Held { key, .. } => held(n >= 2, format!("{key} size={size}")),
            o => o,
        }
    });

    // ---- iterators: every small shape x source kind x names/weights
    let mut icases = vec![];
    for n in 0..=ctx.tier.pick(4usize, 7) {
        for p in 1..=4usize {
            for t in 1..=3usize {
                for ix1 in [false, true] {
                    if ix1 && t != 1 {
                        continue;
                    }
                    for src in 0..4u8 {
                        for deco in 0..4u8 {
                            for which in 0..3u8 {
                                icases.push((n, p, t, ix1, src, deco, which));
                            }
                        }
                    }
                }
            }
        }
    }
    ctx.set_exhaustive("iterators: n <= 4 (thorough 7), p <= 4, t <= 3, Ix1/Ix2 x {owned, view, counted, F-order} x names/weights on/off x {sample,target,feature}_iter", true);
    let icases = &icases;
    ctx.family("iter-sweep", icases.len() as u64, |c| {
        let (n, p, t, ix1, src, deco, which) = icases[c.idx as usize];
        let mut script = vec![];
        match src {
            1 => script.push(Op::View),
            2 => script.push(Op::WithLabels { codes: (0..n * t + 2).collect() }),
            _ => {}
        }
        script.push(match which {
            0 => Op::SampleIter,
            1 => Op::TargetIter { pick: c.rng.gen_range(0..t) },
            _ => Op::FeatureIter { pick: c.rng.gen_range(0..p) },
        });
        // the chosen item is itself iterated once more
        script.push(Op::SampleIter);
        script.push(Op::FeatureIter { pick: 0 });
        let mut cfg = scripted(n, p, t, ix1, script);
        cfg.names = deco & 1 == 1;
        cfg.weights = deco & 2 == 2;
        if src == 3 {
            cfg.layout = Layout::F;
        }
        let r = if c.idx % 2 == 0 {
            run_case::<f64, usize>(c, cfg)
        } else {
            run_case::<f32, &'static str>(c, cfg)
        };
        match r {
            Outcome::Held { key, .. } => held(n >= 2, format!("{key} src={src} which={which}")),
            o => o,
        }
    });
    // Miri lane (thorough): owned split through the raw-vec path incl. arrays sliced in place
    miri_lane(ctx, "c02", 1);
}
