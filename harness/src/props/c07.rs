//! C07 — nearest-neighbour indices return the true neighbours and are interchangeable.
//!
//! Oracle: brute force over all stored points with the harness's own textbook formulas for
//! L1 / L2 / Linf / Lp, evaluated in f64 on the exact values of the stored element type.
//!
//! Tolerances (DESIGN §3):
//!   * exact: result length, index range, index distinctness, (point, index) pairing (bit patterns),
//!     set inclusions between kinds that share the same point-level predicate
//!     (kd-tree == linear scan, ball tree ⊆ linear scan);
//!   * noise floor `C·ε_F·d` (relative, C = 32·(dim+4)) for distances judged against the f64 oracle
//!     (linfa selects with distances computed in F, relative error ≤ (dim+2)·ε_F);
//!   * noise floor `C·ε_F·3·Dmax` (Dmax = largest oracle distance query→stored point) for what the
//!     ball tree may lose through its sphere bound `distance(q, centre) − radius`, whose rounding
//!     error is relative to the size of the sphere, not to the distance of the neighbour;
//!   * both floors carry the additive underflow term `dim·(MIN_POSITIVE_F/ε_F)^(1/p)` for L2 (p=2) and
//!     Lp: below it the summands |a-b|^p are subnormal in F (f32, Lp(3): 4.6e-11 per dimension).
use crate::fw::*;
use linfa::Float;
use linfa_nn::distance::{L1Dist, L2Dist, LInfDist, LpDist};
use linfa_nn::{
    BallTree, BallTreeIndex, BuildError, CommonNearestNeighbour, KdTree, KdTreeIndex, LinearSearch,
    LinearSearchIndex, NearestNeighbour, NearestNeighbourIndex, NnError,
};
use ndarray::{s, Array1, Array2, ArrayBase, ArrayView1, ArrayView2, Data, Ix2};
use rand::seq::SliceRandom;
use rand::Rng as _;
use serde_json::{json, Value};

// ------------------------------------------------------------------------------------------------
// vocabulary

#[derive(Clone, Copy, Debug, PartialEq)]
pub enum Metric {
    L1,
    L2,
    Linf,
    Lp(f64),
}
// Lp with the exponents 1 and 2 is listed besides L1/L2: implementations special-case them
const METRICS: [Metric; 7] = [Metric::L1, Metric::L2, Metric::Linf, Metric::Lp(1.5), Metric::Lp(3.0), Metric::Lp(2.0), Metric::Lp(1.0)];
const NM: usize = METRICS.len();

impl Metric {
    fn name(self) -> String {
        match self {
            Metric::L1 => "L1".into(),
            Metric::L2 => "L2".into(),
            Metric::Linf => "Linf".into(),
            Metric::Lp(p) => format!("Lp({p})"),
        }
    }
}

const LINEAR: usize = 0;
const KD: usize = 1;
const BALL: usize = 2;
const KIND_NAMES: [&str; 3] = ["linear", "kdtree", "balltree"];
fn kind(i: usize) -> CommonNearestNeighbour {
    match i {
        LINEAR => CommonNearestNeighbour::LinearSearch,
        KD => CommonNearestNeighbour::KdTree,
        _ => CommonNearestNeighbour::BallTree,
    }
}

type Idx<'a, F> = Box<dyn 'a + Send + Sync + NearestNeighbourIndex<F>>;
type Fail = (String, Value);

/// Build one index through the public dispatch enum. `leaf = None` uses `from_batch` (default
/// leaf size).
fn build<'a, F: Float, DT: Data<Elem = F>>(
    k: usize,
    batch: &'a ArrayBase<DT, Ix2>,
    leaf: Option<usize>,
    m: Metric,
) -> Result<Idx<'a, F>, BuildError> {
    let kd = kind(k);
    macro_rules! go {
        ($d:expr) => {
            match leaf {
                Some(l) => kd.from_batch_with_leaf_size(batch, l, $d),
                None => kd.from_batch(batch, $d),
            }
        };
    }
    match m {
        Metric::L1 => go!(L1Dist),
        Metric::L2 => go!(L2Dist),
        Metric::Linf => go!(LInfDist),
        Metric::Lp(p) => go!(LpDist(F::cast(p))),
    }
}

// ------------------------------------------------------------------------------------------------
// oracle (own formulas, f64)

fn odist(m: Metric, a: &[f64], b: &[f64]) -> f64 {
    match m {
        Metric::L1 => a.iter().zip(b).map(|(x, y)| (x - y).abs()).sum(),
        Metric::L2 => a.iter().zip(b).map(|(x, y)| (x - y) * (x - y)).sum::<f64>().sqrt(),
        Metric::Linf => a.iter().zip(b).map(|(x, y)| (x - y).abs()).fold(0.0, f64::max),
        Metric::Lp(p) => a
            .iter()
            .zip(b)
            .map(|(x, y)| (x - y).abs().powf(p))
            .sum::<f64>()
            .powf(1.0 / p),
    }
}

/// The provided metrics themselves, called the way the indices and their users call them: on row
/// views and on whole matrices, in every memory layout a view can have (standard, strided,
/// backwards, column-major), `distance` and `rdistance` against the textbook value.
fn metric_layout_case<F: Float>(c: &mut Case, m: Metric) -> Outcome {
    use linfa_nn::distance::Distance;
    let e = eps_of::<F>();
    let dim = c.rng.gen_range(1..=16usize);
    let scale = *[1.0, 1.0, 1e-3, 1e3].choose(&mut c.rng).unwrap();
    let a64: Vec<f64> = (0..dim).map(|_| F::cast(crate::gen::normal(&mut c.rng) * scale).to_f64().unwrap()).collect();
    let b64: Vec<f64> = (0..dim).map(|_| F::cast(crate::gen::normal(&mut c.rng) * scale).to_f64().unwrap()).collect();
    let want = odist(m, &a64, &b64);
    let sabs: f64 = a64.iter().zip(&b64).map(|(x, y)| (x - y).abs()).sum();
    let tol = 16.0 * (dim as f64 + 4.0) * e * sabs + f64::MIN_POSITIVE;
    // layouts of a logical vector v: standard / every second cell / stored backwards
    let lay = |v: &[f64], l: usize| -> (Array1<F>, usize) {
        match l {
            0 => (Array1::from_iter(v.iter().map(|x| F::cast(*x))), 0),
            1 => (Array1::from_shape_fn(2 * v.len(), |i| if i % 2 == 0 { F::cast(v[i / 2]) } else { F::cast(-77.0) }), 1),
            _ => (Array1::from_shape_fn(v.len(), |i| F::cast(v[v.len() - 1 - i])), 2),
        }
    };
    let names = ["standard", "stride-2", "backwards"];
    macro_rules! with_metric {
        ($f:expr) => {
            match m {
                Metric::L1 => $f(L1Dist),
                Metric::L2 => $f(L2Dist),
                Metric::Linf => $f(LInfDist),
                Metric::Lp(p) => $f(LpDist(F::cast(p))),
            }
        };
    }
    for la in 0..3 {
        for lb in 0..3 {
            let (sa, ka) = lay(&a64, la);
            let (sb, kb) = lay(&b64, lb);
            let va = match ka { 0 => sa.view(), 1 => sa.slice(s![..;2]), _ => sa.slice(s![..;-1]) };
            let vb = match kb { 0 => sb.view(), 1 => sb.slice(s![..;2]), _ => sb.slice(s![..;-1]) };
            let (d, rd, rd2d) = with_metric!(|df| {
                let d = Distance::<F>::distance(&df, va, vb).to_f64().unwrap();
                let rd = Distance::<F>::rdistance(&df, va, vb);
                (d, Distance::<F>::rdist_to_dist(&df, rd).to_f64().unwrap(), Distance::<F>::dist_to_rdist(&df, F::cast(want)).to_f64().unwrap())
            });
            let _ = rd2d;
            ensure!((d - want).abs() <= tol, "C07/metric/distance-depends-on-memory-layout-or-wrong",
                {"metric": m.name(), "a": a64, "b": b64, "layout_a": names[la], "layout_b": names[lb], "distance": d, "textbook": want, "tol": tol});
            ensure!((rd - want).abs() <= 2.0 * tol, "C07/metric/rdistance-depends-on-memory-layout-or-wrong",
                {"metric": m.name(), "a": a64, "b": b64, "layout_a": names[la], "layout_b": names[lb], "rdist_to_dist(rdistance)": rd, "textbook": want, "tol": tol});
        }
    }
    // whole matrices (k-means measures the shift of its centroid matrix this way): C order against
    // column-major and against rows stored back to front
    let (r, cc) = (c.rng.gen_range(1..=5usize), c.rng.gen_range(1..=6usize));
    let a2 = Array2::<F>::from_shape_fn((r, cc), |_| F::cast(crate::gen::normal(&mut c.rng) * scale));
    let b2 = Array2::<F>::from_shape_fn((r, cc), |_| F::cast(crate::gen::normal(&mut c.rng) * scale));
    let fa: Vec<f64> = a2.iter().map(|x| x.to_f64().unwrap()).collect();
    let fb: Vec<f64> = b2.iter().map(|x| x.to_f64().unwrap()).collect();
    let want2 = odist(m, &fa, &fb);
    let sabs2: f64 = fa.iter().zip(&fb).map(|(x, y)| (x - y).abs()).sum();
    let tol2 = 16.0 * ((r * cc) as f64 + 4.0) * e * sabs2 + f64::MIN_POSITIVE;
    let mut bt = Array2::<F>::zeros((cc, r));
    bt.assign(&b2.t());
    let b_f = bt.view().reversed_axes(); // logical b2, column-major
    let brev = Array2::<F>::from_shape_fn((r, cc), |(i, j)| b2[[r - 1 - i, j]]);
    let b_r = brev.slice(s![..;-1, ..]); // logical b2, negative row stride
    for (nm, vb) in [("column-major", b_f), ("rows-backwards", b_r)] {
        let d = with_metric!(|df| Distance::<F>::distance(&df, a2.view(), vb).to_f64().unwrap());
        ensure!((d - want2).abs() <= tol2, "C07/metric/matrix-distance-depends-on-memory-layout-or-wrong",
            {"metric": m.name(), "shape": [r, cc], "layout_b": nm, "distance": d, "textbook": want2, "tol": tol2});
    }
    c.evals = 11;
    held(dim >= 2, format!("metric-layout {} d{dim} {:x}", m.name(), c.idx))
}

fn f64s<F: Float>(v: ArrayView1<F>) -> Vec<f64> {
    v.iter().map(|x| x.to_f64().unwrap()).collect()
}
fn rows64<F: Float>(b: ArrayView2<F>) -> Vec<Vec<f64>> {
    b.rows().into_iter().map(|r| f64s(r)).collect()
}
fn eps_of<F: Float>() -> f64 {
    F::epsilon().to_f64().unwrap()
}
fn rows_contiguous<F: Float>(b: ArrayView2<F>) -> bool {
    b.rows().into_iter().all(|r| r.to_slice().is_some())
}

/// everything the judge needs to know about one (point set, metric, query)
struct Query<'a, F: Float> {
    batch: ArrayView2<'a, F>,
    q64: Vec<f64>,
    /// oracle distance to every stored row
    d: Vec<f64>,
    /// the same, ascending
    ds: Vec<f64>,
    dmax: f64,
    /// C·ε_F
    ce: f64,
    /// underflow floor: below `(MIN_POSITIVE_F/ε_F)^(1/p)` the terms |a-b|^p of L2 / Lp are
    /// subnormal in F and the computed distance has no relative accuracy (0 for L1 / Linf)
    under: f64,
    metric: Metric,
}

impl<'a, F: Float> Query<'a, F> {
    fn new(batch: ArrayView2<'a, F>, pts: &[Vec<f64>], q64: Vec<f64>, metric: Metric) -> Self {
        let d: Vec<f64> = pts.iter().map(|p| odist(metric, &q64, p)).collect();
        let mut ds = d.clone();
        ds.sort_by(|a, b| a.partial_cmp(b).unwrap());
        let dmax = ds.last().copied().unwrap_or(0.0);
        let dim = batch.ncols();
        let ce = 32.0 * (dim as f64 + 4.0) * eps_of::<F>();
        let pw = match metric {
            Metric::L2 => 2.0,
            Metric::Lp(p) => p.max(1.0),
            _ => 0.0,
        };
        let under = if pw > 0.0 {
            (dim as f64) * (F::min_positive_value().to_f64().unwrap() / eps_of::<F>()).powf(1.0 / pw)
        } else {
            0.0
        };
        Query { batch, q64, d, ds, dmax, ce, under, metric }
    }
    fn n(&self) -> usize {
        self.d.len()
    }
    fn tol_rel(&self, x: f64) -> f64 {
        self.ce * x + self.under
    }
    fn tol_ball(&self, x: f64) -> f64 {
        self.ce * x.max(3.0 * self.dmax) + self.under
    }
    fn desc(&self) -> Value {
        let small = self.n() * self.batch.ncols() <= 64;
        json!({
            "metric": self.metric.name(), "query": self.q64, "n": self.n(), "dim": self.batch.ncols(),
            "points": if small { json!(rows64(self.batch)) } else { json!("<large>") },
        })
    }
}

/// structural checks shared by both query kinds: index range, distinctness, pairing.
/// returns the row ids.
fn check_pairs<F: Float>(
    q: &Query<F>,
    op: &str,
    kname: &str,
    res: &[(ArrayView1<F>, usize)],
) -> Result<Vec<usize>, Fail> {
    let n = q.n();
    let mut seen = vec![false; n];
    let mut ids = Vec::with_capacity(res.len());
    for (pos, (pt, i)) in res.iter().enumerate() {
        if *i >= n {
            return Err((format!("C07/{op}/index-out-of-range"),
                json!({"kind":kname,"pos":pos,"index":i,"case":q.desc()})));
        }
        if seen[*i] {
            return Err((format!("C07/{op}/repeated-index"),
                json!({"kind":kname,"pos":pos,"index":i,"case":q.desc()})));
        }
        seen[*i] = true;
        let row = q.batch.row(*i);
        let same = pt.len() == row.len()
            && pt.iter().zip(row.iter()).all(|(a, b)| {
                a.to_f64().unwrap().to_bits() == b.to_f64().unwrap().to_bits()
            });
        if !same {
            return Err((format!("C07/{op}/point-index-mismatch"),
                json!({"kind":kname,"pos":pos,"index":i,"returned_point":f64s(pt.view()),
                       "batch_row":f64s(row),"case":q.desc()})));
        }
        ids.push(*i);
    }
    Ok(ids)
}

/// Judge one k-nearest answer. Returns (largest residual in units of ε_F·d, in units of
/// ε_F·3·Dmax).
fn judge_knn<F: Float>(
    q: &Query<F>,
    k: usize,
    kidx: usize,
    res: &[(ArrayView1<F>, usize)],
) -> Result<(f64, f64), Fail> {
    let kname = KIND_NAMES[kidx];
    let n = q.n();
    let want = k.min(n);
    if res.len() != want {
        return Err(("C07/knn/wrong-count".into(),
            json!({"kind":kname,"k":k,"returned":res.len(),"expected":want,"case":q.desc()})));
    }
    let ids = check_pairs(q, "knn", kname, res)?;
    let got: Vec<f64> = ids.iter().map(|i| q.d[*i]).collect();
    for j in 1..got.len() {
        if got[j - 1] > got[j] + q.tol_rel(got[j - 1]) {
            return Err(("C07/knn/not-ascending".into(),
                json!({"kind":kname,"k":k,"pos":j,"dist_prev":got[j-1],"dist":got[j],
                       "indices":ids,"case":q.desc()})));
        }
    }
    let mut gs = got.clone();
    gs.sort_by(|a, b| a.partial_cmp(b).unwrap());
    let (mut r_rel, mut r_abs) = (0.0f64, 0.0f64);
    let e = eps_of::<F>();
    for j in 0..want {
        let (a, b) = (gs[j], q.ds[j]);
        let diff = (a - b).abs();
        let tol = q.tol_rel(a.max(b));
        if !(diff <= tol) {
            return Err(("C07/knn/not-the-nearest".into(),
                json!({"kind":kname,"k":k,"rank":j,"returned_dist":a,"true_dist":b,"tol":tol,
                       "indices":ids,"returned_dists":gs,"true_dists":&q.ds[..want],"case":q.desc()})));
        }
        if diff > 0.0 {
            r_rel = r_rel.max(diff / (e * a.max(b)));
            r_abs = r_abs.max(diff / (e * 3.0 * q.dmax));
        }
    }
    Ok((r_rel, r_abs))
}

/// Judge one range answer against the oracle; returns the sorted row ids.
fn judge_range<F: Float>(
    q: &Query<F>,
    r: f64,
    kidx: usize,
    res: &[(ArrayView1<F>, usize)],
) -> Result<Vec<usize>, Fail> {
    let kname = KIND_NAMES[kidx];
    let mut ids = check_pairs(q, "range", kname, res)?;
    ids.sort_unstable();
    let mut present = vec![false; q.n()];
    for i in &ids {
        present[*i] = true;
    }
    for i in 0..q.n() {
        let d = q.d[i];
        let tol_in = q.tol_rel(d.max(r));
        let tol_out = q.tol_rel(d.max(r));
        if d < r - tol_in && !present[i] {
            return Err(("C07/range/missing-inside".into(),
                json!({"kind":kname,"radius":r,"index":i,"dist":d,"tol":tol_in,"returned":ids,"case":q.desc()})));
        }
        if d > r + tol_out && present[i] {
            return Err(("C07/range/contains-outside".into(),
                json!({"kind":kname,"radius":r,"index":i,"dist":d,"tol":tol_out,"returned":ids,"case":q.desc()})));
        }
    }
    Ok(ids)
}

/// Cross-kind agreement on one range query. `sets[k]` = sorted ids of kind k (None when the kind
/// was not run). kd-tree must equal the linear scan exactly (same point-level predicate, exact
/// box bound); ball tree ⊆ linear scan exactly, and what it lacks must lie inside its noise floor.
/// Returns number of ball-floor losses.
fn judge_agreement<F: Float>(q: &Query<F>, r: f64, sets: &[Option<Vec<usize>>; 3]) -> Result<(u64, f64, f64), Fail> {
    let Some(lin) = &sets[LINEAR] else { return Ok((0, 0.0, 0.0)) };
    let on_radius = |i: usize| (q.d[i] - r).abs() <= q.tol_rel(q.d[i].max(r));
    let diff = |a: &Vec<usize>, b: &Vec<usize>| -> Vec<usize> {
        a.iter().filter(|i| b.binary_search(i).is_err()).copied().collect()
    };
    if let Some(kd) = &sets[KD] {
        let extra = diff(kd, lin);
        let lacking = diff(lin, kd);
        if !extra.is_empty() || !lacking.is_empty() {
            let all_on = extra.iter().chain(lacking.iter()).all(|i| on_radius(*i));
            let sig = if all_on { "C07/range/kinds-disagree-on-radius" } else { "C07/range/kinds-disagree" };
            return Err((sig.into(), json!({"kinds":"kdtree vs linear","radius":r,
                "only_kdtree":extra,"only_linear":lacking,
                "dists_only_kdtree": extra.iter().map(|i| q.d[*i]).collect::<Vec<_>>(),
                "dists_only_linear": lacking.iter().map(|i| q.d[*i]).collect::<Vec<_>>(),
                "linear":lin,"kdtree":kd,"case":q.desc()})));
        }
    }
    let mut losses = 0;
    let mut worst = 0.0f64;
    let mut worst_rel = 0.0f64;
    if let Some(ball) = &sets[BALL] {
        let extra = diff(ball, lin);
        if !extra.is_empty() {
            let all_on = extra.iter().all(|i| on_radius(*i));
            let sig = if all_on { "C07/range/kinds-disagree-on-radius" } else { "C07/range/kinds-disagree" };
            return Err((sig.into(), json!({"kinds":"balltree vs linear","radius":r,"only_balltree":extra,
                "dists_only_balltree": extra.iter().map(|i| q.d[*i]).collect::<Vec<_>>(),
                "linear":lin,"balltree":ball,"case":q.desc()})));
        }
        let lacking = diff(lin, ball);
        for i in &lacking {
            worst = worst.max((q.d[*i] - r).abs() / (eps_of::<F>() * 3.0 * q.dmax.max(r / 3.0)));
            worst_rel = worst_rel.max((q.d[*i] - r).abs() / (eps_of::<F>() * r));
        }
        // distances below the underflow floor of the metric (the powers of the coordinate differences
        // are subnormal or zero in F) carry absolute, not relative, errors: neither the point-level
        // predicate nor any bound means anything there (stated assumption) - not judged
        let lacking: Vec<usize> = {
            let under_only = !lacking.is_empty() && lacking.iter().all(|i| (q.d[*i] - r).abs() <= q.under && q.d[*i].max(r) <= q.under);
            if under_only { vec![] } else { lacking }
        };
        if !lacking.is_empty() {
            // "the three kinds agree with one another on every query": the ball tree may not drop
            // points the linear scan returns, however close to the radius they are (its sphere
            // bound is a rounded quantity; a bound that prunes a sphere holding a point the
            // point-level test would accept is not a lower bound)
            let within_ball_floor = lacking.iter().all(|i| (q.d[*i] - r).abs() <= q.tol_ball(q.d[*i].max(r)));
            let sig = if within_ball_floor { "C07/range/balltree-prunes-points-inside-the-radius" } else { "C07/range/kinds-disagree" };
            return Err((sig.into(), json!({"kinds":"balltree vs linear","radius":r,
                "only_linear":lacking,"dists_only_linear": lacking.iter().map(|i| q.d[*i]).collect::<Vec<_>>(),
                "below_radius_in_units_of_eps_r": worst_rel,
                "linear":lin,"balltree":ball,"case":q.desc()})));
        }
        losses = lacking.len() as u64;
        if losses > 0 && std::env::var("C07_DEBUG_LOSS").is_ok() {
            eprintln!("LOSS r={r:e} lacking={lacking:?} d={:?} {}", lacking.iter().map(|i| q.d[*i]).collect::<Vec<_>>(), q.desc());
        }
    }
    Ok((losses, worst, worst_rel))
}

// ------------------------------------------------------------------------------------------------
// driver: all kinds × leaf sizes × queries × k × radii over one stored batch

fn next_after<F: Float>(x: F, up: bool) -> F {
    let v = x.to_f64().unwrap();
    if !(v > 0.0) || !v.is_finite() {
        return x;
    }
    if std::mem::size_of::<F>() == 4 {
        let b = (v as f32).to_bits();
        F::cast(f32::from_bits(if up { b + 1 } else { b - 1 }))
    } else {
        let b = v.to_bits();
        F::cast(f64::from_bits(if up { b + 1 } else { b - 1 }))
    }
}

fn dedup_bits<F: Float>(v: Vec<F>) -> Vec<F> {
    let mut seen = std::collections::BTreeSet::new();
    v.into_iter()
        .filter(|x| {
            let f = x.to_f64().unwrap();
            f.is_finite() && f >= 0.0 && seen.insert(f.to_bits())
        })
        .collect()
}

/// radii for one query: 0, exact neighbour distances (and their floating-point neighbours),
/// midpoints between consecutive distinct distances, beyond the largest distance.
fn radii_for<F: Float>(q: &Query<F>, rng: &mut Rng, all_ranks: bool, max_ranks: usize) -> Vec<F> {
    let n = q.n();
    let mut out = vec![F::zero()];
    let beyond = if q.dmax > 0.0 { 2.5 * q.dmax } else { 1.0 };
    out.push(F::cast(beyond));
    if n == 0 {
        out.push(F::cast(0.75));
        return dedup_bits(out);
    }
    // distinct distances
    let mut distinct: Vec<f64> = vec![];
    for d in &q.ds {
        if distinct.last().map_or(true, |l| *d > *l) {
            distinct.push(*d);
        }
    }
    let ranks: Vec<usize> = if all_ranks || distinct.len() <= max_ranks {
        (0..distinct.len()).collect()
    } else {
        let mut r = vec![0, 1, distinct.len() / 2, distinct.len() - 1];
        while r.len() < max_ranks {
            r.push(rng.gen_range(0..distinct.len()));
        }
        r.sort_unstable();
        r.dedup();
        r
    };
    for j in ranks {
        let d = F::cast(distinct[j]);
        out.push(d);
        out.push(next_after(d, true));
        out.push(next_after(d, false));
        if j + 1 < distinct.len() {
            out.push(F::cast(0.5 * (distinct[j] + distinct[j + 1])));
        } else {
            out.push(F::cast(distinct[j] * 1.5));
        }
        if j == 0 && distinct[0] > 0.0 {
            out.push(F::cast(0.5 * distinct[0]));
        }
        if j <= 1 && distinct[j] > 0.0 {
            // slightly larger than an exact distance: the sphere bound of the ball tree has an
            // absolute error, which matters most when the radius is tiny against the cloud
            for e in [10, 20, 30, 40] {
                out.push(F::cast(distinct[j] * (1.0 + (2.0f64).powi(-e))));
            }
        }
    }
    dedup_bits(out)
}

fn ks_for(n: usize, rng: &mut Rng, all: bool) -> Vec<usize> {
    let mut ks = if all {
        (0..=n + 1).collect::<Vec<_>>()
    } else {
        vec![0, 1, 2, n / 2, n.saturating_sub(1), n, n + 3]
    };
    if !all && rng.gen_range(0..8) == 0 {
        ks.push(usize::MAX);
    }
    ks.sort_unstable();
    ks.dedup();
    ks
}

#[derive(Default)]
struct Tally {
    evals: u64,
    proper_subset: bool,
    knn_ties: u64,
    on_radius: u64,
}

struct Opts {
    all_ks: bool,
    all_ranks: bool,
    max_ranks: usize,
    strided_query: bool,
}

/// Run every index kind over the batch and judge everything. `leafs`: leaf sizes (None = the
/// default via `from_batch`).
fn drive<F: Float, DT: Data<Elem = F>>(
    c: &mut Case,
    batch: &ArrayBase<DT, Ix2>,
    metric: Metric,
    leafs: &[Option<usize>],
    queries: &[Array1<F>],
    o: &Opts,
    t: &mut Tally,
    skip_kd: bool,
) -> Result<(), Fail> {
    let view = batch.view();
    let pts = rows64(view);
    let n = pts.len();
    if leafs.is_empty() {
        return Ok(());
    }
    let kd_ok = rows_contiguous(view) && !skip_kd;
    if !rows_contiguous(view) {
        c.count("kdtree-skipped-noncontiguous-rows");
    }
    // oracle per query, plans per query
    let mut plans = vec![];
    for qv in queries {
        let q = Query::new(view, &pts, f64s(qv.view()), metric);
        let ks = ks_for(n, &mut c.rng, o.all_ks);
        let radii = radii_for(&q, &mut c.rng, o.all_ranks, o.max_ranks);
        plans.push((qv, q, ks, radii));
    }
    for leaf in leafs {
        let mut idx: Vec<Option<Idx<F>>> = vec![];
        for k in 0..3 {
            if k == KD && !kd_ok {
                idx.push(None);
                continue;
            }
            match guarded(|| build(k, batch, *leaf, metric)) {
                Ok(Ok(i)) => idx.push(Some(i)),
                Ok(Err(e)) => {
                    return Err(("C07/build/error-on-valid-input".into(),
                        json!({"kind":KIND_NAMES[k],"leaf":leaf,"error":e.to_string(),"n":n,"dim":view.ncols(),"metric":metric.name()})))
                }
                Err(p) => {
                    return Err(("C07/build/panic".into(),
                        json!({"kind":KIND_NAMES[k],"leaf":leaf,"panic":p,"n":n,"dim":view.ncols(),"metric":metric.name(),
                               "points": if n*view.ncols() <= 64 { json!(pts) } else { json!("<large>") }})))
                }
            }
        }
        for (qv, q, ks, radii) in &plans {
            // strided copy of the query for the kinds that accept any layout
            let mut wide = Array1::<F>::zeros(2 * qv.len());
            for (j, x) in qv.iter().enumerate() {
                wide[2 * j] = *x;
                wide[2 * j + 1] = F::cast(-7.5);
            }
            let strided = wide.slice(s![..;2]);
            for &k in ks {
                for kidx in 0..3 {
                    let Some(ix) = &idx[kidx] else { continue };
                    let pv = if o.strided_query && kidx != KD { strided } else { qv.view() };
                    let res = match guarded(|| ix.k_nearest(pv, k)) {
                        Ok(Ok(r)) => r,
                        Ok(Err(e)) => {
                            return Err(("C07/knn/error-on-valid-query".into(),
                                json!({"kind":KIND_NAMES[kidx],"k":k,"leaf":leaf,"error":e.to_string(),"case":q.desc()})))
                        }
                        Err(p) => {
                            let sig = if k == 0 { "C07/knn/panic-k-zero" } else { "C07/knn/panic" };
                            return Err((sig.into(),
                                json!({"kind":KIND_NAMES[kidx],"k":k,"leaf":leaf,"panic":p,"case":q.desc()})));
                        }
                    };
                    let (r_rel, r_abs) = judge_knn(q, k, kidx, &res).map_err(|(s, mut v)| {
                        v["leaf"] = json!(leaf);
                        (s, v)
                    })?;
                    c.resid(&format!("knn-dist/{} [eps_F*d]", KIND_NAMES[kidx]), r_rel);
                    if kidx == BALL {
                        c.resid("knn-dist/balltree [eps_F*3*Dmax]", r_abs);
                    }
                    t.evals += 1;
                }
                let w = k.min(n);
                if w > 0 && w < n && (q.ds[w] - q.ds[w - 1]) <= q.tol_rel(q.ds[w]) {
                    t.knn_ties += 1;
                }
            }
            for r in radii {
                let r64 = r.to_f64().unwrap();
                let mut sets: [Option<Vec<usize>>; 3] = [None, None, None];
                for kidx in 0..3 {
                    let Some(ix) = &idx[kidx] else { continue };
                    let pv = if o.strided_query && kidx != KD { strided } else { qv.view() };
                    let res = match guarded(|| ix.within_range(pv, *r)) {
                        Ok(Ok(r)) => r,
                        Ok(Err(e)) => {
                            return Err(("C07/range/error-on-valid-query".into(),
                                json!({"kind":KIND_NAMES[kidx],"radius":r64,"leaf":leaf,"error":e.to_string(),"case":q.desc()})))
                        }
                        Err(p) => {
                            return Err(("C07/range/panic".into(),
                                json!({"kind":KIND_NAMES[kidx],"radius":r64,"leaf":leaf,"panic":p,"case":q.desc()})))
                        }
                    };
                    let ids = judge_range(q, r64, kidx, &res).map_err(|(s, mut v)| {
                        v["leaf"] = json!(leaf);
                        (s, v)
                    })?;
                    if !ids.is_empty() && ids.len() < n {
                        t.proper_subset = true;
                    }
                    sets[kidx] = Some(ids);
                    t.evals += 1;
                }
                let (losses, worst, worst_rel) = judge_agreement(q, r64, &sets).map_err(|(s, mut v)| {
                    v["leaf"] = json!(leaf);
                    (s, v)
                })?;
                if losses > 0 {
                    c.count_n("balltree-noise-floor-losses", losses);
                    c.count_n(&format!("balltree-noise-floor-losses/{}", c.family), losses);
                    c.resid("range/balltree-loss [eps_F*3*Dmax]", worst);
                    c.resid("range/balltree-loss [eps_F*r]", worst_rel);
                }
                if q.d.iter().any(|d| (d - r64).abs() <= q.tol_rel(d.max(r64))) {
                    t.on_radius += 1;
                }
            }
        }
    }
    Ok(())
}

fn finish_tally(c: &mut Case, t: &Tally) {
    c.evals = t.evals.max(1);
    c.count_n("knn-queries-with-tie-at-k", t.knn_ties);
    c.count_n("range-queries-with-point-on-radius", t.on_radius);
}

// ------------------------------------------------------------------------------------------------
// domain guard: the external `kdtree` crate recurses without end (stack overflow, process abort)
// when more than `leaf` points share a bucket whose widest side spans two adjacent floats with
// `min + (max-min)/2 == min`. That cannot be observed in-process; the in-process families skip the
// kd-tree for such batches and the `kdtree-adjacent-floats` family observes it in a child process.
fn kd_hazard<F: Float>(b: ArrayView2<F>, leaf: usize) -> bool {
    if b.nrows() <= leaf {
        return false;
    }
    let two = F::cast(2.0);
    for col in b.columns() {
        let mut v: Vec<F> = col.iter().copied().collect();
        v.sort_by(|a, b| a.partial_cmp(b).unwrap());
        for w in v.windows(2) {
            if w[1] > w[0] && w[0] + (w[1] - w[0]) / two == w[0] {
                return true;
            }
        }
    }
    false
}

// ------------------------------------------------------------------------------------------------
// workload: clouds

const SHAPES: [&str; 10] = [
    "uniform", "blobs", "duplicates", "all-equal", "int-grid", "collinear", "corners", "outlier",
    "exp-spaced", "sphere",
];

fn gen_cloud(rng: &mut Rng, shape: &str, n: usize, dim: usize) -> Array2<f64> {
    use crate::gen::*;
    match shape {
        "uniform" => uniform_matrix(rng, n, dim, -1.0, 1.0),
        "blobs" => {
            let nb = rng.gen_range(1..=5);
            blobs(rng, n, dim, nb, 1.0, 0.02).0
        }
        "duplicates" => {
            let m = rng.gen_range(1..=((n / 4).max(1)).min(12));
            let base = uniform_matrix(rng, m, dim, -1.0, 1.0);
            Array2::from_shape_fn((n, dim), {
                let picks: Vec<usize> = (0..n).map(|_| rng.gen_range(0..m)).collect();
                move |(i, j)| base[[picks[i], j]]
            })
        }
        "all-equal" => {
            let p: Vec<f64> = (0..dim).map(|_| uniform(rng, -1.0, 1.0)).collect();
            Array2::from_shape_fn((n, dim), |(_, j)| p[j])
        }
        "int-grid" => {
            let side = rng.gen_range(2..=6) as f64;
            Array2::from_shape_fn((n, dim), |_| (rng.gen_range(0.0..side) as f64).floor() / 4.0)
        }
        "collinear" => {
            let dir: Vec<f64> = (0..dim).map(|_| uniform(rng, -1.0, 1.0)).collect();
            let ts: Vec<f64> = (0..n).map(|_| (uniform(rng, -8.0, 8.0)).round() / 8.0).collect();
            Array2::from_shape_fn((n, dim), |(i, j)| ts[i] * dir[j])
        }
        "corners" => Array2::from_shape_fn((n, dim), |_| if rng.gen::<bool>() { 1.0 } else { -1.0 }),
        "outlier" => {
            let mut a = uniform_matrix(rng, n, dim, -0.01, 0.01);
            if n > 0 {
                let i = rng.gen_range(0..n);
                for j in 0..dim {
                    a[[i, j]] = 1.0;
                }
            }
            a
        }
        "exp-spaced" => {
            let ts: Vec<f64> = (0..n).map(|i| (2.0f64).powi(-((i % 40) as i32))).collect();
            Array2::from_shape_fn((n, dim), |(i, j)| if j == 0 { ts[i] } else { ts[i] * 0.5 })
        }
        _ => {
            // points on a sphere around the origin: many near-equal distances from the centre
            let mut a = normal_matrix(rng, n, dim);
            for mut r in a.rows_mut() {
                let nrm = r.iter().map(|x| x * x).sum::<f64>().sqrt().max(1e-300);
                r.mapv_inplace(|x| x / nrm);
            }
            a
        }
    }
}

/// materialise the f64 prototype in element type F with the requested memory layout.
/// Returns the owner array and a closure-free description of how to view it.
enum Layout {
    C,
    F,
    RowStrided,
    ColStrided,
    /// rows stored back to front: one contiguous buffer, contiguous rows, negative row stride
    RowsReversed,
}

fn with_layout<F: Float, R>(
    proto: &Array2<f64>,
    layout: &Layout,
    f: impl FnOnce(ArrayView2<F>) -> R,
) -> R {
    let (n, d) = proto.dim();
    match layout {
        Layout::C => {
            let a = proto.mapv(|x| F::cast(x));
            f(a.view())
        }
        Layout::F => {
            let mut t = Array2::<F>::zeros((d, n));
            for i in 0..n {
                for j in 0..d {
                    t[[j, i]] = F::cast(proto[[i, j]]);
                }
            }
            f(t.t())
        }
        Layout::RowStrided => {
            let mut big = Array2::<F>::from_elem((2 * n + 1, d), F::cast(123.25));
            for i in 0..n {
                for j in 0..d {
                    big[[2 * i + 1, j]] = F::cast(proto[[i, j]]);
                }
            }
            let v = big.slice(s![1..;2, ..]);
            f(v.slice(s![..n, ..]))
        }
        Layout::ColStrided => {
            let mut big = Array2::<F>::from_elem((n, 2 * d), F::cast(-55.5));
            for i in 0..n {
                for j in 0..d {
                    big[[i, 2 * j]] = F::cast(proto[[i, j]]);
                }
            }
            f(big.slice(s![.., ..;2]))
        }
        Layout::RowsReversed => {
            let back = Array2::<F>::from_shape_fn((n, d), |(i, j)| F::cast(proto[[n - 1 - i, j]]));
            f(back.slice(s![..;-1, ..]))
        }
    }
}

fn cloud_queries<F: Float>(rng: &mut Rng, b: ArrayView2<F>, nq: usize, spread: f64, centre: f64) -> Vec<Array1<F>> {
    let (n, d) = b.dim();
    let mut out: Vec<Array1<F>> = vec![];
    let two = F::cast(2.0);
    // bounding box (for cell-border queries)
    let (mut lo, mut hi) = (vec![F::cast(centre - spread); d], vec![F::cast(centre + spread); d]);
    if n > 0 {
        for j in 0..d {
            let col = b.column(j);
            lo[j] = col.iter().copied().fold(F::infinity(), |a, x| if x < a { x } else { a });
            hi[j] = col.iter().copied().fold(F::neg_infinity(), |a, x| if x > a { x } else { a });
        }
    }
    for t in 0..nq {
        let kind = if n == 0 { 3 } else { t % 7 };
        let q: Array1<F> = match kind {
            // a stored point
            0 => b.row(rng.gen_range(0..n)).to_owned(),
            // midpoint of two stored points (bisector: near-ties)
            1 => {
                let (i, j) = (rng.gen_range(0..n), rng.gen_range(0..n));
                Array1::from_shape_fn(d, |c| b[[i, c]] + (b[[j, c]] - b[[i, c]]) / two)
            }
            // centre of the bounding box = first kd split value in every coordinate
            2 => Array1::from_shape_fn(d, |c| lo[c] + (hi[c] - lo[c]) / two),
            // random point in the (slightly enlarged) box
            3 => Array1::from_shape_fn(d, |c| {
                let (l, h) = (lo[c].to_f64().unwrap(), hi[c].to_f64().unwrap());
                let w = (h - l).max(spread * 1e-3);
                F::cast(crate::gen::uniform(rng, l - 0.1 * w, h + 0.1 * w))
            }),
            // far away
            4 => Array1::from_shape_fn(d, |c| {
                let (l, h) = (lo[c].to_f64().unwrap(), hi[c].to_f64().unwrap());
                let w = (h - l).max(spread);
                F::cast(h + w * crate::gen::uniform(rng, 1.0, 4.0))
            }),
            // stored point moved along one axis onto another point's coordinate (cell border)
            5 => {
                let (i, j) = (rng.gen_range(0..n), rng.gen_range(0..n));
                let mut q = b.row(i).to_owned();
                let c = rng.gen_range(0..d);
                q[c] = b[[j, c]];
                q
            }
            // a corner of the bounding box, or a point very close to a stored point
            _ => {
                if rng.gen::<bool>() {
                    Array1::from_shape_fn(d, |c| if rng.gen::<bool>() { lo[c] } else { hi[c] })
                } else {
                    let i = rng.gen_range(0..n);
                    let rel = if std::mem::size_of::<F>() == 4 { 1e-4 } else { 1e-9 };
                    Array1::from_shape_fn(d, |c| {
                        let w = (hi[c] - lo[c]).to_f64().unwrap().max(spread * 1e-3);
                        b[[i, c]] + F::cast(w * rel * crate::gen::uniform(rng, -1.0, 1.0))
                    })
                }
            }
        };
        out.push(q);
    }
    out
}

struct CloudSpec {
    f32_: bool,
    shape: &'static str,
    n: usize,
    dim: usize,
    metric: Metric,
    layout: usize,
    offset: f64,
    scale: f64,
    strided_query: bool,
}

fn cloud_spec(c: &mut Case) -> CloudSpec {
    let idx = c.idx;
    let rng = &mut c.rng;
    let f32_ = idx % 2 == 1;
    let metric = METRICS[(idx / 2) as usize % NM];
    let shape = SHAPES[((idx / 10) % SHAPES.len() as u64) as usize];
    let dim = *[1usize, 1, 2, 2, 3, 3, 4, 5, 8, 12, 16].choose(rng).unwrap();
    let nmax = c.tier.pick(400.0, 5000.0);
    let n = match rng.gen_range(0..100) {
        0..=1 => 0,
        2..=4 => 1,
        5..=39 => rng.gen_range(2..=12),
        40..=84 => crate::gen::log_uniform(rng, 13.0, 150.0) as usize,
        _ => crate::gen::log_uniform(rng, 150.0, nmax) as usize,
    };
    let layout = *[0usize, 0, 0, 1, 2, 3, 4].choose(rng).unwrap(); // C is drawn three times as often
    let (offset, scale) = if f32_ {
        (
            *[0.0, 0.0, 0.0, 1e3, -1e4, 3e5].choose(rng).unwrap(),
            *[1.0, 1.0, 1e-3, 1e3].choose(rng).unwrap(),
        )
    } else {
        (
            *[0.0, 0.0, 0.0, 1e3, -1e6, 1e9, 1e13].choose(rng).unwrap(),
            *[1.0, 1.0, 1e-3, 1e3, 1e-20, 1e20].choose(rng).unwrap(),
        )
    };
    CloudSpec { f32_, shape, n, dim, metric, layout, offset, scale, strided_query: rng.gen_range(0..3) == 0 }
}

fn cloud_case<F: Float>(c: &mut Case, sp: &CloudSpec) -> Outcome {
    let mut proto = gen_cloud(&mut c.rng, sp.shape, sp.n, sp.dim);
    // offset is relative to the scale so that it survives `scale`
    proto.mapv_inplace(|x| (x + sp.offset) * sp.scale);
    let layout = match sp.layout {
        0 => Layout::C,
        1 => Layout::F,
        2 => Layout::RowStrided,
        3 => Layout::ColStrided,
        _ => Layout::RowsReversed,
    };
    let leafs: Vec<Option<usize>> = if sp.n <= 60 {
        vec![Some(1), Some(2), Some(3), Some(16), None]
    } else {
        let mut l = vec![Some(1), Some(2), Some(3), Some(16), None, Some(7), Some(64)];
        l.shuffle(&mut c.rng);
        l.truncate(2);
        l
    };
    let nq = if sp.n <= 60 { 7 } else if sp.n <= 600 { 7 } else { 5 };
    c.note("spec", json!({"elem": if sp.f32_ {"f32"} else {"f64"}, "shape": sp.shape, "n": sp.n, "dim": sp.dim,
        "metric": sp.metric.name(), "layout": sp.layout, "offset": sp.offset, "scale": sp.scale,
        "leafs": leafs, "strided_query": sp.strided_query}));
    let mut t = Tally::default();
    let res = with_layout::<F, _>(&proto, &layout, |b| {
        let queries = cloud_queries(&mut c.rng, b, nq, sp.scale, sp.offset * sp.scale);
        let o = Opts { all_ks: sp.n <= 8, all_ranks: sp.n <= 12, max_ranks: 5, strided_query: sp.strided_query };
        // the kd-tree hazard depends on the leaf size: split the leaf list
        let (safe, risky): (Vec<Option<usize>>, Vec<Option<usize>>) = leafs.iter().copied().partition(|l| !kd_hazard(b, l.unwrap_or(16)));
        let mut r = drive(c, &b, sp.metric, &safe, &queries, &o, &mut t, false);
        if r.is_ok() && !risky.is_empty() {
            c.count("kdtree-skipped-adjacent-float-hazard");
            r = drive(c, &b, sp.metric, &risky, &queries, &o, &mut t, true);
        }
        r
    });
    finish_tally(c, &t);
    match res {
        Err((sig, detail)) => violated(sig, detail),
        Ok(()) => held(
            sp.n >= 2 && t.proper_subset,
            format!("{}/{}/n{}/d{}/{}/l{}/o{}/s{}/{:x}", if sp.f32_ { "f32" } else { "f64" }, sp.shape, sp.n, sp.dim,
                sp.metric.name(), sp.layout, sp.offset, sp.scale, c.idx),
        ),
    }
}

// ------------------------------------------------------------------------------------------------
// workload: integer lattices (exact arithmetic in every metric's additive part)

struct LatticeSpec {
    f32_: bool,
    dim: usize,
    side: usize,
    variant: usize,
    metric: Metric,
    offset: f64,
    scale: f64,
}

fn lattice_points(rng: &mut Rng, sp: &LatticeSpec) -> Array2<f64> {
    let (d, s) = (sp.dim, sp.side);
    let total = s.pow(d as u32);
    let mut rows: Vec<Vec<f64>> = (0..total)
        .map(|mut id| {
            (0..d)
                .map(|_| {
                    let v = (id % s) as f64;
                    id /= s;
                    v
                })
                .collect()
        })
        .collect();
    match sp.variant {
        0 => {}
        // random subset
        1 => {
            rows.shuffle(rng);
            let keep = rng.gen_range(1..=total);
            rows.truncate(keep);
        }
        // duplicates
        2 => {
            let extra = rng.gen_range(1..=total.min(40));
            for _ in 0..extra {
                let r = rows[rng.gen_range(0..rows.len())].clone();
                rows.push(r);
            }
        }
        // hollow: only the boundary cells
        _ => {
            let keep: Vec<Vec<f64>> = rows
                .iter()
                .filter(|r| r.iter().any(|v| *v == 0.0 || *v == (s - 1) as f64))
                .cloned()
                .collect();
            rows = keep;
        }
    }
    rows.shuffle(rng);
    let n = rows.len();
    Array2::from_shape_fn((n, d), |(i, j)| (rows[i][j] + sp.offset) * sp.scale)
}

fn lattice_case<F: Float>(c: &mut Case, sp: &LatticeSpec) -> Outcome {
    let proto = lattice_points(&mut c.rng, sp);
    let n = proto.nrows();
    let b = proto.mapv(|x| F::cast(x));
    // exactness of the representation (harness self-check)
    if b.iter().zip(proto.iter()).any(|(x, y)| x.to_f64().unwrap() != *y) {
        return inconclusive("lattice not exactly representable");
    }
    let d = sp.dim;
    let s = sp.side as f64;
    // queries: stored points, half-integer border points, points outside
    let nq = c.tier.pick(6, 10);
    let mut queries = vec![];
    for t in 0..nq {
        let q: Vec<f64> = match t % 4 {
            0 => proto.row(c.rng.gen_range(0..n)).iter().map(|x| x / sp.scale - sp.offset).collect(),
            1 => (0..d).map(|_| c.rng.gen_range(0..(2 * sp.side - 1)) as f64 / 2.0).collect(),
            2 => (0..d).map(|_| c.rng.gen_range(-1..=(sp.side as i64)) as f64).collect(),
            _ => (0..d)
                .map(|_| if c.rng.gen::<bool>() { c.rng.gen_range(0..sp.side) as f64 } else { (s - 1.0) / 2.0 })
                .collect(),
        };
        queries.push(Array1::from_shape_fn(d, |j| F::cast((q[j] + sp.offset) * sp.scale)));
    }
    c.note("spec", json!({"elem": if sp.f32_ {"f32"} else {"f64"}, "dim": d, "side": sp.side, "variant": sp.variant,
        "n": n, "metric": sp.metric.name(), "offset": sp.offset, "scale": sp.scale}));
    let leafs = [Some(1), Some(2), Some(3), Some(16)];
    let o = Opts { all_ks: n <= 10, all_ranks: true, max_ranks: usize::MAX, strided_query: c.idx % 3 == 0 };
    let mut t = Tally::default();
    let res = drive(c, &b, sp.metric, &leafs, &queries, &o, &mut t, false);
    finish_tally(c, &t);
    match res {
        Err((sig, detail)) => violated(sig, detail),
        Ok(()) => held(
            n >= 2 && t.proper_subset && (t.knn_ties > 0 || t.on_radius > 0),
            format!("{}/d{}/s{}/v{}/{}/o{}/s{}/{:x}", if sp.f32_ { "f32" } else { "f64" }, d, sp.side, sp.variant,
                sp.metric.name(), sp.offset, sp.scale, c.idx),
        ),
    }
}

// ------------------------------------------------------------------------------------------------
// workload: complete enumeration of small scopes

/// idx -> sequence over an alphabet of `a` symbols, lengths 0..=maxlen (shortlex order)
fn nth_sequence(mut idx: u64, a: u64, maxlen: u32) -> Option<Vec<usize>> {
    for len in 0..=maxlen {
        let cnt = a.pow(len);
        if idx < cnt {
            let mut v = vec![];
            for _ in 0..len {
                v.push((idx % a) as usize);
                idx /= a;
            }
            return Some(v);
        }
        idx -= cnt;
    }
    None
}
fn count_sequences(a: u64, maxlen: u32) -> u64 {
    (0..=maxlen).map(|l| a.pow(l)).sum()
}

fn exhaustive_case<F: Float>(c: &mut Case, dim: usize, seq: &[usize], metrics: &[Metric], t: &mut Tally) -> Result<(), Fail> {
    // alphabet: 1-D values 0..3; 2-D the 3x3 grid
    let n = seq.len();
    let b = Array2::<F>::from_shape_fn((n, dim), |(i, j)| {
        if dim == 1 {
            F::cast(seq[i] as f64)
        } else if j == 0 {
            F::cast((seq[i] % 3) as f64)
        } else {
            F::cast((seq[i] / 3) as f64)
        }
    });
    let mut queries = vec![];
    if dim == 1 {
        for h in -2..=8 {
            queries.push(Array1::from_elem(1, F::cast(h as f64 / 2.0)));
        }
    } else {
        for hx in -1..=5 {
            for hy in -1..=5 {
                queries.push(Array1::from_vec(vec![F::cast(hx as f64 / 2.0), F::cast(hy as f64 / 2.0)]));
            }
        }
    }
    let leafs: Vec<Option<usize>> = if dim == 1 { vec![Some(1), Some(2), Some(3)] } else { vec![Some(1), Some(2)] };
    let o = Opts { all_ks: true, all_ranks: true, max_ranks: usize::MAX, strided_query: false };
    for m in metrics {
        drive(c, &b, *m, &leafs, &queries, &o, t, false)?;
    }
    Ok(())
}

// ------------------------------------------------------------------------------------------------
// malformed builds and queries

fn errors_case<F: Float>(c: &mut Case, m: Metric) -> Outcome {
    let mut evals = 0u64;
    let name = m.name();
    // 1. zero-dimensional batches, 2. zero leaf size
    for k in 0..3 {
        for n in [0usize, 1, 4] {
            let z = Array2::<F>::zeros((n, 0));
            for leaf in [Some(1), Some(16), None, Some(0)] {
                match guarded(|| build(k, &z, leaf, m).map(|_| ())) {
                    Ok(Err(_)) => {}
                    Ok(Ok(())) => bail!("C07/errors/zero-dimension-accepted", {"kind":KIND_NAMES[k],"n":n,"leaf":leaf,"metric":name}),
                    Err(p) => bail!("C07/errors/panic", {"what":"build on zero-dimensional batch","kind":KIND_NAMES[k],"n":n,"leaf":leaf,"metric":name,"panic":p}),
                }
                evals += 1;
            }
        }
        for (n, d) in [(0usize, 1usize), (1, 1), (5, 1), (0, 3), (1, 3), (5, 3), (40, 2)] {
            let b = Array2::<F>::from_shape_fn((n, d), |(i, j)| F::cast((i * 3 + j) as f64));
            match guarded(|| build(k, &b, Some(0), m).map(|_| ())) {
                Ok(Err(_)) => {}
                Ok(Ok(())) => bail!("C07/errors/zero-leaf-accepted", {"kind":KIND_NAMES[k],"n":n,"dim":d,"metric":name}),
                Err(p) => bail!("C07/errors/panic", {"what":"build with leaf size 0","kind":KIND_NAMES[k],"n":n,"dim":d,"metric":name,"panic":p}),
            }
            evals += 1;
        }
    }
    // the concrete builder types and index constructors
    {
        let z = Array2::<F>::zeros((3, 0));
        let b = Array2::<F>::from_shape_fn((5, 2), |(i, j)| F::cast((i + 2 * j) as f64));
        let r: Result<Vec<(&str, bool)>, String> = guarded(|| {
            vec![
                ("LinearSearchIndex::new(zero-dim)", LinearSearchIndex::new(&z, L2Dist).is_err()),
                ("KdTreeIndex::new(zero-dim)", KdTreeIndex::new(&z, 4, L2Dist).is_err()),
                ("BallTreeIndex::new(zero-dim)", BallTreeIndex::new(&z, 4, L2Dist).is_err()),
                ("KdTreeIndex::new(leaf 0)", KdTreeIndex::new(&b, 0, L2Dist).is_err()),
                ("BallTreeIndex::new(leaf 0)", BallTreeIndex::new(&b, 0, L2Dist).is_err()),
                ("LinearSearch.from_batch_with_leaf_size(leaf 0)", LinearSearch::new().from_batch_with_leaf_size(&b, 0, L1Dist).is_err()),
                ("KdTree.from_batch_with_leaf_size(leaf 0)", KdTree::new().from_batch_with_leaf_size(&b, 0, L1Dist).is_err()),
                ("BallTree.from_batch_with_leaf_size(leaf 0)", BallTree::new().from_batch_with_leaf_size(&b, 0, L1Dist).is_err()),
                ("LinearSearch.from_batch(zero-dim)", LinearSearch::new().from_batch(&z, LInfDist).is_err()),
                ("KdTree.from_batch(zero-dim)", KdTree::new().from_batch(&z, LInfDist).is_err()),
                ("BallTree.from_batch(zero-dim)", BallTree::new().from_batch(&z, LInfDist).is_err()),
            ]
        });
        match r {
            Err(p) => bail!("C07/errors/panic", {"what":"direct constructors","panic":p}),
            Ok(v) => {
                for (what, is_err) in v {
                    ensure!(is_err, "C07/errors/malformed-build-accepted", {"what":what});
                    evals += 1;
                }
            }
        }
    }
    // 3. wrong query dimension
    for k in 0..3 {
        for (n, d) in [(0usize, 1usize), (1, 1), (5, 1), (0, 2), (5, 2), (1, 3), (5, 3), (40, 3)] {
            let b = Array2::<F>::from_shape_fn((n, d), |(i, j)| F::cast((i * 3 + j) as f64 * 0.5));
            for leaf in [Some(1), Some(16)] {
                let ix = match guarded(|| build(k, &b, leaf, m)) {
                    Ok(Ok(ix)) => ix,
                    Ok(Err(e)) => bail!("C07/build/error-on-valid-input", {"kind":KIND_NAMES[k],"n":n,"dim":d,"leaf":leaf,"error":e.to_string()}),
                    Err(p) => bail!("C07/build/panic", {"kind":KIND_NAMES[k],"n":n,"dim":d,"leaf":leaf,"panic":p}),
                };
                for qd in [0usize, d - 1, d + 1, 2 * d, 7] {
                    if qd == d {
                        continue;
                    }
                    let q = Array1::<F>::from_elem(qd, F::cast(1.0));
                    for kk in [0usize, 1, 3, 100] {
                        match guarded(|| ix.k_nearest(q.view(), kk).map(|r| r.len())) {
                            Ok(Err(NnError::WrongDimension)) => {}
                            Ok(Ok(len)) => bail!("C07/errors/wrong-query-dimension-answered",
                                {"op":"k_nearest","kind":KIND_NAMES[k],"n":n,"dim":d,"query_dim":qd,"k":kk,"leaf":leaf,"metric":name,"returned":len}),
                            Err(p) => bail!("C07/errors/panic",
                                {"what":"k_nearest with wrong query dimension","kind":KIND_NAMES[k],"n":n,"dim":d,"query_dim":qd,"k":kk,"metric":name,"panic":p}),
                        }
                        evals += 1;
                    }
                    for r in [0.0, 1.0, 1e6] {
                        match guarded(|| ix.within_range(q.view(), F::cast(r)).map(|r| r.len())) {
                            Ok(Err(NnError::WrongDimension)) => {}
                            Ok(Ok(len)) => bail!("C07/errors/wrong-query-dimension-answered",
                                {"op":"within_range","kind":KIND_NAMES[k],"n":n,"dim":d,"query_dim":qd,"radius":r,"leaf":leaf,"metric":name,"returned":len}),
                            Err(p) => bail!("C07/errors/panic",
                                {"what":"within_range with wrong query dimension","kind":KIND_NAMES[k],"n":n,"dim":d,"query_dim":qd,"radius":r,"metric":name,"panic":p}),
                        }
                        evals += 1;
                    }
                }
                // control: the well-formed query is answered
                let q = Array1::<F>::from_elem(d, F::cast(1.0));
                match guarded(|| (ix.k_nearest(q.view(), 2).map(|r| r.len()), ix.within_range(q.view(), F::cast(1e6)).map(|r| r.len()))) {
                    Ok((Ok(a), Ok(bn))) => {
                        ensure!(a == 2.min(n) && bn == n, "C07/errors/control-query-wrong",
                            {"kind":KIND_NAMES[k],"n":n,"dim":d,"knn_len":a,"range_len":bn});
                    }
                    Ok(_) => bail!("C07/knn/error-on-valid-query", {"kind":KIND_NAMES[k],"n":n,"dim":d,"metric":name}),
                    Err(p) => bail!("C07/errors/panic", {"what":"control query","kind":KIND_NAMES[k],"n":n,"dim":d,"panic":p}),
                }
                evals += 1;
            }
        }
    }
    c.evals = evals;
    held(true, format!("errors/{}/{}", std::mem::size_of::<F>(), name))
}

// ------------------------------------------------------------------------------------------------
// kd-tree build on adjacent floats, observed in a child process (a stack overflow aborts the
// process and cannot be caught)

fn adj_batch<F: Float>(base: f64, n_lo: usize, n_hi: usize, dim: usize) -> Array2<F> {
    // two adjacent floats of F around |base|, sign preserved
    let a = F::cast(base.abs());
    let b = next_after(a, true);
    let (lo, hi) = if base < 0.0 { (-b, -a) } else { (a, b) };
    let n = n_lo + n_hi;
    let mut left_lo = n_lo;
    Array2::from_shape_fn((n, dim), |(i, j)| {
        if j > 0 {
            return F::cast(0.25);
        }
        // interleave, low values first where possible
        if i % 2 == 0 && left_lo > 0 || i >= 2 * n_hi {
            if j == 0 {
                left_lo = left_lo.saturating_sub(1);
            }
            lo
        } else {
            hi
        }
    })
}

fn adj_run<F: Float>(base: f64, n_lo: usize, n_hi: usize, dim: usize, leaf: usize, m: Metric, skip_kd: bool) -> (bool, Outcome) {
    let b = adj_batch::<F>(base, n_lo, n_hi, dim);
    let hazard = kd_hazard(b.view(), leaf);
    let mut case = Case {
        family: "kdtree-adjacent-floats",
        idx: 0,
        rng: case_rng(0, "C07", "child", 0),
        tier: Tier::Quick,
        notes: serde_json::Map::new(),
        evals: 1,
        counters: Default::default(),
        residuals: Default::default(),
    };
    let queries = cloud_queries(&mut case.rng, b.view(), 7, base.abs() * 1e-3, base);
    let o = Opts { all_ks: true, all_ranks: true, max_ranks: usize::MAX, strided_query: false };
    let mut t = Tally::default();
    let r = drive(&mut case, &b, m, &[Some(leaf)], &queries, &o, &mut t, skip_kd);
    (hazard, match r {
        Ok(()) => held(true, format!("{}", t.evals)),
        Err((s, d)) => violated(s, d),
    })
}

/// `vcheck child c07 <kdadj|nokd> <f32|f64> <base> <n_lo> <n_hi> <dim> <leaf> <metric-index>`
pub fn child(args: &[String]) -> i32 {
    if args.len() != 8 || (args[0] != "kdadj" && args[0] != "nokd") {
        eprintln!("c07 child: bad arguments {args:?}");
        return 2;
    }
    let base: f64 = args[2].parse().unwrap();
    let p: Vec<usize> = args[3..8].iter().map(|s| s.parse().unwrap()).collect();
    let m = METRICS[p[4] % NM];
    let (_, out) = if args[1] == "f32" {
        adj_run::<f32>(base, p[0], p[1], p[2], p[3], m, args[0] == "nokd")
    } else {
        adj_run::<f64>(base, p[0], p[1], p[2], p[3], m, args[0] == "nokd")
    };
    match out {
        Outcome::Held { key, .. } => println!("C07CHILD HELD {key}"),
        Outcome::Violated { sig, detail } => println!("C07CHILD VIOLATED {sig} {detail}"),
        Outcome::Inconclusive(r) => println!("C07CHILD INCONCLUSIVE {r}"),
    }
    0
}

fn adjacent_case(c: &mut Case) -> Outcome {
    let f32_ = c.idx % 2 == 1;
    let bases = [1.0, 0.75, 1e-3, 3.0e5, -2.0, 1024.0, -0.1, 16777216.0];
    let mut base: f64 = bases[((c.idx / 2) % bases.len() as u64) as usize];
    // both mantissa parities: the hazard needs `lo + half an ulp` to round down
    if (c.idx / 16) % 2 == 1 {
        base = if f32_ {
            let v = base.abs() as f32;
            f32::from_bits(v.to_bits() + 1) as f64 * base.signum()
        } else {
            f64::from_bits(base.abs().to_bits() + 1) * base.signum()
        };
    }
    let leaf = *[1usize, 1, 2, 16].choose(&mut c.rng).unwrap();
    let (n_lo, n_hi) = match c.rng.gen_range(0..4) {
        0 => (1, 1),
        1 => (leaf, 1),
        2 => (c.rng.gen_range(1..=leaf + 2), c.rng.gen_range(1..=leaf + 2)),
        _ => (leaf + 3, leaf + 5),
    };
    let dim = c.rng.gen_range(1..=2usize);
    let mi = c.rng.gen_range(0..5usize);
    let hazard = if f32_ {
        kd_hazard(adj_batch::<f32>(base, n_lo, n_hi, dim).view(), leaf)
    } else {
        kd_hazard(adj_batch::<f64>(base, n_lo, n_hi, dim).view(), leaf)
    };
    let desc = json!({"elem": if f32_ {"f32"} else {"f64"}, "low_value": base, "n_low": n_lo, "n_high": n_hi,
        "dim": dim, "leaf": leaf, "metric": METRICS[mi].name(), "hazard_predicate": hazard});
    c.note("spec", desc.clone());
    let exe = match std::env::current_exe() {
        Ok(e) => e,
        Err(e) => return inconclusive(format!("current_exe: {e}")),
    };
    let spawn = |mode: &str| {
        std::process::Command::new(&exe)
            .args(["child", "c07", mode, if f32_ { "f32" } else { "f64" }])
            .arg(format!("{base:e}"))
            .args([n_lo, n_hi, dim, leaf, mi].iter().map(|v| v.to_string()))
            .output()
    };
    let tail = |s: &str| -> String { s.chars().rev().take(300).collect::<String>().chars().rev().collect() };
    // 1. the same batch through linear scan and ball tree only: must be answered correctly, so
    //    that an abort of the full run can be attributed to the kd-tree
    let pre = match spawn("nokd") {
        Ok(o) => o,
        Err(e) => return inconclusive(format!("spawn: {e}")),
    };
    let pre_out = String::from_utf8_lossy(&pre.stdout).to_string();
    if !pre.status.success() {
        return violated("C07/build/process-abort", json!({"case":desc,"kinds":"linear+balltree",
            "status":format!("{:?}", pre.status),"stderr_tail":tail(&String::from_utf8_lossy(&pre.stderr))}));
    }
    if let Some(l) = pre_out.lines().find(|l| l.starts_with("C07CHILD VIOLATED ")) {
        let mut it = l.splitn(4, ' ');
        let sig = it.nth(2).unwrap_or("C07/child/unparsable").to_string();
        let detail: Value = it.next().and_then(|s| serde_json::from_str(s).ok()).unwrap_or(json!(null));
        return violated(sig, json!({"case":desc,"kinds":"linear+balltree","child":detail}));
    }
    if !pre_out.lines().any(|l| l.starts_with("C07CHILD HELD")) {
        return inconclusive(format!("child output not understood: {pre_out:?}"));
    }
    // 2. all three kinds
    let out = match spawn("kdadj") {
        Ok(o) => o,
        Err(e) => return inconclusive(format!("spawn: {e}")),
    };
    let stdout = String::from_utf8_lossy(&out.stdout).to_string();
    let stderr = String::from_utf8_lossy(&out.stderr).to_string();
    if !out.status.success() {
        let overflow = stderr.contains("overflowed its stack");
        c.count(if hazard { "hazard-inputs" } else { "control-inputs" });
        // discriminating predicates of the known defect: the process dies of a stack overflow AND
        // linear scan + ball tree alone answer the same batch correctly AND more than `leaf`
        // points lie on two adjacent floats whose midpoint rounds onto the lower one
        let sig = if overflow && hazard {
            "C07/build/kdtree-stack-overflow-adjacent-floats"
        } else {
            "C07/build/process-abort"
        };
        return violated(sig, json!({"case":desc,"status":format!("{:?}", out.status),"stderr_tail":tail(&stderr)}));
    }
    c.count(if hazard { "hazard-inputs" } else { "control-inputs" });
    let line = stdout.lines().find(|l| l.starts_with("C07CHILD ")).unwrap_or("");
    let mut it = line.splitn(4, ' ');
    it.next();
    match it.next() {
        Some("HELD") => {
            c.evals = it.next().and_then(|s| s.parse().ok()).unwrap_or(1);
            held(true, format!("{desc}"))
        }
        Some("VIOLATED") => {
            let sig = it.next().unwrap_or("C07/child/unparsable").to_string();
            let detail: Value = it.next().and_then(|s| serde_json::from_str(s).ok()).unwrap_or(json!(null));
            violated(sig, json!({"case":desc,"child":detail}))
        }
        _ => inconclusive(format!("child output not understood: {stdout:?} / {stderr:?}")),
    }
}

// ------------------------------------------------------------------------------------------------

pub fn run(ctx: &Ctx) {
    ctx.set_rule(
        "a case = one stored batch (shape, n, dim, element type, layout, offset/scale) x one metric, \
         queried through all three index kinds for several leaf sizes, 5-50 query points, k in \
         {0,1,2,n/2,n-1,n,n+3[,usize::MAX]} (all k for small n) and radii {0, exact neighbour distances \
         and their adjacent floats, midpoints, beyond the largest distance}; non-trivial = n >= 2 and at \
         least one range query returned a proper non-empty subset (lattice: additionally a distance tie \
         at k or a point exactly on a radius occurred); evaluations = judged index answers",
    );
    ctx.assume("harness brute force with textbook L1/L2/Linf/Lp formulas in f64 is the truth; rustc, ndarray");
    ctx.assume("coordinates are finite and far from overflow of the element type (|x| <= 1e33 for f64, <= 1e9 for f32); distances below the underflow floor dim*(MIN_POSITIVE_F/eps_F)^(1/p) of L2/Lp are not told apart");
    ctx.assume("KdTree is only driven with row-contiguous batches and contiguous queries (documented panic otherwise)");
    ctx.assume("batches that would overflow the stack inside the external kdtree crate are only built in child processes (family kdtree-adjacent-floats)");

    let t0 = std::time::Instant::now();
    let lap = |name: &str| {
        if std::env::var("C07_DEBUG_TIME").is_ok() {
            eprintln!("TIME {name} at {:.1}s", t0.elapsed().as_secs_f64());
        }
    };
    ctx.family("errors", 10, |c| {
        let m = METRICS[(c.idx / 2) as usize % NM];
        if c.idx % 2 == 0 { errors_case::<f64>(c, m) } else { errors_case::<f32>(c, m) }
    });

    ctx.family("metric-layouts", ctx.tier.pick(1400, 14000), |c| {
        let m = METRICS[(c.idx / 2) as usize % NM];
        if c.idx % 2 == 0 { metric_layout_case::<f64>(c, m) } else { metric_layout_case::<f32>(c, m) }
    });
    lap("errors");
    let n1 = count_sequences(4, 4);
    ctx.family("exhaustive-1d", n1, |c| {
        let seq = nth_sequence(c.idx, 4, 4).unwrap();
        c.note("points", json!(seq));
        let mut t = Tally::default();
        let r = exhaustive_case::<f64>(c, 1, &seq, &METRICS, &mut t).and_then(|_| exhaustive_case::<f32>(c, 1, &seq, &METRICS, &mut t));
        finish_tally(c, &t);
        match r {
            Err((s, d)) => violated(s, d),
            Ok(()) => held(seq.len() >= 2 && t.proper_subset, format!("{seq:?}")),
        }
    });
    ctx.set_exhaustive("1-D point sequences over {0,1,2,3}, n<=4 x queries on the half-integer grid [-1,4] x all k in 0..=n+1 x all radius classes x leaf {1,2,3} x 5 metrics x f32/f64 x 3 kinds", true);

    lap("exhaustive-1d");
    let maxlen = ctx.tier.pick(3, 4);
    let n2 = count_sequences(9, maxlen);
    ctx.family("exhaustive-2d", n2, |c| {
        let seq = nth_sequence(c.idx, 9, maxlen).unwrap();
        c.note("points", json!(seq));
        let mut t = Tally::default();
        // n <= 3: every metric; n = 4 (thorough only): one metric per sequence, rotating
        let rot = [METRICS[(c.idx + c.idx / NM as u64) as usize % NM]];
        let ms: &[Metric] = if seq.len() <= 3 { &METRICS } else { &rot };
        let mut r = exhaustive_case::<f64>(c, 2, &seq, ms, &mut t);
        if r.is_ok() && (seq.len() <= 2 || (c.tier == Tier::Thorough && seq.len() == 3)) {
            r = exhaustive_case::<f32>(c, 2, &seq, ms, &mut t);
        }
        finish_tally(c, &t);
        match r {
            Err((s, d)) => violated(s, d),
            Ok(()) => held(seq.len() >= 2 && t.proper_subset, format!("{seq:?}")),
        }
    });
    ctx.set_exhaustive("2-D point sequences over the 3x3 grid, n<=3 x queries on the half-integer grid [-0.5,2.5]^2 x all k in 0..=n+1 x all radius classes x leaf {1,2} x 5 metrics x 3 kinds (f64; f32 for n<=2, thorough n<=3); thorough adds all n=4 sequences with 1 of the 5 metrics each", true);

    lap("exhaustive-2d");
    ctx.family("lattice", ctx.tier.pick(400, 1600), |c| {
        let f32_ = c.idx % 2 == 1;
        let metric = METRICS[(c.idx / 2) as usize % NM];
        let dim = 1 + ((c.idx / 10) % 4) as usize;
        let side = match dim {
            1 => c.rng.gen_range(2..=12),
            2 => c.rng.gen_range(2..=7),
            3 => c.rng.gen_range(2..=5),
            _ => c.rng.gen_range(2..=c.tier.pick(3, 4)),
        };
        let variant = c.rng.gen_range(0..4);
        let offset = if f32_ {
            *[0.0, 0.0, -3.0, 1000.0, 1048576.0].choose(&mut c.rng).unwrap()
        } else {
            *[0.0, 0.0, -3.0, 1000.0, 1048576.0, 1099511627776.0].choose(&mut c.rng).unwrap()
        };
        let scale = *[1.0, 1.0, 0.25, 64.0, 1.0 / 1048576.0].choose(&mut c.rng).unwrap();
        let sp = LatticeSpec { f32_, dim, side, variant, metric, offset, scale };
        if f32_ { lattice_case::<f32>(c, &sp) } else { lattice_case::<f64>(c, &sp) }
    });

    lap("lattice");
    ctx.family("clouds", ctx.tier.pick(800, 4000), |c| {
        let sp = cloud_spec(c);
        if sp.f32_ { cloud_case::<f32>(c, &sp) } else { cloud_case::<f64>(c, &sp) }
    });

    lap("clouds");
    ctx.family("kdtree-adjacent-floats", ctx.tier.pick(32, 96), adjacent_case);
    lap("kdtree-adjacent-floats");
}
