//! C03 — prediction is a per-sample function, identical through every calling form.
//!
//! Metamorphic monitor: the prediction of every row alone (1-row batch through the plain form) is
//! the reference; every batch composition x calling form x memory layout must reproduce it row by
//! row, with exactly one output per input row and the records handed back unchanged. Composite
//! models are checked against their members.
use crate::fw::*;
use crate::gen;
use crate::zoo::{self, Form, Layout, Subject, ALL_FORMS, ALL_LAYOUTS};
use linfa::composing::platt_scaling::Platt;
use linfa::composing::{MultiClassModel, MultiTargetModel};
use linfa::dataset::Pr;
use linfa::traits::*;
use linfa::{Dataset, DatasetBase};
use ndarray::{Array1, Array2, Axis};
use rand::Rng as _;
use rand::SeedableRng;
use serde_json::json;

fn batches(rng: &mut Rng, n: usize) -> Vec<(String, Vec<usize>)> {
    let mut out = vec![
        ("empty".to_string(), vec![]),
        ("single".to_string(), vec![rng.gen_range(0..n)]),
        ("all".to_string(), (0..n).collect()),
        ("reversed".to_string(), (0..n).rev().collect()),
        ("each-twice".to_string(), (0..n).flat_map(|i| [i, i]).collect()),
        ("permuted".to_string(), gen::permutation(rng, n)),
    ];
    let k = rng.gen_range(2..n.max(3));
    let mut sub = gen::permutation(rng, n);
    sub.truncate(k);
    out.push(("subset".to_string(), sub));
    let r = rng.gen_range(0..n);
    out.push(("one-row-repeated".to_string(), vec![r; 5]));
    // longer than any internal block size and not a multiple of one (batch predictions may be
    // computed block-wise or in parallel): the probe rows over and over
    let len = 2048 + rng.gen_range(1..900);
    out.push(("long-cyclic".to_string(), (0..len).map(|i| (i * 7 + 3) % n).collect()));
    out
}

fn close(a: f64, b: f64, floor: f64) -> bool {
    a.to_bits() == b.to_bits() || (a - b).abs() <= floor || (a.is_nan() && b.is_nan())
}

fn check_subject(c: &mut Case, s: &dyn Subject, thorough: bool) -> Outcome {
    let name = s.name();
    let p = s.nfeatures();
    let n = if thorough { 40 } else { 24 };
    let probe = zoo::probe(c.rng.gen(), n, p, name.contains("multinomial"));
    // reference: every row alone
    let mut reference: Vec<Vec<f64>> = Vec::with_capacity(n);
    for i in 0..n {
        let row = zoo::row_subset(&probe, &[i]);
        match s.predict(&row, Form::RefArray, Layout::C) {
            Ok(pr) => {
                ensure!(pr.rows.len() == 1, "C03/length/single-row", {"model": name, "rows_returned": pr.rows.len()});
                reference.push(pr.rows[0].clone());
            }
            Err(pmsg) => bail!("C03/predict/panic", {"model": name, "batch": "single-row", "panic": pmsg}),
        }
    }
    let width = reference[0].len();
    let maxabs = reference.iter().flatten().fold(0.0f64, |m, v| if v.is_finite() { m.max(v.abs()) } else { m });
    let floor = 1024.0 * s.eps() * (p as f64) * (1.0 + maxabs);
    let extra_ref: Vec<(String, Vec<Vec<f64>>)> = {
        let mut acc: Vec<(String, Vec<Vec<f64>>)> = vec![];
        for i in 0..n {
            let row = zoo::row_subset(&probe, &[i]);
            for (k, (nm, rows)) in s.extra(&row).into_iter().enumerate() {
                if acc.len() <= k {
                    acc.push((nm, vec![]));
                }
                ensure!(rows.len() == 1, "C03/length/extra-single-row", {"model": name, "output": acc[k].0});
                acc[k].1.push(rows[0].clone());
            }
        }
        acc
    };
    let mut evals = 0u64;
    let mut bitexact = 0u64;
    for (bname, idx) in batches(&mut c.rng, n) {
        let x = zoo::row_subset(&probe, &idx);
        for form in ALL_FORMS {
            for layout in ALL_LAYOUTS {
                if !s.supports(form, layout) {
                    continue;
                }
                // the long batch goes through three forms in standard layout only (cost)
                if bname == "long-cyclic" && !(matches!(form, Form::RefArray | Form::OwnedDataset | Form::Inplace) && layout == Layout::C) {
                    continue;
                }
                let desc = json!({"model": name, "batch": bname, "rows": idx.len(), "form": format!("{form:?}"), "layout": format!("{layout:?}")});
                let pr = match s.predict(&x, form, layout) {
                    Ok(pr) => pr,
                    Err(pmsg) => {
                        let sig = if idx.is_empty() { "C03/predict/panic-on-empty-batch" } else { "C03/predict/panic" };
                        bail!(sig, {"case": desc, "panic": pmsg});
                    }
                };
                evals += 1;
                ensure!(pr.rows.len() == idx.len(), "C03/length/outputs-vs-rows", {"case": desc, "outputs": pr.rows.len()});
                // the target array has one entry along axis 0 per row and the width of a single
                // prediction along the others - also when the batch is empty
                let want_shape: Vec<usize> = if pr.shape.len() == 1 { vec![idx.len()] } else { vec![idx.len(), width] };
                ensure!(pr.shape == want_shape, "C03/length/target-shape", {"case": desc, "shape": pr.shape, "expected": want_shape});
                if form == Form::Inplace {
                    ensure!(pr.records_ok, "C03/inplace/target-buffer-not-overwritten", {"case": desc});
                }
                ensure!(pr.records_ok, "C03/records/altered", {"case": desc});
                for (pos, &i) in idx.iter().enumerate() {
                    ensure!(pr.rows[pos].len() == width, "C03/length/width", {"case": desc, "row": pos});
                    for k in 0..width {
                        let (a, b) = (pr.rows[pos][k], reference[i][k]);
                        if a.to_bits() == b.to_bits() {
                            bitexact += 1;
                            continue;
                        }
                        if s.discrete() {
                            bail!("C03/rowwise/label-differs", {"case": desc, "row_in_batch": pos, "probe_row": i, "batch": a, "alone": b});
                        }
                        c.resid("rowwise/resid-over-floor", (a - b).abs() / floor);
                        ensure!(close(a, b, floor), "C03/rowwise/value-differs",
                            {"case": desc, "row_in_batch": pos, "probe_row": i, "col": k, "batch": a, "alone": b, "floor": floor});
                    }
                }
            }
        }
        // additional row-wise outputs
        if !idx.is_empty() {
            for (k, (nm, rows)) in s.extra(&x).into_iter().enumerate() {
                ensure!(rows.len() == idx.len(), "C03/length/extra-outputs-vs-rows", {"model": name, "output": nm, "batch": bname});
                for (pos, &i) in idx.iter().enumerate() {
                    // outputs named "=..." are further calling forms of predict itself
                    if nm.starts_with('=') {
                        ensure!(rows[pos] == reference[i], "C03/forms/single-observation-form-differs",
                            {"model": name, "form": nm, "batch": bname, "row_in_batch": pos, "form_value": rows[pos], "predict": reference[i]});
                    }
                    let r = &extra_ref[k].1[i];
                    ensure!(rows[pos].len() == r.len(), "C03/length/extra-width", {"model": name, "output": nm});
                    let m = r.iter().fold(0.0f64, |m, v| m.max(v.abs()));
                    let fl = 1024.0 * s.eps() * (p as f64) * (1.0 + m);
                    for (a, b) in rows[pos].iter().zip(r.iter()) {
                        c.resid("extra/resid-over-floor", (a - b).abs() / fl);
                        ensure!(close(*a, *b, fl), "C03/rowwise/extra-value-differs",
                            {"model": name, "output": nm, "batch": bname, "row_in_batch": pos, "batch_value": a, "alone": b, "floor": fl});
                    }
                }
                evals += 1;
            }
        }
    }
    // batch composition with extreme rows: a row far away from the training data must not change
    // what the ordinary rows of the same batch get, nor get something else than it gets alone
    // (labels are compared exactly; continuous outputs up to the rounding floor at the scale of the
    // largest value any row of the mixed batch gets alone)
    // two orders: probe order with the extremes interleaved; ordinary rows in descending order of
    // their first feature, each followed by an extreme of alternating sign (hostile to predictors
    // that carry scan state from one row of the batch to the next)
    for descending in [false, true] {
      if !name.contains("multinomial") {
        let nx = 6usize;
        let mut first: Vec<usize> = (0..if descending { n } else { n.min(10) }).collect();
        if descending {
            first.sort_by(|a, b| probe[[*b, 0]].partial_cmp(&probe[[*a, 0]]).unwrap());
        }
        let mut mixed = zoo::row_subset(&probe, &first);
        let base = mixed.nrows();
        let mut ext = Array2::<f64>::zeros((nx, p));
        for (r, mut row) in ext.outer_iter_mut().enumerate() {
            let mag = [40.0, 1e3, 1e6][r % 3] * if r >= 3 { -1.0 } else { 1.0 };
            for (j, v) in row.iter_mut().enumerate() {
                *v = mag * (1.0 + 0.25 * ((r + j) % 3) as f64);
            }
        }
        // interleave: ordinary, extreme, ordinary, ...
        let mut rows: Vec<Vec<f64>> = vec![];
        for i in 0..base.max(nx) {
            if i < base {
                rows.push(mixed.row(i).to_vec());
            }
            if descending {
                rows.push(ext.row([3, 0, 4, 1, 5, 2][i % nx]).to_vec());
            } else if i < nx {
                rows.push(ext.row(i).to_vec());
            }
        }
        mixed = Array2::from_shape_fn((rows.len(), p), |(i, j)| rows[i][j]);
        let mut alone: Vec<Option<Vec<f64>>> = vec![];
        for i in 0..mixed.nrows() {
            let row = zoo::row_subset(&mixed, &[i]);
            alone.push(s.predict(&row, Form::RefArray, Layout::C).ok().map(|p| p.rows[0].clone()));
        }
        let mixed_max = alone.iter().flatten().flatten().fold(0.0f64, |m, v| if v.is_finite() { m.max(v.abs()) } else { m });
        let mixed_in_max = mixed.iter().fold(0.0f64, |m, v| m.max(v.abs()));
        let mfloor = 1024.0 * s.eps() * (p as f64) * (1.0 + mixed_max + mixed_in_max);
        for (form, layout) in [(Form::RefArray, Layout::C), (Form::RefView, Layout::F), (Form::OwnedDataset, Layout::C)] {
            match s.predict(&mixed, form, layout) {
                Ok(pr) => {
                    ensure!(pr.rows.len() == mixed.nrows(), "C03/length/outputs-vs-rows", {"model": name, "batch": "mixed-extremes"});
                    for i in 0..mixed.nrows() {
                        if let Some(a) = &alone[i] {
                            if s.discrete() {
                                ensure!(&pr.rows[i] == a, "C03/rowwise/label-depends-on-batch-composition",
                                    {"model": name, "form": format!("{form:?}"), "row_in_batch": i, "row": mixed.row(i).to_vec(),
                                     "in_mixed_batch": pr.rows[i], "alone": a});
                            } else {
                                ensure!(pr.rows[i].len() == a.len(), "C03/length/width", {"model": name, "batch": "mixed-extremes", "row": i});
                                for (u, v) in pr.rows[i].iter().zip(a.iter()) {
                                    if u.is_finite() && v.is_finite() {
                                        c.resid("mixed-extremes/resid-over-floor", (u - v).abs() / mfloor);
                                    }
                                    ensure!(close(*u, *v, mfloor), "C03/rowwise/value-depends-on-batch-composition",
                                        {"model": name, "form": format!("{form:?}"), "row_in_batch": i, "row": mixed.row(i).to_vec(),
                                         "in_mixed_batch": u, "alone": v, "floor": mfloor});
                                }
                            }
                        }
                    }
                    evals += 1;
                }
                Err(pmsg) => bail!("C03/predict/panic", {"model": name, "batch": "mixed-extremes", "form": format!("{form:?}"), "panic": pmsg}),
            }
        }
        c.count("mixed-extremes-batches");
      }
    }
    c.evals = evals;
    c.count_n("bit-exact-cells", bitexact);
    c.note("model", json!(name));
    c.note("probe_rows", json!(n));
    c.note("calls", json!(evals));
    c.note("reference_head", json!(reference.iter().take(3).collect::<Vec<_>>()));
    held(true, format!("{name}/{}", c.idx))
}

// ------------------------------------------------------------------------------------------------
// composite models

/// inner model with a harness-defined decision function f(x) = w.x + b
struct LinScore {
    w: Array1<f64>,
    b: f64,
}
impl PredictInplace<Array2<f64>, Array1<f64>> for LinScore {
    fn predict_inplace(&self, x: &Array2<f64>, y: &mut Array1<f64>) {
        for (r, t) in x.outer_iter().zip(y.iter_mut()) {
            *t = r.dot(&self.w) + self.b;
        }
    }
    fn default_target(&self, x: &Array2<f64>) -> Array1<f64> {
        Array1::zeros(x.nrows())
    }
}

fn check_multi_target(c: &mut Case) -> Outcome {
    let p = c.rng.gen_range(1..5);
    let n = c.rng.gen_range(1..30);
    let t = c.rng.gen_range(1..5);
    let d = zoo::make_data(c.rng.gen(), 60, p, false);
    // members: different estimators so that every column is a different row-dependent function
    let mut members: Vec<Box<dyn PredictInplace<Array2<f64>, Array1<f64>>>> = vec![];
    let mut plain: Vec<Box<dyn Fn(&Array2<f64>) -> Array1<f64>>> = vec![];
    for j in 0..t {
        let y = &d.yreg * (j as f64 + 1.0) + d.x.column(j % p).mapv(|v| v * v);
        let ds = Dataset::new(d.x.clone(), y);
        match j % 3 {
            0 => {
                let m = linfa_linear::LinearRegression::new().fit(&ds).unwrap();
                let m2 = m.clone();
                members.push(Box::new(m));
                plain.push(Box::new(move |x| m2.predict(x)));
            }
            1 => {
                let m = linfa_elasticnet::ElasticNet::params().penalty(0.2).l1_ratio(0.5).fit(&ds).unwrap();
                let w = m.hyperplane().to_owned();
                let b = m.intercept();
                members.push(Box::new(m));
                plain.push(Box::new(move |x| x.dot(&w) + b));
            }
            _ => {
                let w = Array1::from_shape_fn(p, |k| (k + j) as f64 - 1.5);
                let w2 = w.clone();
                members.push(Box::new(LinScore { w, b: j as f64 }));
                plain.push(Box::new(move |x| x.dot(&w2) + j as f64));
            }
        }
    }
    let model: MultiTargetModel<Array2<f64>, f64> = MultiTargetModel::new(members);
    let x = zoo::probe(c.rng.gen(), n, p, false);
    let out: Array2<f64> = match guarded(|| model.predict(&x)) {
        Ok(o) => o,
        Err(pmsg) => bail!("C03/multi-target/panic", {"n": n, "t": t, "panic": pmsg}),
    };
    ensure!(out.dim() == (n, t), "C03/multi-target/shape", {"n": n, "t": t, "got": format!("{:?}", out.dim())});
    for j in 0..t {
        let col = plain[j](&x);
        for i in 0..n {
            let fl = 1024.0 * f64::EPSILON * p as f64 * (1.0 + col[i].abs());
            ensure!(close(out[[i, j]], col[i], fl), "C03/multi-target/column-not-member-prediction",
                {"n": n, "t": t, "row": i, "col": j, "wrapper": out[[i, j]], "member": col[i]});
        }
    }
    c.note("n", json!(n));
    c.note("targets", json!(t));
    held(n >= 2 && t >= 2, format!("multi-target n={n} t={t} p={p} {}", c.idx))
}

/// member with a harness-defined probability table (so that ties can be forced)
struct TableProb {
    probs: Vec<f32>,
}
impl PredictInplace<Array2<f64>, Array1<Pr>> for TableProb {
    fn predict_inplace(&self, x: &Array2<f64>, y: &mut Array1<Pr>) {
        for (r, t) in x.outer_iter().zip(y.iter_mut()) {
            // the row id is carried in the first feature
            *t = Pr::new(self.probs[r[0] as usize]);
        }
    }
    fn default_target(&self, x: &Array2<f64>) -> Array1<Pr> {
        Array1::default(x.nrows())
    }
}

fn check_multi_class(c: &mut Case) -> Outcome {
    let n = c.rng.gen_range(1..25);
    let k = c.rng.gen_range(1..6);
    // grid probabilities so that exact ties between members are frequent
    let tables: Vec<Vec<f32>> = (0..k).map(|_| (0..n).map(|_| c.rng.gen_range(0..5) as f32 / 4.0).collect()).collect();
    let labels: Vec<usize> = (0..k).map(|j| 10 + 3 * j).collect();
    let model: MultiClassModel<Array2<f64>, usize> = labels
        .iter()
        .zip(tables.iter())
        .map(|(l, t)| (*l, TableProb { probs: t.clone() }))
        .collect();
    let order = gen::permutation(&mut c.rng, n);
    let x = Array2::from_shape_fn((n, 2), |(i, j)| if j == 0 { order[i] as f64 } else { 0.5 });
    let out: Array1<usize> = match guarded(|| model.predict(&x)) {
        Ok(o) => o,
        Err(pmsg) => bail!("C03/multi-class/panic", {"n": n, "k": k, "panic": pmsg}),
    };
    ensure!(out.len() == n, "C03/multi-class/length", {"n": n, "got": out.len()});
    let mut ties = 0;
    for i in 0..n {
        let row = order[i];
        let best = tables.iter().map(|t| t[row]).fold(f32::MIN, f32::max);
        let maximal: Vec<usize> = (0..k).filter(|j| tables[*j][row] == best).map(|j| labels[j]).collect();
        if maximal.len() > 1 {
            ties += 1;
        }
        ensure!(maximal.contains(&out[i]), "C03/multi-class/not-argmax",
            {"n": n, "k": k, "row": i, "returned": out[i], "labels_of_maximal_probability": maximal,
             "probabilities": tables.iter().map(|t| t[row]).collect::<Vec<_>>()});
    }
    c.count_n("multi-class-tie-rows", ties);
    held(k >= 2, format!("multi-class n={n} k={k} {}", c.idx))
}

fn check_platt(c: &mut Case) -> Outcome {
    let p = c.rng.gen_range(1..4);
    let n = c.rng.gen_range(20..80);
    let d = zoo::make_data(c.rng.gen(), n, p, false);
    let w = Array1::from_shape_fn(p, |_| gen::normal(&mut c.rng));
    let b = gen::normal(&mut c.rng);
    let scale = *gen::pick(&mut c.rng, &[1e-2, 1.0, 30.0]);
    let inner = LinScore { w: &w * scale, b };
    // labels loosely following the score so that the calibration is well posed
    let scores = d.x.dot(&inner.w) + b;
    let y = Array1::from_shape_fn(n, |i| c.rng.gen::<f64>() < 1.0 / (1.0 + (-scores[i] / scale).exp()));
    if y.iter().all(|v| *v) || y.iter().all(|v| !*v) {
        return inconclusive("one class only");
    }
    let ds: DatasetBase<Array2<f64>, Array1<bool>> = DatasetBase::new(d.x.clone(), y);
    let w2 = inner.w.clone();
    let model = match Platt::params().fit_with(inner, &ds) {
        Ok(m) => m,
        Err(e) => return inconclusive(format!("platt fit error: {e}")),
    };
    // queries: training rows, fresh rows and extreme decision values
    let mut q = zoo::probe(c.rng.gen(), 30, p, false);
    let big = *gen::pick(&mut c.rng, &[1e3, 1e15, 1e30, 1e300]);
    for (k, mut row) in q.outer_iter_mut().enumerate().take(4) {
        row.fill(0.0);
        row[0] = if k % 2 == 0 { big } else { -big };
    }
    let f: Array1<f64> = q.dot(&w2) + b;
    let out: Array1<Pr> = match guarded(|| model.predict(&q)) {
        Ok(o) => o,
        Err(pmsg) => bail!("C03/platt/panic", {"panic": pmsg, "big": big}),
    };
    ensure!(out.len() == q.nrows(), "C03/platt/length", {"got": out.len()});
    let pr: Vec<f64> = out.iter().map(|v| **v as f64).collect();
    for (i, v) in pr.iter().enumerate() {
        ensure!(v.is_finite() && (0.0..=1.0).contains(v), "C03/platt/out-of-range", {"decision": f[i], "probability": format!("{v}"), "big": big});
    }
    // monotone (one direction) in the decision value
    let mut order: Vec<usize> = (0..f.len()).filter(|i| f[*i].is_finite()).collect();
    order.sort_by(|a, b| f[*a].partial_cmp(&f[*b]).unwrap());
    let (mut up, mut down) = (0, 0);
    for w in order.windows(2) {
        if f[w[1]] == f[w[0]] {
            ensure!((pr[w[1]] - pr[w[0]]).abs() <= 1e-6, "C03/platt/not-a-function-of-decision", {"f": f[w[0]], "p0": pr[w[0]], "p1": pr[w[1]]});
            continue;
        }
        if pr[w[1]] > pr[w[0]] + 1e-6 {
            up += 1;
        } else if pr[w[1]] < pr[w[0]] - 1e-6 {
            down += 1;
        }
    }
    ensure!(up == 0 || down == 0, "C03/platt/not-monotone", {"increasing_steps": up, "decreasing_steps": down});
    // sigmoid: fit (A,B) of p = 1/(1+exp(A f + B)) from two interior points, check the others
    let interior: Vec<usize> = order.iter().cloned().filter(|i| pr[*i] > 0.02 && pr[*i] < 0.98).collect();
    if interior.len() >= 3 {
        let (i0, i1) = (interior[0], interior[interior.len() - 1]);
        if (f[i1] - f[i0]).abs() > 1e-9 {
            let l0 = (1.0 / pr[i0] - 1.0).ln();
            let l1 = (1.0 / pr[i1] - 1.0).ln();
            let a = (l1 - l0) / (f[i1] - f[i0]);
            let bb = l0 - a * f[i0];
            for &i in &interior {
                let expect = 1.0 / (1.0 + (a * f[i] + bb).exp());
                c.resid("platt/sigmoid-residual", (expect - pr[i]).abs());
                ensure!((expect - pr[i]).abs() <= 2e-4, "C03/platt/not-a-sigmoid",
                    {"A": a, "B": bb, "decision": f[i], "probability": pr[i], "sigmoid": expect});
            }
            c.count("platt-sigmoid-checked");
        }
    }
    held(true, format!("platt n={n} p={p} scale={scale} big={big} {}", c.idx))
}

/// SVM single-observation forms (`predict(row)` with a one-dimensional record) against the batch
/// form, on mirror-symmetric problems whose separating surface passes through the queries: decision
/// values that are exactly zero (ties) must be resolved the same way by every form.
fn check_svm_single_observation(c: &mut Case) -> Outcome {
    use linfa_svm::Svm;
    let m = c.rng.gen_range(3..12usize);
    let p = c.rng.gen_range(2..4usize);
    let grid = c.rng.gen_bool(0.5);
    let mut rows: Vec<Vec<f64>> = vec![];
    let mut lab = vec![];
    for _ in 0..m {
        let mut r: Vec<f64> = (0..p).map(|_| if grid { c.rng.gen_range(-3..4) as f64 } else { c.rng.gen_range(-3.0..3.0) }).collect();
        r[0] = if grid { c.rng.gen_range(1..4) as f64 } else { c.rng.gen_range(0.5..3.0) };
        let mut mirrored = r.clone();
        mirrored[0] = -r[0];
        rows.push(r);
        lab.push(true);
        rows.push(mirrored);
        lab.push(false);
    }
    let x = Array2::from_shape_fn((rows.len(), p), |(i, j)| rows[i][j]);
    let kind = c.rng.gen_range(0..3);
    c.note("kernel", json!(["linear", "polynomial(1,2)", "polynomial(0,3)"][kind]));
    c.note("pairs", json!(m));
    c.note("grid", json!(grid));
    // queries: on the mirror plane (x0 = 0), training rows, random rows
    let nq = 12;
    let q = Array2::from_shape_fn((nq, p), |(i, j)| {
        if i < 6 {
            if j == 0 { 0.0 } else if grid { c.rng.gen_range(-3..4) as f64 } else { c.rng.gen_range(-3.0..3.0) }
        } else if i < 9 {
            rows[(i * 7) % rows.len()][j]
        } else {
            c.rng.gen_range(-3.0..3.0)
        }
    });
    let ds = Dataset::new(x, Array1::from(lab));
    let params = match kind {
        0 => Svm::<f64, bool>::params().linear_kernel(),
        1 => Svm::<f64, bool>::params().polynomial_kernel(1.0, 2.0),
        _ => Svm::<f64, bool>::params().polynomial_kernel(0.0, 3.0),
    };
    let cc = [0.1, 1.0, 100.0][c.rng.gen_range(0..3)];
    let model = match guarded(|| params.pos_neg_weights(cc, cc).fit(&ds)) {
        Ok(Ok(m)) => m,
        Ok(Err(e)) => return inconclusive(format!("svm fit: {e}")),
        Err(p) => return inconclusive(format!("svm fit panicked: {p}")),
    };
    // a published coefficient below the support-vector threshold (100 eps) must not change which
    // coefficient goes with which support vector - in any calling form (state injected through the
    // public field; fits do publish such values now and then)
    let mut model = model;
    if c.rng.gen_bool(0.5) {
        let last_sv = model.alpha.iter().rposition(|a| a.abs() > 100.0 * f64::EPSILON);
        if let Some(j) = last_sv.and_then(|l| model.alpha[..l].iter().position(|a| *a == 0.0)) {
            model.alpha[j] = 50.0 * f64::EPSILON;
            c.count("svm-models-with-an-injected-sub-threshold-coefficient");
        }
    }
    let batch: Array1<bool> = model.predict(&q);
    let mut ties = 0u64;
    for i in 0..nq {
        let row = q.row(i);
        let one: bool = model.predict(row);
        let owned: bool = model.predict(row.to_owned());
        let one_row_batch: Array1<bool> = model.predict(&q.slice(ndarray::s![i..i + 1, ..]));
        let dec = model.weighted_sum(&row) - model.rho;
        if dec == 0.0 {
            ties += 1;
        }
        ensure!(one == batch[i] && owned == batch[i] && one_row_batch[0] == batch[i],
            "C03/forms/single-observation-form-differs",
            {"model": "svm-bool", "row": row.to_vec(), "decision_value": dec, "batch": batch[i], "one_dimensional_view": one,
             "one_dimensional_owned": owned, "one_row_batch": one_row_batch[0]});
    }
    c.count_n("svm-queries-with-decision-value-exactly-zero", ties);
    c.evals = (nq * 4) as u64;
    held(ties > 0, format!("svm-single {}", c.idx))
}

/// k-means with many centroids on an integer lattice, queried at points that are exactly
/// equidistant from two or four centroids: whichever centroid the tie goes to, it must be the same
/// one for the row alone, in a one-row batch, in a small batch and in a batch larger than the
/// number of centroids (an implementation may answer large batches through a different search
/// structure).
fn check_kmeans_lattice_ties(c: &mut Case) -> Outcome {
    use linfa_clustering::{KMeans, KMeansInit};
    use linfa_nn::distance::{L1Dist, L2Dist};
    let side = c.rng.gen_range(4..=6usize);
    let k = side * side;
    let lattice = Array2::from_shape_fn((k, 2), |(i, j)| if j == 0 { (i / side) as f64 } else { (i % side) as f64 });
    // every lattice point three times: the centroids stay where they are
    let data = Array2::from_shape_fn((3 * k, 2), |(i, j)| lattice[[i % k, j]]);
    let l1 = c.rng.gen_bool(0.3);
    c.note("side", json!(side));
    c.note("metric", json!(if l1 { "L1" } else { "L2" }));
    // queries: edge midpoints (2-way ties), cell centres (4-way ties), lattice points, generic points
    let nq = 3 * k;
    let q = Array2::from_shape_fn((nq, 2), |(i, j)| {
        let (a, b) = (((i * 7) / side) % (side - 1), (i * 7) % (side - 1));
        let base = if j == 0 { a as f64 } else { b as f64 };
        match i % 4 {
            0 => base + if j == 0 { 0.5 } else { 0.0 },
            1 => base + 0.5,
            2 => base,
            _ => base + if j == 0 { 0.25 } else { 0.625 },
        }
    });
    macro_rules! go {
        ($dist:expr) => {{
            let fit = guarded(|| {
                KMeans::params_with(k, rand_xoshiro::Xoshiro256Plus::seed_from_u64(1), $dist)
                    .init_method(KMeansInit::Precomputed(lattice.clone()))
                    .n_runs(1)
                    .max_n_iterations(3)
                    .fit(&DatasetBase::from(data.clone()))
            });
            let model = match fit {
                Ok(Ok(m)) => m,
                Ok(Err(e)) => return inconclusive(format!("k-means fit: {e}")),
                Err(p) => return inconclusive(format!("k-means fit panicked: {p}")),
            };
            if model.centroids() != &lattice {
                return inconclusive("centroids moved off the lattice");
            }
            let big: Array1<usize> = model.predict(&q);
            let mut tied = 0u64;
            for i in 0..nq {
                let row = q.row(i);
                let alone: usize = model.predict(&row);
                let one_row: Array1<usize> = model.predict(&q.slice(ndarray::s![i..i + 1, ..]));
                let lo = i.saturating_sub(3);
                let small: Array1<usize> = model.predict(&q.slice(ndarray::s![lo..i + 1, ..]));
                if i % 4 < 2 {
                    tied += 1;
                }
                ensure!(alone == big[i] && one_row[0] == big[i] && small[i - lo] == big[i],
                    "C03/rowwise/label-depends-on-batch-composition",
                    {"model": "kmeans-lattice", "centroids": k, "row": row.to_vec(), "batch_of_all": big[i], "alone_1d": alone,
                     "one_row_batch": one_row[0], "batch_of_up_to_four": small[i - lo]});
            }
            c.count_n("kmeans-queries-equidistant-from-several-centroids", tied);
        }};
    }
    if l1 { go!(L1Dist) } else { go!(L2Dist) }
    c.evals = (3 * nq + 1) as u64;
    held(true, format!("kmeans-lattice side={side} l1={l1}"))
}

pub fn run(ctx: &Ctx) {
    ctx.set_rule(
        "every predictor family in the zoo x fitted instances (seeds) x batches {empty, single, all, reversed, \
         each-row-twice, permuted, subset, one row repeated} x 7 calling forms x 4 memory layouts, judged against the \
         row-alone prediction; composite wrappers against harness-defined members. Non-trivial = a fitted instance \
         judged on >= 2 probe rows; distinct = (model family, instance seed).",
    );
    ctx.assume("continuous outputs computed through differently blocked matrix products may differ by the noise floor 1024*eps_F*p*(1+max|output|); labels are compared exactly");
    let builders = zoo::predictor_builders();
    let instances = ctx.tier.pick(10u64, 80u64);
    let thorough = ctx.tier == Tier::Thorough;
    let nb = builders.len() as u64;
    let builders = &builders;
    ctx.family("predictors", nb * instances, |c| {
        let (name, build) = builders[(c.idx % nb) as usize];
        let seed = c.rng.gen::<u64>();
        c.note("model", json!(name));
        let subject = match guarded(|| build(seed)) {
            Ok(Ok(s)) => s,
            Ok(Err(e)) => return inconclusive(format!("{name}: {e}")),
            Err(p) => return inconclusive(format!("{name}: fit panicked: {p}")),
        };
        check_subject(c, subject.as_ref(), thorough)
    });
    ctx.family("multi-target-wrapper", ctx.tier.pick(60, 600), check_multi_target);
    ctx.family("multi-class-wrapper", ctx.tier.pick(200, 3000), check_multi_class);
    ctx.family("platt-wrapper", ctx.tier.pick(60, 600), check_platt);
    ctx.family("kmeans-lattice-ties", ctx.tier.pick(12, 60), check_kmeans_lattice_ties);
    ctx.family("svm-single-observation", ctx.tier.pick(150, 1500), check_svm_single_observation);
    let _ = Axis(0);
}
