//! C10 — a fitted Gaussian mixture is a valid mixture and yields valid probabilities.
//!
//! Every successful `GaussianMixtureModel::fit` is judged on its published parameters
//! (weights / means / covariances / precisions) and on `predict_proba` / `predict` for query rows
//! inside the data and 10 .. 1e6 standard deviations away from every component.  The oracle is
//! written from the definition of a Gaussian mixture (f64 Cholesky / Jacobi eigenvalues of the
//! published covariances, log-density by forward substitution); nothing is taken from linfa's code.
use crate::fw::*;
use crate::gen;
use crate::oracle;
use linfa::traits::{Fit, Predict};
use linfa::{DatasetBase, Float};
use linfa_clustering::{GaussianMixtureModel, GmmError, GmmInitMethod};
use ndarray::{s, Array1, Array2, Array3, ArrayView2, Axis};
use rand::{Rng as _, SeedableRng};
use rand_xoshiro::Xoshiro256Plus;
use serde_json::{json, Value};

// ------------------------------------------------------------------------------------------
// small helpers

fn to64<F: Float>(v: F) -> f64 {
    v.to_f64().unwrap_or(f64::NAN)
}

macro_rules! vio {
    ($cond:expr, $sig:expr, $($json:tt)+) => {
        if !($cond) {
            return Err(violated($sig, serde_json::json!($($json)+)));
        }
    };
}

/// ln(1 / smallest positive normal value) of the element type: 87.3 (f32), 708.4 (f64)
fn log_range<F: Float>() -> f64 {
    -to64(F::min_positive_value()).ln()
}

fn fnv(data: &Array2<f64>) -> u64 {
    let mut h: u64 = 0xcbf29ce484222325;
    for v in data.iter() {
        h ^= v.to_bits();
        h = h.wrapping_mul(0x100000001b3);
    }
    h
}

/// run `f` on a view of `x` with the requested memory layout
/// 0 = C order, 1 = Fortran order, 2 = every second row / leading columns of a larger buffer,
/// 3 = rows stored in reverse (negative row stride)
fn with_layout<F: Float, R>(x: &Array2<F>, layout: u8, f: impl FnOnce(ArrayView2<F>) -> R) -> R {
    let (n, p) = x.dim();
    match layout {
        1 => {
            let mut h = Array2::<F>::zeros((p, n));
            h.assign(&x.t());
            let v = h.view().reversed_axes();
            f(v)
        }
        2 => {
            let mut h = Array2::<F>::from_elem((2 * n, p + 1), F::cast(-777.0));
            h.slice_mut(s![..;2, ..p]).assign(x);
            let r = f(h.slice(s![..;2, ..p]));
            r
        }
        3 => {
            let mut h = Array2::<F>::zeros((n, p));
            h.slice_mut(s![..;-1, ..]).assign(x);
            let r = f(h.slice(s![..;-1, ..]));
            r
        }
        _ => f(x.view()),
    }
}

// ------------------------------------------------------------------------------------------
// workload

#[derive(Clone, Debug)]
struct DataSpec {
    base: u8, // 0 separated, 1 overlapping, 2 anisotropic
    n: usize,
    p: usize,
    nb: usize,
    scale: f64,
    offset: f64,
    lattice: bool,
    constcol: bool,
    collinear: bool,
    outliers: usize,
    outlier_sigmas: f64,
}

impl DataSpec {
    fn key(&self) -> String {
        format!(
            "b{}n{}p{}nb{}s{:e}o{:e}{}{}{}out{}",
            self.base,
            self.n,
            self.p,
            self.nb,
            self.scale,
            self.offset,
            if self.lattice { "L" } else { "" },
            if self.constcol { "C" } else { "" },
            if self.collinear { "Q" } else { "" },
            self.outliers
        )
    }
    fn json(&self) -> Value {
        let base = ["separated", "overlapping", "anisotropic"][self.base as usize % 3];
        json!({"base": base, "n": self.n, "p": self.p,
               "blobs": self.nb, "scale": self.scale, "offset": self.offset, "lattice": self.lattice,
               "constant_column": self.constcol, "collinear": self.collinear, "outliers": self.outliers,
               "outlier_sigmas": self.outlier_sigmas})
    }
}

fn gen_data(rng: &mut Rng, sp: &DataSpec) -> Array2<f64> {
    let (n, p, nb) = (sp.n, sp.p, sp.nb.max(1));
    let spread = match sp.base {
        0 => 10.0,
        1 => 2.0,
        _ => 6.0,
    };
    let centers = Array2::from_shape_fn((nb, p), |_| gen::uniform(rng, -spread, spread));
    // per blob linear map
    let mut maps: Vec<Array2<f64>> = Vec::new();
    for _ in 0..nb {
        let m = match sp.base {
            2 => {
                // anisotropic: random matrix with column scales spanning up to 2 decades
                let mut a = gen::normal_matrix(rng, p, p);
                for j in 0..p {
                    let sc = gen::log_uniform(rng, 0.05, 2.0);
                    for i in 0..p {
                        a[[i, j]] *= sc;
                    }
                }
                for i in 0..p {
                    a[[i, i]] += 0.3;
                }
                a
            }
            _ => {
                let sg = gen::uniform(rng, 0.5, 1.5);
                Array2::eye(p) * sg
            }
        };
        maps.push(m);
    }
    let mut x = Array2::<f64>::zeros((n, p));
    for i in 0..n {
        let b = if i < nb { i } else { rng.gen_range(0..nb) };
        let g = gen::normal_vec(rng, p);
        let v = maps[b].dot(&g);
        for j in 0..p {
            x[[i, j]] = centers[[b, j]] + v[j];
        }
    }
    if sp.lattice {
        x.mapv_inplace(|v| (v * 2.0).round() / 2.0);
    }
    if sp.collinear && p >= 2 {
        for i in 0..n {
            x[[i, 1]] = 2.0 * x[[i, 0]] - 1.0;
        }
    }
    if sp.constcol {
        let j = p - 1;
        let v = if rng.gen_bool(0.5) { 0.0 } else { 7.5 };
        for i in 0..n {
            x[[i, j]] = v;
        }
    }
    if sp.outliers > 0 && n > sp.outliers {
        // put the outliers `outlier_sigmas` data standard deviations from the data centre
        let mean = x.mean_axis(Axis(0)).unwrap();
        let sd = x.std_axis(Axis(0), 0.0);
        let sdm = sd.iter().cloned().fold(0.0, f64::max).max(1e-3);
        for o in 0..sp.outliers {
            let mut u = gen::normal_vec(rng, p);
            let nu = u.dot(&u).sqrt().max(1e-12);
            u /= nu;
            let i = n - 1 - o;
            for j in 0..p {
                x[[i, j]] = mean[j] + sp.outlier_sigmas * sdm * u[j];
            }
            if sp.constcol {
                x[[i, p - 1]] = x[[0, p - 1]];
            }
        }
    }
    x.mapv_inplace(|v| v * sp.scale + sp.offset);
    x
}

#[derive(Clone, Debug)]
struct Cfg {
    k: usize,
    random_init: bool,
    reg: f64,
    tol: f64,
    n_runs: u64,
    max_iter: u64,
    seed: u64,
    layout: u8,
    qlayout: u8,
}

impl Cfg {
    fn key(&self) -> String {
        format!(
            "k{}{}reg{:e}tol{:e}r{}it{}s{}l{}q{}",
            self.k,
            if self.random_init { "R" } else { "K" },
            self.reg,
            self.tol,
            self.n_runs,
            self.max_iter,
            self.seed,
            self.layout,
            self.qlayout
        )
    }
    fn json(&self) -> Value {
        json!({"n_clusters": self.k, "init": if self.random_init {"Random"} else {"KMeans"}, "reg_covar": self.reg,
               "tolerance": self.tol, "n_runs": self.n_runs, "max_n_iterations": self.max_iter, "rng_seed": self.seed,
               "records_layout": self.layout, "query_layout": self.qlayout})
    }
}

fn err_class(e: &GmmError) -> &'static str {
    match e {
        GmmError::InvalidValue(_) => "InvalidValue",
        GmmError::LinalgError(_) => "LinalgError",
        GmmError::EmptyCluster(_) => "EmptyCluster",
        GmmError::LowerBoundError(_) => "LowerBoundError",
        GmmError::NotConverged(_) => "NotConverged",
        GmmError::KMeansError(_) => "KMeansError",
        GmmError::LinfaError(_) => "LinfaError",
        GmmError::MinMaxError(_) => "MinMaxError",
    }
}

fn fit_model<F: Float>(
    x: &Array2<F>,
    cfg: &Cfg,
) -> Result<Result<GaussianMixtureModel<F>, GmmError>, String> {
    with_layout(x, cfg.layout, |view| {
        let ds = DatasetBase::from(view);
        let params = GaussianMixtureModel::<F>::params_with_rng(
            cfg.k,
            Xoshiro256Plus::seed_from_u64(cfg.seed),
        )
        .tolerance(F::cast(cfg.tol))
        .reg_covariance(F::cast(cfg.reg))
        .n_runs(cfg.n_runs)
        .max_n_iterations(cfg.max_iter)
        .init_method(if cfg.random_init {
            GmmInitMethod::Random
        } else {
            GmmInitMethod::KMeans
        });
        guarded(|| params.fit(&ds))
    })
}

// ------------------------------------------------------------------------------------------
// oracle: the mixture defined by the published parameters, in f64

struct Orc {
    k: usize,
    p: usize,
    w: Vec<f64>,
    mu: Array2<f64>,
    chol: Vec<Array2<f64>>,
    logdet: Vec<f64>,
    lmin: Vec<f64>,
    lmax: Vec<f64>,
}

impl Orc {
    /// squared Mahalanobis distance of x to component k
    fn z2(&self, k: usize, x: &[f64]) -> f64 {
        let l = &self.chol[k];
        let p = self.p;
        let mut y = vec![0.0; p];
        let mut acc = 0.0;
        for i in 0..p {
            let mut sacc = x[i] - self.mu[[k, i]];
            for j in 0..i {
                sacc -= l[[i, j]] * y[j];
            }
            y[i] = sacc / l[[i, i]];
            acc += y[i] * y[i];
        }
        acc
    }
    /// weighted log density  ln w_k + ln N(x | mu_k, Sigma_k)  for every k
    fn wlp(&self, x: &[f64]) -> Vec<f64> {
        (0..self.k)
            .map(|k| {
                self.w[k].ln()
                    - 0.5
                        * (self.p as f64 * (2.0 * std::f64::consts::PI).ln()
                            + self.logdet[k]
                            + self.z2(k, x))
            })
            .collect()
    }
    fn zmin(&self, x: &[f64]) -> f64 {
        (0..self.k)
            .map(|k| self.z2(k, x))
            .fold(f64::INFINITY, f64::min)
            .sqrt()
    }
}

fn posterior(a: &[f64]) -> Vec<f64> {
    let m = a.iter().cloned().fold(f64::NEG_INFINITY, f64::max);
    let sh: Vec<f64> = a.iter().map(|v| (v - m).exp()).collect();
    let sum: f64 = sh.iter().sum();
    sh.iter().map(|v| v / sum).collect()
}

struct DataStats {
    n: usize,
    lo: Vec<f64>,
    hi: Vec<f64>,
    ax: Vec<f64>,
    mean: Vec<f64>,
    axmax: f64,
}

fn data_stats(x: &Array2<f64>) -> DataStats {
    let (n, p) = x.dim();
    let mut lo = vec![f64::INFINITY; p];
    let mut hi = vec![f64::NEG_INFINITY; p];
    let mut mean = vec![0.0; p];
    for r in x.rows() {
        for j in 0..p {
            lo[j] = lo[j].min(r[j]);
            hi[j] = hi[j].max(r[j]);
            mean[j] += r[j];
        }
    }
    for j in 0..p {
        mean[j] /= n.max(1) as f64;
    }
    let ax: Vec<f64> = (0..p).map(|j| lo[j].abs().max(hi[j].abs())).collect();
    let axmax = ax.iter().cloned().fold(0.0, f64::max);
    DataStats {
        n,
        lo,
        hi,
        ax,
        mean,
        axmax,
    }
}

/// Judge the published parameters. Ok(Some(orc)) = valid and usable for the query oracle,
/// Ok(None) = valid but a covariance is numerically singular (no query oracle).
fn check_model<F: Float>(
    c: &mut Case,
    m: &GaussianMixtureModel<F>,
    x: &Array2<f64>,
    st: &DataStats,
    cfg: &Cfg,
) -> Result<Option<Orc>, Outcome> {
    let eps = to64(F::epsilon());
    let fam = if eps > 1e-10 { "f32" } else { "f64" };
    let (n, p) = x.dim();
    let k = cfg.k;
    let nf = n as f64;
    // ---- shapes
    vio!(m.weights().len() == k, "C10/model/shape-mismatch", {"what": "weights", "len": m.weights().len(), "n_clusters": k});
    vio!(m.means().dim() == (k, p), "C10/model/shape-mismatch", {"what": "means", "dim": format!("{:?}", m.means().dim()), "expected": [k, p]});
    vio!(m.covariances().dim() == (k, p, p), "C10/model/shape-mismatch", {"what": "covariances", "dim": format!("{:?}", m.covariances().dim())});
    vio!(m.precisions().dim() == (k, p, p), "C10/model/shape-mismatch", {"what": "precisions", "dim": format!("{:?}", m.precisions().dim())});
    vio!(m.centroids() == m.means(), "C10/model/centroids-differ-from-means", {"k": k});
    let w: Vec<f64> = m.weights().iter().map(|v| to64(*v)).collect();
    let mu: Array2<f64> = m.means().mapv(to64);
    let cov: Array3<f64> = m.covariances().mapv(to64);
    let prec: Array3<f64> = m.precisions().mapv(to64);
    // ---- finiteness: a returned model never carries non-finite parameters
    let nonfinite = |it: &mut dyn Iterator<Item = &f64>| it.filter(|v| !v.is_finite()).count();
    let nfw = nonfinite(&mut w.iter());
    let nfm = nonfinite(&mut mu.iter());
    let nfc = nonfinite(&mut cov.iter());
    let nfp = nonfinite(&mut prec.iter());
    vio!(nfw + nfm + nfc + nfp == 0, "C10/model/non-finite-parameters",
        {"nonfinite_weights": nfw, "nonfinite_means": nfm, "nonfinite_covariances": nfc, "nonfinite_precisions": nfp,
         "weights": format!("{:?}", w)});
    // ---- weights
    for (i, wi) in w.iter().enumerate() {
        vio!(*wi > 0.0, "C10/weights/not-positive", {"component": i, "weight": wi, "weights": w});
    }
    // ---- means inside the bounding box (worst-case rounding of an n-term convex combination)
    for kk in 0..k {
        for j in 0..p {
            let tol = (256.0 + 16.0 * nf) * eps * st.ax[j];
            let v = mu[[kk, j]];
            let excess = (st.lo[j] - v).max(v - st.hi[j]).max(0.0);
            if st.ax[j] > 0.0 {
                c.resid(&format!("means-bbox/{fam}/excess-over-threshold"), excess / tol);
            }
            vio!(excess <= tol, "C10/means/outside-bounding-box",
                {"component": kk, "feature": j, "mean": v, "lo": st.lo[j], "hi": st.hi[j], "tolerance": tol});
        }
    }
    // ---- covariances: symmetric, diagonal >= reg, positive definite
    let mut chol = Vec::new();
    let mut logdet = Vec::new();
    let mut lmin = Vec::new();
    let mut lmax = Vec::new();
    let mut singular = false;
    let regf = to64(F::cast(cfg.reg));
    for kk in 0..k {
        let ck = cov.index_axis(Axis(0), kk);
        for i in 0..p {
            let d = ck[[i, i]];
            vio!(d >= regf * (1.0 - 4.0 * eps), "C10/covariance/diagonal-below-reg-covar",
                {"component": kk, "feature": i, "diagonal": d, "reg_covar": regf});
            vio!(d > 0.0, "C10/covariance/not-positive-definite", {"component": kk, "feature": i, "diagonal": d});
            for j in 0..i {
                let asym = (ck[[i, j]] - ck[[j, i]]).abs();
                let sc = (ck[[i, i]] * ck[[j, j]]).sqrt();
                let tol = (256.0 + 4.0 * nf) * eps * sc;
                if sc > 0.0 {
                    c.resid(&format!("cov-symmetry/{fam}/asym-over-threshold"), asym / tol);
                }
                vio!(asym <= tol, "C10/covariance/not-symmetric",
                    {"component": kk, "i": i, "j": j, "c_ij": ck[[i, j]], "c_ji": ck[[j, i]], "tolerance": tol});
            }
        }
        let sym = Array2::from_shape_fn((p, p), |(i, j)| 0.5 * (ck[[i, j]] + ck[[j, i]]));
        let (vals, _) = oracle::jacobi_eig(&sym);
        let (l1, lp) = (vals[0], vals[p - 1]);
        // rounding noise of a covariance accumulated in F from data of magnitude axmax
        let noise = 8.0 * nf * eps * (l1.abs() + st.axmax * l1.abs().sqrt());
        vio!(lp > -noise, "C10/covariance/not-positive-definite",
            {"component": kk, "smallest_eigenvalue": lp, "largest_eigenvalue": l1, "noise_floor": noise});
        let ch = oracle::cholesky(&sym);
        if lp <= noise.min(l1 * 1e-13) || ch.is_none() {
            // admissible: positive definite up to the rounding of the element type
            c.count("covariance-pd-within-rounding-noise");
            singular = true;
            continue;
        }
        if lp <= noise {
            c.count("covariance-smallest-eigenvalue-below-noise-floor");
        }
        let ch = ch.unwrap();
        logdet.push(2.0 * (0..p).map(|i| ch[[i, i]].ln()).sum::<f64>());
        chol.push(ch);
        lmin.push(lp);
        lmax.push(l1);
    }
    // ---- weights sum to one
    let wsum: f64 = w.iter().sum();
    // ---- precisions: symmetric, inverse of the covariance
    if !singular {
        for kk in 0..k {
            let ck = cov.index_axis(Axis(0), kk);
            let pk = prec.index_axis(Axis(0), kk);
            let cond = lmax[kk] / lmin[kk];
            let pmax = pk.iter().fold(0.0f64, |a, v| a.max(v.abs()));
            for i in 0..p {
                for j in 0..i {
                    let asym = (pk[[i, j]] - pk[[j, i]]).abs();
                    let tol = 64.0 * (p as f64) * eps * pmax;
                    c.resid(&format!("precision-symmetry/{fam}/asym-over-threshold"), asym / tol);
                    vio!(asym <= tol, "C10/precisions/not-symmetric",
                        {"component": kk, "i": i, "j": j, "p_ij": pk[[i, j]], "p_ji": pk[[j, i]], "tolerance": tol});
                }
            }
            let floor = (p as f64) * eps * cond;
            let tol = 1024.0 * floor;
            if tol > 0.1 {
                c.count("precision-inverse-check-skipped-ill-conditioned");
                continue;
            }
            let prod = pk.dot(&ck);
            let mut worst = 0.0f64;
            for i in 0..p {
                for j in 0..p {
                    let e = (prod[[i, j]] - if i == j { 1.0 } else { 0.0 }).abs();
                    worst = worst.max(e);
                }
            }
            c.resid(&format!("precision-inverse/{fam}/|P*C-I|-over-threshold"), worst / tol);
            vio!(worst <= tol, "C10/precisions/not-inverse-of-covariance",
                {"component": kk, "max_abs_P*C-I": worst, "tolerance": tol, "condition_number": cond});
        }
    }
    if singular {
        // weights can still be judged with a generic bound
        let tol = eps * (8.0 * nf + 4096.0);
        vio!((wsum - 1.0).abs() <= tol, "C10/weights/sum-not-one", {"sum": wsum, "tolerance": tol, "weights": w});
        return Ok(None);
    }
    let orc = Orc {
        k,
        p,
        w: w.clone(),
        mu: mu.clone(),
        chol,
        logdet,
        lmin,
        lmax,
    };
    // magnitude of the log densities on the training rows: scale of the rounding in the
    // responsibilities the weights were accumulated from
    let mut s_train = 0.0f64;
    for r in x.rows() {
        let a = orc.wlp(r.as_slice().unwrap_or(&r.to_vec()));
        let m = a.iter().cloned().fold(f64::NEG_INFINITY, f64::max);
        s_train = s_train.max(m.abs());
    }
    let s_cap = s_train.min(log_range::<F>());
    let wtol = eps * (8.0 * nf + 128.0 * (s_cap + k as f64 + 1.0));
    c.resid(&format!("weights-sum/{fam}/|sum-1|-over-threshold"), (wsum - 1.0).abs() / wtol);
    vio!((wsum - 1.0).abs() <= wtol, "C10/weights/sum-not-one", {"sum": wsum, "tolerance": wtol, "weights": w});

    // ---- first and second moments of the mixture reproduce those of the data, the second
    //      moment exceeding it by exactly reg_covar on the diagonal ("includes the regularisation")
    //      (identity of any responsibility-weighted maximum-likelihood update with rows of
    //      responsibilities summing to one)
    {
        let cen = &st.mean;
        let mut t = Array2::<f64>::zeros((p, p));
        for r in x.rows() {
            for i in 0..p {
                for j in 0..p {
                    t[[i, j]] += (r[i] - cen[i]) * (r[j] - cen[j]);
                }
            }
        }
        t /= nf;
        let mut mm = Array2::<f64>::zeros((p, p));
        let mut m1 = vec![0.0; p];
        for kk in 0..k {
            for i in 0..p {
                m1[i] += w[kk] * (mu[[kk, i]] - cen[i]);
                for j in 0..p {
                    mm[[i, j]] += w[kk]
                        * (cov[[kk, i, j]] + (mu[[kk, i]] - cen[i]) * (mu[[kk, j]] - cen[j]));
                }
            }
        }
        // spread per feature
        let sp: Vec<f64> = (0..p).map(|j| (st.hi[j] - st.lo[j]).max(0.0)).collect();
        let srel = eps * (8.0 * nf + 128.0 * (s_cap + k as f64 + 1.0));
        for i in 0..p {
            let tol1 = srel * (sp[i] + st.ax[i]) ;
            if tol1 > 0.0 {
                c.resid(&format!("moment-1/{fam}/resid-over-threshold"), m1[i].abs() / tol1);
            }
            vio!(m1[i].abs() <= tol1, "C10/moments/mixture-mean-differs-from-data-mean",
                {"feature": i, "sum_k w_k (mu_k - data_mean)": m1[i], "tolerance": tol1});
            for j in 0..p {
                let want = t[[i, j]] + if i == j { regf } else { 0.0 };
                let tol2 = srel * ((sp[i] + st.ax[i]) * (sp[j] + st.ax[j]) + regf);
                let r = (mm[[i, j]] - want).abs();
                if tol2 > 0.0 {
                    c.resid(&format!("moment-2/{fam}/resid-over-threshold"), r / tol2);
                }
                if i == j && tol2 < 0.01 * regf {
                    c.count("reg-covar-resolved-by-moment-identity");
                }
                vio!(r <= tol2, if i == j { "C10/moments/diagonal-second-moment-not-data-plus-reg-covar" } else { "C10/moments/second-moment-differs-from-data" },
                    {"i": i, "j": j, "mixture_second_moment": mm[[i, j]], "data_second_moment_plus_reg": want, "reg_covar": regf, "tolerance": tol2});
            }
        }
    }
    c.note("s_train", json!(s_train));
    Ok(Some(orc))
}

// ------------------------------------------------------------------------------------------
// queries

struct Query {
    x: Vec<f64>,
    tag: &'static str,
    r: f64,
}

/// point on the ray centre + t*u whose nearest component (Mahalanobis) is exactly r sigmas away
fn far_exact(orc: &Orc, centre: &[f64], u: &[f64], r: f64) -> Option<Vec<f64>> {
    let at = |t: f64| -> Vec<f64> { (0..orc.p).map(|j| centre[j] + t * u[j]).collect() };
    let mut hi = 1.0f64;
    let smax = orc.lmax.iter().cloned().fold(0.0, f64::max).sqrt();
    hi = hi.max(smax * r);
    let mut it = 0;
    while orc.zmin(&at(hi)) < r {
        hi *= 2.0;
        it += 1;
        if it > 200 || !hi.is_finite() {
            return None;
        }
    }
    // largest t with zmin <= r on [0, hi] need not be unique; bisect from the far side
    let mut lo = 0.0;
    if orc.zmin(&at(lo)) >= r {
        return Some(at(hi));
    }
    for _ in 0..80 {
        let mid = 0.5 * (lo + hi);
        if orc.zmin(&at(mid)) < r {
            lo = mid;
        } else {
            hi = mid;
        }
    }
    Some(at(hi))
}

fn unit(rng: &mut Rng, p: usize) -> Vec<f64> {
    loop {
        let v: Vec<f64> = (0..p).map(|_| gen::normal(rng)).collect();
        let n = v.iter().map(|a| a * a).sum::<f64>().sqrt();
        if n > 1e-6 {
            return v.iter().map(|a| a / n).collect();
        }
    }
}

fn build_queries<F: Float>(
    c: &mut Case,
    orc: &Orc,
    x: &Array2<f64>,
    st: &DataStats,
    m: &GaussianMixtureModel<F>,
) -> Vec<Query> {
    let p = orc.p;
    let mut q: Vec<Query> = Vec::new();
    let n = x.nrows();
    // training rows: a random subset plus the row farthest from every component
    // now and then a batch longer than any internal block size and not a multiple of one
    // (hard assignments / probabilities of a batch are computed block-wise)
    let ntrain = if c.rng.gen_range(0..20) == 0 { 1024 + c.rng.gen_range(1..1500usize) } else { n.min(48) };
    if ntrain > 1024 {
        c.count("query-batches-longer-than-1024-rows");
    }
    for _ in 0..ntrain {
        let i = c.rng.gen_range(0..n);
        q.push(Query { x: x.row(i).to_vec(), tag: "train", r: 0.0 });
    }
    let mut worst = (0usize, -1.0f64);
    for i in 0..n {
        let z = orc.zmin(&x.row(i).to_vec());
        if z > worst.1 {
            worst = (i, z);
        }
    }
    q.push(Query { x: x.row(worst.0).to_vec(), tag: "train-farthest", r: worst.1 });
    for kk in 0..orc.k {
        q.push(Query { x: orc.mu.row(kk).to_vec(), tag: "mean", r: 0.0 });
    }
    // far queries
    let eps = to64(F::epsilon());
    let mut radii: Vec<f64> = vec![10.0, 30.0, 100.0, 1e3, 1e6];
    // radii at which exp(log density) leaves the normal range of the element type
    if eps > 1e-10 {
        radii.extend_from_slice(&[12.5, 13.5, 14.2, 15.0]);
    } else {
        radii.extend_from_slice(&[36.5, 37.8, 38.4, 40.0]);
    }
    let extra = c.tier.pick(2, 6);
    for _ in 0..extra {
        radii.push(gen::log_uniform(&mut c.rng, 5.0, 1e6));
    }
    for &r in &radii {
        // (a) exactly r sigmas from the nearest component, along a random ray from the data centre
        let u = unit(&mut c.rng, p);
        if let Some(xq) = far_exact(orc, &st.mean, &u, r) {
            q.push(Query { x: xq, tag: "far-nearest-exactly-r", r });
        }
        // (b) r sigmas from one component along its own covariance factor
        let kk = c.rng.gen_range(0..orc.k);
        let g = unit(&mut c.rng, p);
        let l = &orc.chol[kk];
        let xq: Vec<f64> = (0..p)
            .map(|i| orc.mu[[kk, i]] + r * (0..=i).map(|j| l[[i, j]] * g[j]).sum::<f64>())
            .collect();
        q.push(Query { x: xq, tag: "far-from-one-component", r });
        // (c) along a coordinate axis
        let j = c.rng.gen_range(0..p);
        let sgn = if c.rng.gen_bool(0.5) { 1.0 } else { -1.0 };
        let mut u = vec![0.0; p];
        u[j] = sgn;
        if let Some(xq) = far_exact(orc, &st.mean, &u, r) {
            q.push(Query { x: xq, tag: "far-axis", r });
        }
    }
    // (d) decision boundaries far from the data: bisect the direction between two far rays on
    //     which linfa predicts different components (linfa only locates the boundary; the
    //     verdict on the resulting rows comes from the oracle like for any other row)
    if orc.k >= 2 {
        let pred_one = |xq: &[f64]| -> Option<usize> {
            let a = Array2::from_shape_fn((1, p), |(_, j)| F::cast(xq[j]));
            guarded(|| m.predict(&a)).ok().map(|t| t[0])
        };
        for &r in &[10.0, 100.0, 1e3, 1e6] {
            let mut found: Option<(Vec<f64>, usize, Vec<f64>, usize)> = None;
            let u0 = unit(&mut c.rng, p);
            let l0 = far_exact(orc, &st.mean, &u0, r).and_then(|xq| pred_one(&xq));
            if let Some(l0) = l0 {
                for _ in 0..12 {
                    let u1 = unit(&mut c.rng, p);
                    if let Some(l1) = far_exact(orc, &st.mean, &u1, r).and_then(|xq| pred_one(&xq)) {
                        if l1 != l0 {
                            found = Some((u0.clone(), l0, u1, l1));
                            break;
                        }
                    }
                }
            }
            if let Some((mut ua, la, mut ub, _lb)) = found {
                for _ in 0..60 {
                    let mut um: Vec<f64> = (0..p).map(|j| 0.5 * (ua[j] + ub[j])).collect();
                    let nn = um.iter().map(|a| a * a).sum::<f64>().sqrt();
                    if nn < 1e-9 {
                        break;
                    }
                    um.iter_mut().for_each(|a| *a /= nn);
                    match far_exact(orc, &st.mean, &um, r).and_then(|xq| pred_one(&xq)) {
                        Some(lm) if lm == la => ua = um,
                        Some(_) => ub = um,
                        None => break,
                    }
                }
                for u in [ua, ub] {
                    if let Some(xq) = far_exact(orc, &st.mean, &u, r) {
                        q.push(Query { x: xq, tag: "far-decision-boundary", r });
                        c.count("far-decision-boundary-queries");
                    }
                }
            }
        }
    }
    q
}

/// Judge predict_proba / predict on the query rows.
fn check_queries<F: Float>(
    c: &mut Case,
    m: &GaussianMixtureModel<F>,
    orc: &Orc,
    st: &DataStats,
    qs: &[Query],
    qlayout: u8,
) -> Result<(u64, u64), Outcome> {
    let eps = to64(F::epsilon());
    let fam = if eps > 1e-10 { "f32" } else { "f64" };
    let (k, p) = (orc.k, orc.p);
    let nq = qs.len();
    let qf = Array2::<F>::from_shape_fn((nq, p), |(i, j)| F::cast(qs[i].x[j]));
    for (i, r) in qf.rows().into_iter().enumerate() {
        if r.iter().any(|v| !v.is_finite()) {
            return Err(inconclusive(format!("query {} not finite in the element type", qs[i].tag)));
        }
    }
    let res = with_layout(&qf, qlayout, |v| {
        guarded(|| {
            let pr = m.predict_proba(&v);
            let lab: Array1<usize> = m.predict(&v);
            (pr, lab)
        })
    });
    let (proba, labels) = match res {
        Ok(v) => v,
        Err(msg) => {
            return Err(violated(
                "C10/predict/panic",
                json!({"panic": msg, "queries": qs.iter().map(|q| json!({"tag": q.tag, "r": q.r})).collect::<Vec<_>>()}),
            ))
        }
    };
    // the target buffer of `predict_inplace` is an output: stale labels in it (here the largest
    // valid label everywhere) must not influence the result
    let reuse = with_layout(&qf, qlayout, |v| {
        guarded(|| {
            let mut buf = Array1::<usize>::from_elem(nq, k.saturating_sub(1));
            linfa::traits::PredictInplace::predict_inplace(m, &v, &mut buf);
            buf
        })
    });
    match reuse {
        Ok(buf) => vio!(buf == labels, "C10/predict/inplace-depends-on-the-buffer-content",
            {"first_difference": buf.iter().zip(labels.iter()).position(|(a, b)| a != b), "k": k}),
        Err(msg) => return Err(violated("C10/predict/panic", json!({"panic": msg, "call": "predict_inplace into a used buffer"}))),
    }
    vio!(proba.dim() == (nq, k), "C10/proba/shape-mismatch", {"dim": format!("{:?}", proba.dim()), "expected": [nq, k]});
    vio!(labels.len() == nq, "C10/predict/shape-mismatch", {"len": labels.len(), "expected": nq});
    let mut far = 0u64;
    let mut posterior_checked = 0u64;
    for i in 0..nq {
        let q = &qs[i];
        // the row as the model saw it
        let xr: Vec<f64> = (0..p).map(|j| to64(qf[[i, j]])).collect();
        let a = orc.wlp(&xr);
        let s_row = a.iter().fold(0.0f64, |acc, v| acc.max(v.abs()));
        let zmin = orc.zmin(&xr);
        let pr: Vec<f64> = (0..k).map(|j| to64(proba[[i, j]])).collect();
        let detail = |extra: Value| -> Value {
            json!({"query_kind": q.tag, "radius_sigmas": q.r, "nearest_component_sigmas": zmin, "row": xr,
                   "predict_proba": pr.iter().map(|v| format!("{v:e}")).collect::<Vec<_>>(),
                   "oracle_weighted_log_density": a, "extra": extra})
        };
        if q.tag.starts_with("far") {
            if zmin >= 9.9 {
                far += 1;
            }
            c.count(&format!("far-queries/{}", if zmin >= 1e5 { ">=1e5 sigma" } else if zmin >= 900.0 { ">=900 sigma" } else if zmin >= 90.0 { ">=90 sigma" } else if zmin >= 25.0 { ">=25 sigma" } else if zmin >= 9.0 { ">=9 sigma" } else { "<9 sigma" }));
        }
        for (j, v) in pr.iter().enumerate() {
            vio!(v.is_finite(), "C10/proba/non-finite", detail(json!({"component": j})));
            vio!(*v >= 0.0, "C10/proba/negative", detail(json!({"component": j})));
        }
        let sum: f64 = pr.iter().sum();
        // S is capped at the log of the element type's dynamic range: rounding proportional to a
        // larger |log density| can only come from exponentials that under- or overflow
        let tol = 64.0 * eps * (s_row.min(log_range::<F>()) + k as f64 + 1.0);
        c.resid(&format!("proba-row-sum/{fam}/|sum-1|-over-threshold"), (sum - 1.0).abs() / tol);
        vio!((sum - 1.0).abs() <= tol, "C10/proba/row-sum-not-one", detail(json!({"sum": sum, "tolerance": tol})));
        for (j, v) in pr.iter().enumerate() {
            vio!(*v <= 1.0 + tol, "C10/proba/above-one", detail(json!({"component": j})));
        }
        // predicted component is one of maximal probability
        let lab = labels[i];
        vio!(lab < k, "C10/predict/label-out-of-range", detail(json!({"label": lab})));
        let pmax = pr.iter().cloned().fold(f64::NEG_INFINITY, f64::max);
        let nmax = pr.iter().filter(|v| **v == pmax).count();
        if nmax > 1 {
            c.count("argmax-tie-class");
        }
        vio!(pr[lab] == pmax, "C10/predict/not-a-maximal-probability-component", detail(json!({"label": lab, "max_probability": pmax})));
        // membership probabilities are the responsibilities of the published mixture
        let post = posterior(&a);
        let mut e_max = 0.0f64;
        let xinf = xr.iter().fold(0.0f64, |acc, v| acc.max(v.abs())).max(st.axmax);
        for kk in 0..k {
            let z2 = orc.z2(kk, &xr);
            let cond = orc.lmax[kk] / orc.lmin[kk];
            let pf = p as f64;
            let e = eps
                * (pf * cond * (z2 + 1.0)
                    + 2.0 * pf * z2.sqrt() * xinf / orc.lmin[kk].sqrt()
                    + pf * (orc.lmin[kk].ln().abs() + orc.lmax[kk].ln().abs())
                    + orc.w[kk].ln().abs()
                    + a[kk].abs()
                    + 1.0);
            e_max = e_max.max(e);
        }
        let ptol = 128.0 * e_max;
        if ptol <= 0.02 {
            posterior_checked += 1;
            let mut worst = 0.0f64;
            for kk in 0..k {
                worst = worst.max((pr[kk] - post[kk]).abs());
            }
            c.resid(&format!("proba-vs-posterior/{fam}/diff-over-threshold"), worst / ptol);
            vio!(worst <= ptol, "C10/proba/not-the-responsibilities-of-the-published-mixture",
                detail(json!({"oracle_posterior": post, "max_abs_difference": worst, "tolerance": ptol})));
        } else {
            // far away: when the oracle's leading component leads by more than the rounding of
            // the log densities, it must carry (almost) all the mass
            let mut idx: Vec<usize> = (0..k).collect();
            idx.sort_by(|&i1, &i2| a[i2].partial_cmp(&a[i1]).unwrap());
            if k >= 2 {
                let gap = a[idx[0]] - a[idx[1]];
                if gap > 2.0 * ptol + 40.0 {
                    c.count("far-one-hot-checked");
                    vio!(pr[idx[0]] >= 1.0 - tol - 1e-12, "C10/proba/far-query-mass-on-wrong-component",
                        detail(json!({"oracle_leading_component": idx[0], "log_density_gap": gap})));
                }
            }
        }
    }
    Ok((far, posterior_checked))
}

// ------------------------------------------------------------------------------------------
// one complete case

fn run_case<F: Float>(c: &mut Case, sp: &DataSpec, cfg: &Cfg, x64: &Array2<f64>) -> Outcome {
    let xf: Array2<F> = x64.mapv(|v| F::cast(v));
    if xf.iter().any(|v| !v.is_finite()) {
        return inconclusive("generated data not finite in the element type");
    }
    // the data as the model sees it
    let x: Array2<f64> = xf.mapv(to64);
    c.note("data", sp.json());
    c.note("config", cfg.json());
    c.note("element_type", json!(if to64(F::epsilon()) > 1e-10 { "f32" } else { "f64" }));
    c.note("data_hash", json!(format!("{:016x}", fnv(&x))));
    if x.len() <= 48 {
        c.note("records", json!(x.rows().into_iter().map(|r| r.to_vec()).collect::<Vec<_>>()));
    }
    let model = match fit_model::<F>(&xf, cfg) {
        Err(msg) if x.nrows() == 0 => {
            // no fit can succeed on an empty dataset: outside the property's domain; the panic
            // (k-means++ initialisation asserting a non-zero total weight) is only counted
            c.count("empty-dataset-panics-in-kmeans-init");
            return inconclusive(format!("empty dataset, out of domain: panic {}", msg.lines().next().unwrap_or("").chars().take(40).collect::<String>()));
        }
        Ok(Ok(_)) if x.nrows() == 0 => {
            return violated("C10/fit/model-from-empty-dataset", json!({"n": 0}));
        }
        Err(msg) => {
            return violated("C10/fit/panic", json!({"panic": msg}));
        }
        Ok(Err(e)) => {
            c.count(&format!("fit-error/{}", err_class(&e)));
            return inconclusive(format!("fit returned Err({})", err_class(&e)));
        }
        Ok(Ok(m)) => m,
    };
    c.count("fit-ok");
    // a single EM iteration has no previous lower bound to compare with: nothing can have converged
    if cfg.max_iter == 1 {
        return violated(
            "C10/convergence/model-returned-after-a-single-iteration",
            json!({"max_n_iterations": 1, "tolerance": cfg.tol, "weights": model.weights().iter().map(|v| to64(*v)).collect::<Vec<_>>()}),
        );
    }
    let st = data_stats(&x);
    let orc = match check_model::<F>(c, &model, &x, &st, cfg) {
        Err(o) => return o,
        Ok(None) => return inconclusive("model valid up to rounding; a covariance is numerically singular in f64, no query oracle"),
        Ok(Some(o)) => o,
    };
    let qs = build_queries::<F>(c, &orc, &x, &st, &model);
    let (far, post) = match check_queries::<F>(c, &model, &orc, &st, &qs, cfg.qlayout) {
        Err(o) => return o,
        Ok(v) => v,
    };
    c.evals = 1 + qs.len() as u64;
    c.count_n("query-rows", qs.len() as u64);
    c.count_n("query-rows-compared-with-oracle-posterior", post);
    held(far >= 1, format!("{}-{}-{:016x}", sp.key(), cfg.key(), fnv(&x)))
}

fn random_cfg(c: &mut Case, kmax: usize) -> Cfg {
    let rng = &mut c.rng;
    Cfg {
        k: rng.gen_range(1..=kmax),
        random_init: rng.gen_bool(0.4),
        reg: *gen::pick(rng, &[0.0, 1e-6, 1e-6, 1e-2, 1e-9, 1.0]),
        tol: *gen::pick(rng, &[1e-2, 1e-3, 1e-3, 1e-4, 1e-5, 1e-6]),
        n_runs: rng.gen_range(1..=3),
        max_iter: *gen::pick(rng, &[100, 100, 500, 30]),
        seed: rng.gen_range(0..10),
        layout: *gen::pick(rng, &[0, 0, 1, 2, 3]),
        qlayout: *gen::pick(rng, &[0, 0, 1, 2, 3]),
    }
}

fn general_case<F: Float>(c: &mut Case) -> Outcome {
    let nmax = c.tier.pick(500, 2500);
    let p = c.rng.gen_range(1..=6);
    let nb = c.rng.gen_range(1..=5);
    let mut sp = DataSpec {
        base: c.rng.gen_range(0..3),
        n: c.rng.gen_range(20..=nmax),
        p,
        nb,
        scale: 1.0,
        offset: 0.0,
        lattice: false,
        constcol: false,
        collinear: false,
        outliers: 0,
        outlier_sigmas: 0.0,
    };
    if c.rng.gen_bool(0.3) {
        sp.scale = *gen::pick(&mut c.rng, &[1e-3, 1e3, 1e-2, 30.0]);
    }
    if c.rng.gen_bool(0.3) {
        sp.offset = sp.scale * *gen::pick(&mut c.rng, &[100.0, -1e3, 1e4]);
    }
    let kmax = c.tier.pick(6, 8);
    let mut cfg = random_cfg(c, kmax);
    // fitting as many components as blobs is the typical use; other counts stay in
    if c.rng.gen_bool(0.5) {
        cfg.k = nb;
    }
    let x = gen_data(&mut c.rng, &sp);
    run_case::<F>(c, &sp, &cfg, &x)
}

fn hostile_case<F: Float>(c: &mut Case) -> Outcome {
    let nmax = c.tier.pick(400, 1500);
    let p = c.rng.gen_range(1..=6);
    let nb = c.rng.gen_range(1..=4);
    let mut sp = DataSpec {
        base: c.rng.gen_range(0..3),
        n: c.rng.gen_range(12..=nmax),
        p,
        nb,
        scale: 1.0,
        offset: 0.0,
        lattice: false,
        constcol: false,
        collinear: false,
        outliers: 0,
        outlier_sigmas: 0.0,
    };
    let mut cfg = random_cfg(c, 6);
    let mode = c.idx % 8;
    match mode {
        0 => sp.lattice = true,
        1 => {
            sp.constcol = true;
            if cfg.reg == 0.0 {
                cfg.reg = 1e-6;
            }
        }
        2 => {
            sp.collinear = true;
            if cfg.reg == 0.0 {
                cfg.reg = 1e-2;
            }
        }
        3 => {
            // outliers in the training data, at distances where exp(log density) leaves the
            // normal range of the element type
            sp.outliers = c.rng.gen_range(1..=3);
            sp.outlier_sigmas = *gen::pick(&mut c.rng, &[8.0, 12.0, 15.0, 25.0, 40.0, 60.0]);
        }
        4 => {
            // few samples per component
            sp.n = c.rng.gen_range(cfg.k.max(2)..=(4 * cfg.k + 4));
        }
        5 => {
            // bad scaling
            sp.scale = *gen::pick(&mut c.rng, &[1e-6, 1e-4, 1e5, 1e-8]);
            if c.rng.gen_bool(0.5) {
                sp.offset = sp.scale * 1e3;
            }
            cfg.reg = *gen::pick(&mut c.rng, &[0.0, 1e-6, 1e-12]);
        }
        6 => {
            // regularisation larger than the variance of the data, tiny clusters
            sp.scale = 0.01;
            cfg.reg = *gen::pick(&mut c.rng, &[1e-2, 1.0, 10.0]);
        }
        _ => {
            // tight budgets: NotConverged expected, an Ok must still be a valid model
            cfg.max_iter = c.rng.gen_range(1..=4);
            cfg.tol = *gen::pick(&mut c.rng, &[1e-6, 1e-9, 1e-3]);
        }
    }
    c.count(&format!("hostile-mode/{mode}"));
    let x = gen_data(&mut c.rng, &sp);
    run_case::<F>(c, &sp, &cfg, &x)
}

/// degenerate shapes: n in {0,1,2,..}, n < k, n == k, identical rows, two distinct rows
fn degenerate_case<F: Float>(c: &mut Case) -> Outcome {
    let i = c.idx as usize;
    let shapes: [(usize, usize); 11] = [(0, 2), (1, 1), (1, 3), (2, 1), (2, 2), (3, 2), (4, 1), (5, 3), (6, 6), (8, 2), (7, 1)];
    let (n, p) = shapes[i % shapes.len()];
    let i = i / shapes.len();
    let k = 1 + i % 4;
    let i = i / 4;
    let kind = i % 3; // 0 random, 1 all identical, 2 two distinct values
    let i = i / 3;
    let random_init = i % 2 == 1;
    let i = i / 2;
    let reg = [0.0, 1e-6, 1e-2][i % 3];
    let mut x = Array2::<f64>::zeros((n, p));
    for r in 0..n {
        for j in 0..p {
            x[[r, j]] = match kind {
                0 => gen::normal(&mut c.rng),
                1 => 1.5,
                _ => if r % 2 == 0 { -1.0 } else { 2.0 + j as f64 },
            };
        }
    }
    let sp = DataSpec { base: 0, n, p, nb: 1, scale: 1.0, offset: 0.0, lattice: kind != 0, constcol: kind == 1, collinear: false, outliers: 0, outlier_sigmas: 0.0 };
    let cfg = Cfg { k, random_init, reg, tol: 1e-3, n_runs: 1 + (c.idx % 2), max_iter: 100, seed: c.idx % 5, layout: 0, qlayout: 0 };
    let kname = ["random", "identical-rows", "two-distinct-rows"][kind];
    c.note("degenerate_kind", json!(kname));
    run_case::<F>(c, &sp, &cfg, &x)
}

// small scope, complete: every multiset of n <= NMAX values from {0,1,2,3} (one feature),
// k in 1..=3, both initialisers, reg in {0, 1e-6, 1e-2}
fn multisets(nmax: usize, vals: usize) -> Vec<Vec<usize>> {
    fn rec(out: &mut Vec<Vec<usize>>, cur: &mut Vec<usize>, left: usize, from: usize, vals: usize) {
        if left == 0 {
            out.push(cur.clone());
            return;
        }
        for v in from..vals {
            cur.push(v);
            rec(out, cur, left - 1, v, vals);
            cur.pop();
        }
    }
    let mut out = vec![];
    for n in 1..=nmax {
        rec(&mut out, &mut vec![], n, 0, vals);
    }
    out
}

pub fn run(ctx: &Ctx) {
    ctx.set_rule(
        "one case = one generated dataset (separated / overlapping / anisotropic blobs, 1..6 features, optional scale, offset, \
         lattice duplicates, constant or collinear feature, training outliers, few rows) x one configuration (1..6 (thorough: 1..8) components, \
         KMeans or Random initialiser, reg_covar, tolerance, n_runs, iteration budget, rng seed, record and query memory layout) \
         x element type; fits returning Err are inconclusive. Non-trivial = fit succeeded, the published parameters were judged and \
         at least one query row >= 10 sigmas away from every component was judged; distinct = data spec + configuration + data hash",
    );
    ctx.assume("oracle: f64 Jacobi eigenvalues / Cholesky of the published covariances (cast exactly to f64), log densities by forward substitution");
    ctx.assume("rounding allowances: means (256+16n)*eps*max|x| outside the box; covariance symmetry (256+4n)*eps*sqrt(cii*cjj); P*C-I 1024*p*eps*cond(C); \
                probability row sums 64*eps*(min(S,L)+K+1) with S the largest |weighted log density| of the row and L the log of the element type's dynamic range; eps of the model's element type");
    ctx.assume("query rows are finite in the element type and at most 1e6 sigmas away; squared distances that overflow the element type are not generated");

    let ng = ctx.tier.pick(300, 1000);
    let nh = ctx.tier.pick(320, 1000);
    ctx.family("fit-f64", ng, |c| general_case::<f64>(c));
    ctx.family("fit-f32", ng, |c| general_case::<f32>(c));
    ctx.family("hostile-f64", nh, |c| hostile_case::<f64>(c));
    ctx.family("hostile-f32", nh, |c| hostile_case::<f32>(c));
    let nd = 11 * 4 * 3 * 2 * 3;
    ctx.family("degenerate-shapes-f64", nd, |c| degenerate_case::<f64>(c));
    ctx.family("degenerate-shapes-f32", nd, |c| degenerate_case::<f32>(c));

    let nmax = ctx.tier.pick(5, 7);
    let ms = multisets(nmax, 4);
    let combos = 3 * 2 * 3;
    ctx.set_exhaustive(&format!("one feature, every multiset of 1..={nmax} values from {{0,1,2,3}}, k in 1..=3, both initialisers, reg_covar in {{0,1e-6,1e-2}}, f64"), true);
    ctx.family("small-scope-1d", (ms.len() * combos) as u64, |c| {
        let i = c.idx as usize;
        let m = &ms[i / combos];
        let r = i % combos;
        let k = 1 + r % 3;
        let random_init = (r / 3) % 2 == 1;
        let reg = [0.0, 1e-6, 1e-2][r / 6];
        let n = m.len();
        let x = Array2::from_shape_fn((n, 1), |(i, _)| m[i] as f64);
        let sp = DataSpec { base: 0, n, p: 1, nb: 1, scale: 1.0, offset: 0.0, lattice: true, constcol: false, collinear: false, outliers: 0, outlier_sigmas: 0.0 };
        let cfg = Cfg { k, random_init, reg, tol: 1e-3, n_runs: 1, max_iter: 100, seed: 42, layout: 0, qlayout: 0 };
        run_case::<f64>(c, &sp, &cfg, &x)
    });
}
