//! C18 — PCA returns the leading orthonormal principal axes with their true variances.
//!
//! Oracle: two-pass column means, sample covariance S = Xc'Xc/(n-1) and its dense symmetric
//! eigen-decomposition by cyclic Jacobi (harness code, `oracle::jacobi_eig`). Everything the
//! property states is then a statement about (S, lambda, V) and the accessors / outputs of the
//! fitted model; nothing is taken from linfa's own route (LOBPCG on Xc'Xc).
//!
//! All spectral tolerances are relative to lambda_1 (largest covariance eigenvalue) — the
//! natural scale of "true variances" — and are listed in `Tol`.
use crate::fw::*;
use crate::gen;
use linfa::traits::{Fit, Predict, Transformer};
use linfa::DatasetBase;
use linfa_reduction::Pca;
use ndarray::{s, Array1, Array2, Axis};
use rand::Rng as _;
use serde_json::{json, Value};

const EPS: f64 = f64::EPSILON;

/// tolerances (see report for the measured margins); spectral ones are relative to lambda_1
struct Tol;
impl Tol {
    /// eigen-equation residual and subspace angle: first order in the eigenvector error, which is
    /// governed by the precision (1e-5, squared for the Gram problem) linfa configures for LOBPCG
    const VEC: f64 = 1e-6;
    /// eigenvalues, projected variances, covariances, captured variance: second order
    const VAL: f64 = 1e-9;
    /// orthonormality of the (de-whitened) components, absolute
    const ORTH: f64 = 1e-7;
    /// eigenvalues at or below NULL * lambda_1 are "numerically null": such directions may be
    /// dropped by the model (documented cut-off of the truncated SVD, pinned by
    /// `test_explained_variance_cutoff`)
    const NULL: f64 = 1e-9;
    /// the leading k-dimensional eigenspace is treated as well defined when
    /// lambda_k - lambda_{k+1} >= GAP * lambda_1
    const GAP: f64 = 1e-3;
}

type V = Result<(), Outcome>;

const PLANE_ROTATION_SIG: &str = "C18/components/plane-rotation-between-two-eigen-directions-with-exact-eigenvalues";
const ITERATIVE_SIG: &str = "C18/iterative-solver-regime(p>500,5k<=p,k>=8)/spectral-accuracy";

macro_rules! vio {
    ($sig:expr, $($json:tt)+) => {
        return Err(violated($sig, json!($($json)+)))
    };
}
macro_rules! req {
    ($cond:expr, $sig:expr, $($json:tt)+) => {
        if !($cond) {
            return Err(violated($sig, json!($($json)+)));
        }
    };
}

// ------------------------------------------------------------------------------------ oracle

struct Spec {
    n: usize,
    p: usize,
    mean: Array1<f64>,
    /// sum_i |x_ij| per column (scale of the mean's noise floor)
    abs_sum: Array1<f64>,
    cov: Array2<f64>,
    lam: Array1<f64>,
    vecs: Array2<f64>,
    lam1: f64,
    /// largest centred row norm
    rmax: f64,
    /// largest |x_ij|
    xmax: f64,
}

fn spectrum(x: &Array2<f64>) -> Spec {
    let (n, p) = x.dim();
    let nf = n as f64;
    let mut mean = Array1::<f64>::zeros(p);
    let mut abs_sum = Array1::<f64>::zeros(p);
    for j in 0..p {
        let col = x.column(j);
        let m0: f64 = col.iter().sum::<f64>() / nf;
        let corr: f64 = col.iter().map(|v| v - m0).sum::<f64>() / nf;
        mean[j] = m0 + corr;
        abs_sum[j] = col.iter().map(|v| v.abs()).sum();
    }
    let xc = x - &mean;
    let cov = xc.t().dot(&xc) / (nf - 1.0);
    let (lam, vecs) = jacobi_sym(&cov);
    let lam = lam.mapv(|v| v.max(0.0));
    let lam1 = lam[0];
    let rmax = xc
        .rows()
        .into_iter()
        .map(|r| r.dot(&r).sqrt())
        .fold(0.0, f64::max);
    Spec {
        n,
        p,
        mean,
        abs_sum,
        cov,
        lam,
        vecs,
        lam1,
        rmax,
        xmax: x.iter().fold(0.0f64, |m, v| m.max(v.abs())),
    }
}

/// Cyclic Jacobi eigen-decomposition of a symmetric matrix on flat row-major storage (same
/// algorithm as `oracle::jacobi_eig`, arranged so that every rotation touches two contiguous
/// rows of A and of V^T). Returns (eigenvalues descending, eigenvectors as columns).
fn jacobi_sym(a_in: &Array2<f64>) -> (Array1<f64>, Array2<f64>) {
    let n = a_in.nrows();
    let mut a: Vec<f64> = Vec::with_capacity(n * n);
    for i in 0..n {
        for j in 0..n {
            // symmetrise: the input is X'X/(n-1), symmetric up to rounding
            a.push(0.5 * (a_in[[i, j]] + a_in[[j, i]]));
        }
    }
    let mut vt = vec![0.0f64; n * n];
    for i in 0..n {
        vt[i * n + i] = 1.0;
    }
    let mut rowp = vec![0.0f64; n];
    let mut rowq = vec![0.0f64; n];
    for _sweep in 0..60 {
        let mut off = 0.0;
        let mut diag = 0.0;
        for i in 0..n {
            for j in 0..n {
                let v = a[i * n + j];
                if i == j {
                    diag += v * v;
                } else {
                    off += v * v;
                }
            }
        }
        if off <= 1e-30 * diag.max(1e-300) {
            break;
        }
        for p in 0..n {
            for q in (p + 1)..n {
                let apq = a[p * n + q];
                if apq == 0.0 {
                    continue;
                }
                let app = a[p * n + p];
                let aqq = a[q * n + q];
                // negligible rotation: |apq| below the rounding level of both diagonal entries
                if apq.abs() <= 1e-18 * (app.abs().min(aqq.abs())) {
                    continue;
                }
                let theta = (aqq - app) / (2.0 * apq);
                let t = if theta == 0.0 {
                    1.0
                } else {
                    theta.signum() / (theta.abs() + (theta * theta + 1.0).sqrt())
                };
                let c = 1.0 / (t * t + 1.0).sqrt();
                let s = t * c;
                // new rows p and q of J' A J (before fixing the 2x2 block)
                for k in 0..n {
                    let akp = a[p * n + k];
                    let akq = a[q * n + k];
                    rowp[k] = c * akp - s * akq;
                    rowq[k] = s * akp + c * akq;
                }
                rowp[p] = app - t * apq;
                rowq[q] = aqq + t * apq;
                rowp[q] = 0.0;
                rowq[p] = 0.0;
                for k in 0..n {
                    a[p * n + k] = rowp[k];
                    a[q * n + k] = rowq[k];
                    a[k * n + p] = rowp[k];
                    a[k * n + q] = rowq[k];
                }
                let (lo, hi) = vt.split_at_mut(q * n);
                let vp = &mut lo[p * n..p * n + n];
                let vq = &mut hi[..n];
                for k in 0..n {
                    let x = vp[k];
                    let y = vq[k];
                    vp[k] = c * x - s * y;
                    vq[k] = s * x + c * y;
                }
            }
        }
    }
    let mut idx: Vec<usize> = (0..n).collect();
    idx.sort_by(|&i, &j| a[j * n + j].partial_cmp(&a[i * n + i]).unwrap_or(std::cmp::Ordering::Equal));
    let vals = Array1::from_iter(idx.iter().map(|&i| a[i * n + i]));
    let mut vecs = Array2::<f64>::zeros((n, n));
    for (col, &i) in idx.iter().enumerate() {
        for k in 0..n {
            vecs[[k, col]] = vt[i * n + k];
        }
    }
    (vals, vecs)
}

fn max_abs(a: &Array2<f64>) -> f64 {
    a.iter().fold(0.0, |m, v| if v.is_nan() { f64::NAN } else { m.max(v.abs()) })
}

/// sample covariance (n-1) of the columns of z about their own mean
fn sample_cov(z: &Array2<f64>) -> Array2<f64> {
    let n = z.nrows() as f64;
    let m = z.mean_axis(Axis(0)).unwrap();
    let zc = z - &m;
    zc.t().dot(&zc) / (n - 1.0)
}

/// orthonormal basis (rows) of the row space of `c` by twice-iterated modified Gram-Schmidt;
/// rows that vanish (relative 1e-10) are dropped
fn row_basis(c: &Array2<f64>) -> Array2<f64> {
    let (k, p) = c.dim();
    let mut q: Vec<Array1<f64>> = vec![];
    for i in 0..k {
        let mut v = c.row(i).to_owned();
        let n0 = v.dot(&v).sqrt();
        if !(n0 > 0.0) || !n0.is_finite() {
            continue;
        }
        v /= n0;
        for _ in 0..2 {
            for b in &q {
                let d = b.dot(&v);
                v.scaled_add(-d, b);
            }
        }
        let n1 = v.dot(&v).sqrt();
        if n1 > 1e-10 {
            v /= n1;
            q.push(v);
        }
    }
    let mut out = Array2::<f64>::zeros((q.len(), p));
    for (i, v) in q.iter().enumerate() {
        out.row_mut(i).assign(v);
    }
    out
}

// ------------------------------------------------------------------------------- generators

fn random_orthogonal(rng: &mut Rng, p: usize) -> Array2<f64> {
    loop {
        let a = gen::normal_matrix(rng, p, p);
        let q = row_basis(&a);
        if q.nrows() == p {
            return q;
        }
    }
}

const KINDS: &[&str] = &[
    "isotropic",
    "geometric",
    "lowrank+noise",
    "anisotropic",
    "integer-dup",
    "uniform-corr",
    "clustered",
];

/// base matrix (no offsets / scaling); returns (x, description)
fn base_matrix(rng: &mut Rng, kind: usize, n: usize, p: usize) -> Array2<f64> {
    match kind {
        0 => gen::normal_matrix(rng, n, p),
        1 => {
            // geometric spectrum s_j = r^j, rotated
            let r = gen::uniform(rng, 0.35, 0.92);
            let q = random_orthogonal(rng, p);
            let mut z = gen::normal_matrix(rng, n, p);
            for j in 0..p {
                let s = r.powi(j as i32);
                z.column_mut(j).mapv_inplace(|v| v * s);
            }
            z.dot(&q)
        }
        2 => {
            let r = rng.gen_range(1..=p.max(2) - 1).min(p);
            let noise = *gen::pick(rng, &[1e-1, 1e-2, 1e-3]);
            let a = gen::normal_matrix(rng, n, r);
            let b = gen::normal_matrix(rng, r, p);
            a.dot(&b) + gen::normal_matrix(rng, n, p) * noise
        }
        3 => {
            // a few dominant directions, the rest flat
            let q = random_orthogonal(rng, p);
            let big = *gen::pick(rng, &[30.0, 300.0, 3000.0]);
            let nb = rng.gen_range(1..=p.min(3));
            let mut z = gen::normal_matrix(rng, n, p);
            for j in 0..nb {
                let s = big / (1.0 + j as f64);
                z.column_mut(j).mapv_inplace(|v| v * s);
            }
            z.dot(&q)
        }
        4 => {
            // small integers with duplicated rows
            let m = rng.gen_range(2..6i32);
            let mut x = Array2::from_shape_fn((n, p), |_| rng.gen_range(-m..=m) as f64);
            let dups = n / 3;
            for _ in 0..dups {
                let a = rng.gen_range(0..n);
                let b = rng.gen_range(0..n);
                let row = x.row(a).to_owned();
                x.row_mut(b).assign(&row);
            }
            x
        }
        6 => {
            // clusters of nearly equal population variances (relative jitter 1e-6 .. 1e-2)
            let q = random_orthogonal(rng, p);
            let jit = *gen::pick(rng, &[1e-6, 1e-4, 1e-2]);
            let nlev = rng.gen_range(1..=3usize);
            let levels = [9.0, 2.0, 0.3];
            let mut z = gen::normal_matrix(rng, n, p);
            for j in 0..p {
                let s: f64 = levels[(j * nlev) / p] * (1.0 + jit * j as f64);
                z.column_mut(j).mapv_inplace(|v| v * s.sqrt());
            }
            z.dot(&q)
        }
        _ => {
            // uniform, mixed through a random (not orthogonal) matrix: correlated columns
            let u = gen::uniform_matrix(rng, n, p, -1.0, 1.0);
            let m = gen::normal_matrix(rng, p, p);
            u.dot(&m)
        }
    }
}

#[derive(Clone, Copy, Debug)]
struct Dress {
    /// column offsets up to 10^off (0 = none)
    off: i32,
    /// column scales 10^U(-cs, cs)
    cs: f64,
    /// global scale 10^gs
    gs: i32,
}

fn dress(rng: &mut Rng, x: &mut Array2<f64>, d: Dress) {
    let p = x.ncols();
    for j in 0..p {
        let sc = if d.cs > 0.0 {
            10f64.powf(gen::uniform(rng, -d.cs, d.cs))
        } else {
            1.0
        } * 10f64.powi(d.gs);
        let off = if d.off > 0 {
            let e = gen::uniform(rng, 0.0, d.off as f64);
            let sgn = if rng.gen_bool(0.5) { 1.0 } else { -1.0 };
            sgn * 10f64.powf(e) * 10f64.powi(d.gs)
        } else {
            0.0
        };
        x.column_mut(j).mapv_inplace(|v| v * sc + off);
    }
}

// ---------------------------------------------------------------------- fitting & checking

#[derive(Clone, Copy, Debug, PartialEq)]
enum Layout {
    C,
    F,
    Strided,
    Reversed,
}
const LAYOUTS: [Layout; 4] = [Layout::C, Layout::F, Layout::Strided, Layout::Reversed];

/// fit on the requested memory layout of the same logical matrix
fn fit_layout(
    x: &Array2<f64>,
    layout: Layout,
    k: usize,
    whiten: bool,
) -> Result<Result<Pca<f64>, String>, String> {
    let (n, p) = x.dim();
    guarded(|| match layout {
        Layout::C => {
            let ds = DatasetBase::from(x.clone());
            Pca::params(k).whiten(whiten).fit(&ds).map_err(|e| e.to_string())
        }
        Layout::F => {
            let mut f = Array2::<f64>::zeros((p, n));
            f.assign(&x.t());
            let f = f.reversed_axes();
            let ds = DatasetBase::from(f);
            Pca::params(k).whiten(whiten).fit(&ds).map_err(|e| e.to_string())
        }
        Layout::Strided => {
            // rows at stride 2, columns at stride 3 of a larger buffer filled with junk
            let mut big = Array2::<f64>::from_elem((2 * n, 3 * p), 7.25e3);
            big.slice_mut(s![..;2, ..;3]).assign(x);
            let view = big.slice(s![..;2, ..;3]);
            let ds = DatasetBase::from(view);
            Pca::params(k).whiten(whiten).fit(&ds).map_err(|e| e.to_string())
        }
        Layout::Reversed => {
            // both axes stored reversed, viewed through negative strides
            let mut rev = Array2::<f64>::zeros((n, p));
            rev.slice_mut(s![..;-1, ..;-1]).assign(x);
            let view = rev.slice(s![..;-1, ..;-1]);
            let ds = DatasetBase::from(view);
            Pca::params(k).whiten(whiten).fit(&ds).map_err(|e| e.to_string())
        }
    })
}

struct FitInfo {
    /// exactly k components on a covariance with condition number < 1e8
    strict: bool,
}

/// Judge one fitted model against the oracle. `x` is the logical training matrix.
fn check_model(
    c: &mut Case,
    x: &Array2<f64>,
    sp: &Spec,
    model: &Pca<f64>,
    k: usize,
    whiten: bool,
    ctxj: &Value,
) -> Result<FitInfo, Vec<Outcome>> {
    match check_model_groups(c, x, sp, model, k, whiten, ctxj) {
        Ok(Ok(fi)) => Ok(fi),
        Ok(Err(v)) => Err(v),
        Err(o) => Err(vec![o]),
    }
}

/// outer Err: a prerequisite (shape, finiteness, mean, ordering) failed; inner Err: the failing groups
#[allow(clippy::too_many_arguments)]
fn check_model_groups(
    c: &mut Case,
    x: &Array2<f64>,
    sp: &Spec,
    model: &Pca<f64>,
    k: usize,
    whiten: bool,
    ctxj: &Value,
) -> Result<Result<FitInfo, Vec<Outcome>>, Outcome> {
    let (n, p) = (sp.n, sp.p);
    let nm1 = (n - 1) as f64;
    let lam1 = sp.lam1;
    let comps = model.components().clone();
    let sigma = model.singular_values().clone();
    let mean = model.mean().clone();
    let ev = guarded(|| model.explained_variance())
        .map_err(|e| violated("C18/explained-variance/panic", json!({"ctx": ctxj, "panic": e})))?;
    let ratio = guarded(|| model.explained_variance_ratio())
        .map_err(|e| violated("C18/ratio/panic", json!({"ctx": ctxj, "panic": e})))?;

    // ---- shapes
    let kk = sigma.len();
    req!(
        comps.ncols() == p && comps.nrows() == kk && ev.len() == kk && ratio.len() == kk && mean.len() == p,
        "C18/shape/inconsistent-accessors",
        {"ctx": ctxj, "components": comps.shape(), "sigma": kk, "ev": ev.len(), "ratio": ratio.len(), "mean": mean.len()}
    );
    req!(kk >= 1 && kk <= k, "C18/shape/component-count-outside-1..k", {"ctx": ctxj, "kept": kk});
    if kk < k {
        // admissible only when every dropped direction is numerically null
        let next = sp.lam[kk];
        req!(
            next <= Tol::NULL * lam1,
            "C18/shape/fewer-components-than-requested",
            {"ctx": ctxj, "kept": kk, "requested": k, "next_eigenvalue_rel": next / lam1}
        );
        c.count("numerically-null-directions-dropped");
    }
    // ---- finiteness
    req!(
        comps.iter().all(|v| v.is_finite()) && sigma.iter().all(|v| v.is_finite()) && mean.iter().all(|v| v.is_finite()),
        "C18/values/non-finite-model",
        {"ctx": ctxj, "sigma": sigma.to_vec()}
    );
    // ---- mean (noise floor: recursive summation bound, S = sum_i |x_ij|)
    for j in 0..p {
        let tol = 64.0 * EPS * sp.abs_sum[j] + f64::MIN_POSITIVE;
        let d = (mean[j] - sp.mean[j]).abs();
        c.resid("mean/(eps*sum|x|)", d / (EPS * sp.abs_sum[j]).max(f64::MIN_POSITIVE));
        req!(d <= tol, "C18/mean/not-the-column-mean", {"ctx": ctxj, "col": j, "got": mean[j], "expected": sp.mean[j], "tol": tol});
    }
    // ---- ordering of singular values
    for i in 0..kk {
        req!(sigma[i] > 0.0, "C18/sigma/not-positive", {"ctx": ctxj, "i": i, "sigma": sigma.to_vec()});
        if i + 1 < kk {
            req!(sigma[i] >= sigma[i + 1], "C18/sigma/not-non-increasing", {"ctx": ctxj, "i": i, "sigma": sigma.to_vec()});
        }
    }
    // variances by the property's definition
    let var_def: Vec<f64> = sigma.iter().map(|s| s * s / nm1).collect();

    // Four groups of statements are judged independently of each other (A accessors, B spectral,
    // C projection maps, D round trip); when several fail, the one reported rotates with the case
    // index so that one run exposes every failing aspect; the others are counted as co-violations.
    // ---- group A: explained_variance() == sigma^2/(n-1)   (noise floor)
    let group_a: V = (|| -> V {
    for i in 0..kk {
        let r = (ev[i] - var_def[i]).abs() / var_def[i].max(f64::MIN_POSITIVE);
        c.resid("explained-variance-vs-sigma2/(n-1) (rel)", r);
        if !(r <= 16.0 * EPS) {
            // discriminate the (k-1) denominator defect from anything else
            let alt = sigma[i] * sigma[i] / (kk as f64 - 1.0);
            let is_k_denominator = (ev[i] == alt) || (ev[i].is_infinite() && kk == 1) || ((ev[i] - alt).abs() <= 16.0 * EPS * alt.abs());
            if is_k_denominator {
                vio!("C18/explained-variance/divided-by-components-minus-1", {"ctx": ctxj, "i": i, "got": format!("{}", ev[i]), "sigma": sigma[i], "expected": var_def[i]});
            }
            vio!("C18/explained-variance/not-sigma2-over-n-1", {"ctx": ctxj, "i": i, "got": format!("{}", ev[i]), "sigma": sigma[i], "expected": var_def[i]});
        }
    }
    // ---- ratios: finite, >= 0, proportional to the explained variances (sigma^2/(n-1))
    {
        let rmax = ratio.iter().cloned().fold(0.0, f64::max);
        let vmax = var_def.iter().cloned().fold(0.0, f64::max);
        for i in 0..kk {
            req!(ratio[i].is_finite() && ratio[i] >= 0.0, "C18/ratio/not-finite-non-negative", {"ctx": ctxj, "i": i, "ratio": ratio.iter().map(|v| format!("{v}")).collect::<Vec<_>>()});
        }
        req!(rmax > 0.0, "C18/ratio/all-zero", {"ctx": ctxj});
        for i in 0..kk {
            for j in (i + 1)..kk {
                let d = (ratio[i] * var_def[j] - ratio[j] * var_def[i]).abs();
                let r = d / (rmax * vmax);
                c.resid("ratio-proportionality (rel)", r);
                req!(r <= 64.0 * EPS, "C18/ratio/not-proportional-to-variances", {"ctx": ctxj, "i": i, "j": j, "ratio": ratio.to_vec(), "variances": var_def});
            }
        }
    }
    Ok(())
    })();
    // ---- group B: de-whitened directions
    let group_b: V = (|| -> V {
    let mut u = comps.clone();
    if whiten {
        for i in 0..kk {
            let sc = sigma[i] / nm1.sqrt();
            u.row_mut(i).mapv_inplace(|v| v * sc);
        }
    }
    // orthonormality (with whitening: orthogonal rows of norm sqrt(n-1)/sigma_i)
    let g = u.dot(&u.t());
    let mut orth = 0.0f64;
    for i in 0..kk {
        for j in 0..kk {
            let t = if i == j { 1.0 } else { 0.0 };
            orth = orth.max((g[[i, j]] - t).abs());
        }
    }
    // the iterative solver (LOBPCG) is only used for p > 500 and 5k <= p once the dense fallback is in
    // place; its spectral accuracy failures are a separate known defect class (see report)
    // the recorded non-convergence of the external LOBPCG has only ever been seen with blocks of 16
    // and more vectors (inner Cholesky / eigen step of the 3k x 3k Gram matrix failing); small blocks
    // (k < 8) are judged like every other fit, so that a defect in how linfa sets the solver up
    // (scaling, centring, seeding) is not filed under that finding
    let iterative = p > 500 && 5 * k <= p && k >= 8;
    req!(
        orth <= Tol::ORTH,
        if iterative && orth <= 1e-4 { ITERATIVE_SIG } else if whiten { "C18/components/whitened-rows-not-orthogonal-with-norm-sqrt(n-1)/sigma" } else { "C18/components/not-orthonormal" },
        {"ctx": ctxj, "max_dev": orth, "tol": Tol::ORTH}
    );
    c.resid(
        &format!("orthonormality{}{}", if whiten { " (whitened, rescaled)" } else { "" }, if iterative { " [iterative]" } else { " [dense]" }),
        orth,
    );
    // ---- spectral statements.
    // The leading kk-dimensional eigenspace is well defined when the eigengap at kk is >= GAP*lambda1
    // (or kk == p). Otherwise the boundary cuts a cluster of (nearly) tied eigenvalues of width W and
    // any mixture inside that cluster is admissible: value checks then allow 2*min(r, W), where r is
    // the measured eigen-residual (a-posteriori bound on Ritz values), eigenvector checks are skipped.
    let gap = if kk < p { sp.lam[kk - 1] - sp.lam[kk] } else { f64::INFINITY };
    let well_defined = gap >= Tol::GAP * lam1;
    let width = if well_defined {
        0.0
    } else {
        let mut top = kk - 1;
        while top > 0 && sp.lam[top - 1] - sp.lam[top] < Tol::GAP * lam1 {
            top -= 1;
        }
        let mut bot = kk;
        while bot + 1 < p && sp.lam[bot] - sp.lam[bot + 1] < Tol::GAP * lam1 {
            bot += 1;
        }
        (sp.lam[top] - sp.lam[bot]) / lam1
    };
    let su = sp.cov.dot(&u.t()); // p x kk
    let mut resid = vec![0.0f64; kk];
    for i in 0..kk {
        let mut r2 = 0.0;
        for j in 0..p {
            let d = su[[j, i]] - var_def[i] * u[[i, j]];
            r2 += d * d;
        }
        resid[i] = r2.sqrt() / lam1;
    }
    let rmax = resid.iter().cloned().fold(0.0, f64::max);
    // Rayleigh consistency of every reported variance with its own component: u_i' S u_i = var_i.
    // The iterative-regime finding is a *non-converged iterate*: orthonormal vectors with their own
    // Ritz values. Anything else in that regime (scale, square root, pairing) keeps its signature.
    let mut rayleigh_dev = 0.0f64;
    for i in 0..kk {
        let q: f64 = (0..p).map(|j| u[[i, j]] * su[[j, i]]).sum();
        rayleigh_dev = rayleigh_dev.max((q - var_def[i]).abs() / lam1);
    }
    let iterative = iterative && rayleigh_dev <= Tol::VAL;
    if p > 500 && 5 * k <= p {
        c.resid("iterative regime: rayleigh inconsistency /lambda1", rayleigh_dev);
    }
    // value tolerance = VAL
    //   + conditioning of the input: forming x - mean rounds each entry by eps*|x|, which moves S by about
    //     eps * max|x| * sqrt(lambda_1) (noise floor, matters for large offsets over a small spread)
    //   + tie class: 2 min(r, W)
    //   + well-defined boundary and r <= VEC: second-order bound r^2/gap for Ritz values of a subspace
    //     with residual r
    let noise = 16.0 * EPS * sp.xmax / lam1.sqrt();
    let second_order = if well_defined && gap.is_finite() && rmax <= Tol::VEC { 2.0 * rmax * rmax * lam1 / gap } else { 0.0 };
    let val_tol = Tol::VAL + noise + 2.0 * rmax.min(width) + second_order;
    if !well_defined {
        c.count("tie-class:eigengap-below-1e-3");
    }
    // eigenvalue match: unconditional
    for i in 0..kk {
        let dl = (var_def[i] - sp.lam[i]).abs() / lam1;
        req!(
            dl <= val_tol,
            if iterative { ITERATIVE_SIG } else { "C18/variance/not-the-ith-largest-eigenvalue" },
            {"ctx": ctxj, "i": i, "sigma2_over_n1": var_def[i], "lambda_i": sp.lam[i], "lambda": sp.lam.to_vec(), "rel": dl, "tol": val_tol}
        );
        if well_defined {
            c.resid(&format!("variance-vs-eigenvalue (|var_i - lambda_i|/lambda1 - noise floor){}", if iterative { " [iterative]" } else { " [dense]" }), (dl - noise).max(0.0));
        } else {
            c.resid("tie class: variance-vs-eigenvalue /tol", dl / val_tol);
        }
    }
    // Known defect class (see report): the dense symmetric eigensolver of linfa-linalg (eigh) returns
    // exact eigenvalues but finishes each 2x2 deflation block with a plane rotation that can be
    // arbitrarily wrong (cancellation): eigenvectors come out rotated — up to swapped — inside the
    // plane of two eigen-directions. Discriminating predicates: eigenvalues exact (just checked),
    // components orthonormal (checked above), and in the true eigenbasis every component has weight
    // (amplitude x eigenvalue distance > 1e-10 lambda_1) in at most two groups of numerically equal eigenvalues: its own and ONE
    // partner. Then — and only then — a failure of an eigenvector-dependent check below is reported
    // under the plane-rotation signature.
    let mut group = vec![0usize; p];
    for j in 1..p {
        group[j] = if sp.lam[j - 1] - sp.lam[j] <= 1e-11 * lam1 { group[j - 1] } else { group[j - 1] + 1 };
    }
    let ngroups = group[p - 1] + 1;
    let mut glam = vec![0.0f64; ngroups];
    for j in (0..p).rev() {
        glam[group[j]] = sp.lam[j];
    }
    let overlap = u.dot(&sp.vecs); // kk x p, coordinates in the true eigenbasis
    // exchange[a][b]: weight that the retained components of group a carry in group b
    let mut exchange = vec![vec![0.0f64; ngroups]; ngroups];
    let mut confined = true;
    let mut affected = 0usize;
    for i in 0..kk {
        let mut energy = vec![0.0f64; ngroups];
        for j in 0..p {
            energy[group[j]] += overlap[[i, j]] * overlap[[i, j]];
        }
        // a foreign group counts when its first-order effect on a covariance, amplitude x eigenvalue
        // distance, reaches a twentieth of the value tolerance (relative to lambda_1); rounding-level
        // mixing between very close eigenvalues (eps*lambda_1/gap, inherent to any solver) does not
        let foreign = (0..ngroups)
            .filter(|g| *g != group[i] && energy[*g].sqrt() * (glam[*g] - sp.lam[i]).abs() / lam1 > 1e-10)
            .count();
        if foreign > 1 {
            confined = false;
        }
        affected += foreign;
        for g in 0..ngroups {
            exchange[group[i]][g] += energy[g];
        }
    }
    // a plane rotation is symmetric: what group a loses to b, b loses to a (testable when both groups
    // are retained completely); a shift or a one-sided replacement is not
    let fully_retained = |g: usize| (0..p).filter(|j| group[*j] == g).all(|j| j < kk);
    for a in 0..ngroups {
        for b in (a + 1)..ngroups {
            if fully_retained(a) && fully_retained(b) && (exchange[a][b] - exchange[b][a]).abs() > 1e-9 {
                confined = false;
            }
        }
    }
    // the solver finishes each deflation block independently: at most two planes (four components)
    let confined = confined && affected >= 1 && affected <= 4;
    // residual buckets for the evidence: healthy dense fits, dense fits that carry a (small) plane
    // rotation but pass, fits of the iterative solver
    let bucket: &str = if p > 500 && 5 * k <= p {
        " [iterative]"
    } else if affected == 0 {
        " [dense, no plane rotation]"
    } else {
        " [dense, passing with a plane rotation]"
    };
    let sig = |specific: &'static str| -> &'static str {
        if confined {
            PLANE_ROTATION_SIG
        } else if iterative {
            ITERATIVE_SIG
        } else {
            specific
        }
    };
    if well_defined {
        for i in 0..kk {
            req!(
                resid[i] <= Tol::VEC,
                sig("C18/components/not-an-eigenvector-of-the-covariance"),
                {"ctx": ctxj, "i": i, "residual_rel": resid[i], "gap_rel": gap / lam1, "lambda_rel": sp.lam.mapv(|l| l / lam1).to_vec()}
            );
            c.resid(&format!("eigen-equation |S u - var u|/lambda1{bucket}"), resid[i]);
        }
        if kk < p {
            let vk = sp.vecs.slice(s![.., ..kk]);
            let coef = u.dot(&vk); // kk x kk
            let proj = coef.dot(&vk.t());
            let out = &u - &proj;
            let sin = out
                .rows()
                .into_iter()
                .map(|r| r.dot(&r).sqrt())
                .fold(0.0, f64::max);
            // Davis-Kahan: sin(theta) <= residual / gap
            let tol = 4.0 * (kk as f64).sqrt() * Tol::VEC * lam1 / gap + Tol::ORTH;
            req!(sin <= tol, sig("C18/subspace/not-the-leading-eigenspace"), {"ctx": ctxj, "sin_theta": sin, "tol": tol, "gap_rel": gap / lam1});
            c.resid(&format!("subspace sin(theta)*gap/lambda1{bucket}"), sin * gap / lam1);
            c.count("subspace-angle-checked");
        }
    } else {
        c.resid("eigen-equation in tie class (not judged)", rmax);
    }
    // ---- covariance of the projected (centred) training data; the projection is formed here from
    //      the components, independently of predict/transform (those are group C)
    let z = (x - &mean).dot(&comps.t());
    let cz = sample_cov(&z);
    let lam_rel = || sp.lam.mapv(|l| l / lam1).to_vec();
    if !whiten {
        let mut captured = 0.0;
        for i in 0..kk {
            captured += cz[[i, i]];
            for j in 0..kk {
                if i == j {
                    let d = (cz[[i, i]] - var_def[i]).abs() / lam1;
                    req!(d <= val_tol, sig("C18/projection/variance-differs-from-explained-variance"),
                        {"ctx": ctxj, "i": i, "sample_var": cz[[i, i]], "sigma2_over_n1": var_def[i], "lambda1": lam1, "rel": d, "tol": val_tol, "lambda_rel": lam_rel()});
                    if well_defined {
                        c.resid(&format!("projected-variance-vs-reported /lambda1, above the noise floor{bucket}"), (d - noise).max(0.0));
                    } else {
                        c.resid("tie class: projected-variance-vs-reported /tol", d / val_tol);
                    }
                } else {
                    let d = cz[[i, j]].abs() / lam1;
                    req!(d <= val_tol, sig("C18/projection/coordinates-correlated"),
                        {"ctx": ctxj, "i": i, "j": j, "cov": cz[[i, j]], "lambda1": lam1, "rel": d, "tol": val_tol, "lambda_rel": lam_rel()});
                    if well_defined {
                        c.resid(&format!("projected-covariance-offdiag /lambda1, above the noise floor{bucket}"), (d - noise).max(0.0));
                    } else {
                        c.resid("tie class: projected-covariance-offdiag /tol", d / val_tol);
                    }
                }
            }
        }
        // Ky Fan: no k-dimensional orthogonal projection retains more than the k largest eigenvalues
        let best: f64 = sp.lam.iter().take(kk).sum();
        let deficit = (best - captured) / lam1;
        req!(
            deficit <= kk as f64 * val_tol,
            sig("C18/optimality/another-projection-retains-more-variance"),
            {"ctx": ctxj, "captured": captured, "best_possible": best, "lambda": sp.lam.to_vec()}
        );
        req!(
            deficit >= -(kk as f64) * val_tol,
            "C18/optimality/captured-more-than-possible",
            {"ctx": ctxj, "captured": captured, "best_possible": best}
        );
        if well_defined {
            c.resid(&format!("captured-variance deficit /(k*lambda1){bucket}"), deficit.abs() / kk as f64);
        } else {
            c.resid("tie class: captured-variance deficit /tol", deficit.abs() / (kk as f64 * val_tol));
        }
        // and, literally, against competing orthogonal projections of the same rank: the Jacobi
        // leading subspace and random subspaces (their retained variance is trace(Q S Q'))
        for t in 0..3 {
            let q = if t == 0 {
                sp.vecs.slice(s![.., ..kk]).t().to_owned()
            } else {
                row_basis(&gen::normal_matrix(&mut c.rng, kk, p))
            };
            if q.nrows() != kk {
                continue;
            }
            let retained: f64 = q.dot(&sp.cov).dot(&q.t()).diag().sum();
            req!(
                retained <= captured + kk as f64 * val_tol * lam1,
                sig("C18/optimality/another-projection-retains-more-variance"),
                {"ctx": ctxj, "captured": captured, "competitor": if t == 0 { "leading eigenvectors" } else { "random subspace" }, "retained_by_competitor": retained}
            );
        }
    } else {
        for i in 0..kk {
            for j in 0..kk {
                let t = if i == j { 1.0 } else { 0.0 };
                // an absolute error delta*lambda1 in S becomes delta*lambda1/sqrt(var_i var_j)
                let amp = lam1 / (var_def[i] * var_def[j]).sqrt();
                let d = (cz[[i, j]] - t).abs();
                req!(d <= val_tol * amp + 64.0 * EPS, sig("C18/whitening/covariance-not-identity"),
                    {"ctx": ctxj, "i": i, "j": j, "cov": cz[[i, j]], "tol": val_tol * amp, "lambda_rel": lam_rel()});
                if well_defined {
                    c.resid(&format!("whitened-covariance-vs-identity, (|dev|-64eps)*sqrt(var_i var_j)/lambda1, above the noise floor{bucket}"), ((d - 64.0 * EPS).max(0.0) / amp - noise).max(0.0));
                } else {
                    c.resid("tie class: whitened-covariance-vs-identity /tol", d / (val_tol * amp + 64.0 * EPS));
                }
            }
        }
    }
    Ok(())
    })();
    // fresh rows (affine combinations of training rows)
    let m = 4.min(n);
    let mut xn = Array2::<f64>::zeros((m, p));
    for i in 0..m {
        let a = c.rng.gen_range(0..n);
        let b = c.rng.gen_range(0..n);
        let d = c.rng.gen_range(0..n);
        let t = gen::uniform(&mut c.rng, -1.5, 1.5);
        for j in 0..p {
            xn[[i, j]] = x[[a, j]] + t * (x[[b, j]] - x[[d, j]]);
        }
    }
    // ---- group C: predict (two layouts) / transform are (x - mean) . components^T, on the training
    //      data and on fresh rows
    let group_c: V = (|| -> V {
        check_projection(c, model, x, &comps, &mean, ctxj, "training")?;
        check_projection(c, model, &xn, &comps, &mean, ctxj, "fresh")?;
        Ok(())
    })();
    // ---- group D: transform followed by inverse transform
    let group_d: V = (|| -> V {
        for (which, data) in [("training", x), ("fresh", &xn)] {
            let z: Array2<f64> = guarded(|| model.predict(data))
                .map_err(|e| violated("C18/predict/panic", json!({"ctx": ctxj, "data": which, "panic": e})))?;
            req!(z.dim() == (data.nrows(), kk), "C18/predict/shape", {"ctx": ctxj, "data": which, "got": z.shape(), "expected": [data.nrows(), kk]});
            check_roundtrip(c, model, data, &z, sp, &comps, &mean, &sigma, whiten, ctxj, which)?;
        }
        Ok(())
    })();
    let fails: Vec<Outcome> = [group_a, group_b, group_c, group_d].into_iter().filter_map(|g| g.err()).collect();
    if !fails.is_empty() {
        return Ok(Err(fails));
    }
    let cond_ok = sp.lam[p - 1] > 1e-8 * lam1;
    Ok(Ok(FitInfo {
        strict: cond_ok && kk == k,
    }))
}

/// predict (two layouts) and transform against the independent product (x - mean) . C^T
fn check_projection(
    c: &mut Case,
    model: &Pca<f64>,
    x: &Array2<f64>,
    comps: &Array2<f64>,
    mean: &Array1<f64>,
    ctxj: &Value,
    which: &str,
) -> Result<Array2<f64>, Outcome> {
    let (n, p) = x.dim();
    let kk = comps.nrows();
    let z: Array2<f64> = guarded(|| model.predict(x))
        .map_err(|e| violated("C18/predict/panic", json!({"ctx": ctxj, "data": which, "panic": e})))?;
    // F-ordered, strided input
    let mut big = Array2::<f64>::from_elem((2 * p, n), -3.5e2);
    big.slice_mut(s![..;2, ..]).assign(&x.t());
    let zf: Array2<f64> = guarded(|| model.predict(&big.slice(s![..;2, ..]).reversed_axes()))
        .map_err(|e| violated("C18/predict/panic", json!({"ctx": ctxj, "data": which, "layout": "F-strided", "panic": e})))?;
    // contiguous but not in standard order: column-major owned records, rows walked backwards
    let mut fo = Array2::<f64>::zeros((p, n));
    fo.assign(&x.t());
    let fo = fo.reversed_axes();
    let mut rev = x.slice(s![..;-1, ..]).to_owned(); // rows reversed ...
    rev.invert_axis(ndarray::Axis(0)); // ... and viewed backwards again: logical x, negative stride
    for (lname, arr) in [("F-contiguous", &fo), ("negative-row-stride", &rev)] {
        let zl: Array2<f64> = guarded(|| model.predict(arr))
            .map_err(|e| violated("C18/predict/panic", json!({"ctx": ctxj, "data": which, "layout": lname, "panic": e})))?;
        req!(zl.dim() == z.dim(), "C18/predict/shape", {"ctx": ctxj, "data": which, "layout": lname, "got": zl.shape()});
        let scale = x.mapv(f64::abs).dot(&comps.mapv(f64::abs).t()) + mean.mapv(f64::abs).dot(&comps.mapv(f64::abs).t());
        for i in 0..n {
            for j in 0..kk {
                let tol = 64.0 * EPS * scale[[i, j]] + f64::MIN_POSITIVE;
                req!((zl[[i, j]] - z[[i, j]]).abs() <= 2.0 * tol, "C18/predict/depends-on-memory-layout",
                    {"ctx": ctxj, "data": which, "layout": lname, "row": i, "col": j, "got": zl[[i, j]], "standard_layout": z[[i, j]], "tol": 2.0 * tol});
            }
        }
    }
    // the target buffer of predict_inplace is an output: what it held before must not matter
    {
        use linfa::traits::PredictInplace;
        let mut buf = Array2::<f64>::from_elem(z.dim(), 12.5);
        guarded(|| model.predict_inplace(x, &mut buf))
            .map_err(|e| violated("C18/predict/panic", json!({"ctx": ctxj, "data": which, "call": "predict_inplace into a used buffer", "panic": e})))?;
        req!(buf == z, "C18/predict/inplace-depends-on-the-buffer-content", {"ctx": ctxj, "data": which,
            "largest_difference": buf.iter().zip(z.iter()).map(|(a, b)| (a - b).abs()).fold(0.0f64, f64::max)});
    }
    let zt = guarded(|| model.transform(DatasetBase::from(x.clone())))
        .map_err(|e| violated("C18/transform/panic", json!({"ctx": ctxj, "data": which, "panic": e})))?;
    req!(z.dim() == (n, kk), "C18/predict/shape", {"ctx": ctxj, "data": which, "got": z.shape(), "expected": [n, kk]});
    req!(zf.dim() == (n, kk), "C18/predict/shape", {"ctx": ctxj, "data": which, "layout": "F-strided", "got": zf.shape(), "expected": [n, kk]});
    req!(zt.records().dim() == (n, kk), "C18/transform/shape", {"ctx": ctxj, "data": which, "got": zt.records().shape()});
    let ac = comps.mapv(f64::abs);
    let ax = x.mapv(f64::abs);
    let am = mean.mapv(f64::abs);
    let scale = ax.dot(&ac.t()) + am.dot(&ac.t()); // n x kk
    let zo = (x - mean).dot(&comps.t());
    for i in 0..n {
        for j in 0..kk {
            let tol = 64.0 * EPS * scale[[i, j]] + f64::MIN_POSITIVE;
            let d = (z[[i, j]] - zo[[i, j]]).abs();
            let df = (zf[[i, j]] - zo[[i, j]]).abs();
            let dt = (zt.records()[[i, j]] - zo[[i, j]]).abs();
            c.resid("projection/(eps*scale)", d.max(dt).max(df) / (EPS * scale[[i, j]]).max(f64::MIN_POSITIVE));
            req!(d <= tol, "C18/predict/not-(x-mean).components^T", {"ctx": ctxj, "data": which, "row": i, "col": j, "got": z[[i, j]], "expected": zo[[i, j]], "tol": tol});
            req!(df <= tol, "C18/predict/not-(x-mean).components^T", {"ctx": ctxj, "data": which, "layout": "F-strided", "row": i, "col": j, "got": zf[[i, j]], "expected": zo[[i, j]], "tol": tol});
            req!(dt <= tol, "C18/transform/not-(x-mean).components^T", {"ctx": ctxj, "data": which, "row": i, "col": j, "got": zt.records()[[i, j]], "expected": zo[[i, j]], "tol": tol});
        }
    }
    Ok(z)
}

/// inverse_transform(transform(x)) == mean + (x - mean) Q'Q with Q an orthonormal basis of the
/// component subspace computed here (identity when all p components are kept)
#[allow(clippy::too_many_arguments)]
fn check_roundtrip(
    c: &mut Case,
    model: &Pca<f64>,
    x: &Array2<f64>,
    z: &Array2<f64>,
    sp: &Spec,
    comps: &Array2<f64>,
    mean: &Array1<f64>,
    sigma: &Array1<f64>,
    whiten: bool,
    ctxj: &Value,
    which: &str,
) -> V {
    let (n, p) = x.dim();
    let kk = comps.nrows();
    let nm1 = (sp.n - 1) as f64;
    let back = guarded(|| model.inverse_transform(z.clone()))
        .map_err(|e| violated("C18/inverse/panic", json!({"ctx": ctxj, "data": which, "panic": e})))?;
    req!(back.dim() == (n, p), "C18/inverse/shape", {"ctx": ctxj, "data": which, "got": back.shape()});
    let q = row_basis(comps);
    let xm = x - &sp.mean;
    let expect = xm.dot(&q.t()).dot(&q) + &sp.mean;
    // scale: largest centred row norm of the rows at hand
    let scale = xm
        .rows()
        .into_iter()
        .map(|r| r.dot(&r).sqrt())
        .fold(sp.rmax * 1e-3, f64::max);
    let mut worst = 0.0f64;
    let mut at = (0, 0);
    for i in 0..n {
        for j in 0..p {
            let d = (back[[i, j]] - expect[[i, j]]).abs();
            if !(d <= worst) {
                worst = d;
                at = (i, j);
            }
        }
    }
    // noise floor of adding the mean back / subtracting it
    let floor = 64.0 * EPS * (sp.mean.iter().fold(0.0f64, |m, v| m.max(v.abs())) + scale);
    // amplification of rounding through the whitening scales
    let amp = if whiten {
        let smax = sigma.iter().cloned().fold(0.0, f64::max);
        let smin = sigma.iter().cloned().fold(f64::INFINITY, f64::min);
        smax / smin
    } else {
        1.0
    };
    // components are orthonormal to ORTH (enforced above); 10x that for the composed maps
    let tol = 10.0 * Tol::ORTH * scale + floor * amp;
    c.resid(
        if whiten { "inverse-roundtrip(whitened) /scale" } else { "inverse-roundtrip /scale" },
        (worst - floor * amp).max(0.0) / scale,
    );
    if !(worst <= tol) {
        if whiten {
            // discriminating predicate: the result equals (x-mean) E'E + mean with the *whitened*
            // embedding E, i.e. the whitening scale was applied a second time instead of undone
            let twice = (x - mean).dot(&comps.t()).dot(comps) + mean;
            let dd = max_abs(&(&back - &twice));
            let a2 = sigma.iter().map(|s| nm1 / (s * s)).fold(0.0, f64::max);
            if dd <= 1e-9 * scale * a2.max(1.0) + floor {
                vio!("C18/inverse/whitening-scale-not-undone", {"ctx": ctxj, "data": which, "row": at.0, "col": at.1, "got": back[[at.0, at.1]], "expected": expect[[at.0, at.1]], "x": x[[at.0, at.1]]});
            }
        }
        vio!(
            if kk == p { "C18/inverse/not-identity-with-all-components" } else { "C18/inverse/not-the-orthogonal-projection" },
            {"ctx": ctxj, "data": which, "row": at.0, "col": at.1, "got": back[[at.0, at.1]], "expected": expect[[at.0, at.1]], "x": x[[at.0, at.1]], "max_dev": worst, "tol": tol}
        );
    }
    if kk == p {
        // identity, stated directly
        let d = max_abs(&(&back - x));
        req!(d <= tol, "C18/inverse/not-identity-with-all-components", {"ctx": ctxj, "data": which, "max_dev": d, "tol": tol});
    }
    Ok(())
}

/// fit + judge; Ok(None) = fit returned Err on an input where that is tolerated
fn fit_and_check(
    c: &mut Case,
    x: &Array2<f64>,
    sp: &Spec,
    k: usize,
    whiten: bool,
    layout: Layout,
    desc: &str,
) -> Result<Option<FitInfo>, Vec<Outcome>> {
    let ctxj = json!({"data": desc, "n": sp.n, "p": sp.p, "k": k, "whiten": whiten, "layout": format!("{layout:?}")});
    let model = match fit_layout(x, layout, k, whiten) {
        Err(p) => return Err(vec![violated("C18/fit/panic", json!({"ctx": ctxj, "panic": p}))]),
        Ok(Err(e)) => {
            // the property names the error cases exhaustively; any other Err on a
            // well-conditioned matrix contradicts "returns the leading axes"
            if sp.lam[sp.p - 1] > 1e-8 * sp.lam1 {
                return Err(vec![violated("C18/fit/error-on-regular-input", json!({"ctx": ctxj, "error": e}))]);
            }
            c.count("fit-error-on-ill-conditioned-input");
            return Ok(None);
        }
        Ok(Ok(m)) => m,
    };
    check_model(c, x, sp, &model, k, whiten, &ctxj).map(Some)
}

/// the embedding sizes to try for a p-column matrix: all of 1..=p up to `all_upto`, otherwise
/// the small ones, the neighbourhood of p/5 and p/3 (where the solver changes regime), p/2,
/// p-1, p and two random ones
fn embedding_sizes(rng: &mut Rng, p: usize, all_upto: usize) -> Vec<usize> {
    if p <= all_upto {
        return (1..=p).collect();
    }
    let mut ks = vec![1, 2, 3, p / 5 - 1, p / 5, p / 5 + 1, p / 3, p / 3 + 1, p / 2, p - 1, p];
    ks.push(rng.gen_range(1..=p));
    ks.push(rng.gen_range(1..=p / 4));
    ks.retain(|k| *k >= 1 && *k <= p);
    ks.sort_unstable();
    ks.dedup();
    ks
}

/// every requested k, whitening on/off, on one dataset
fn sweep(
    c: &mut Case,
    x: &Array2<f64>,
    desc: &str,
    ks: &[usize],
    layout_of: impl Fn(usize, bool) -> Layout,
) -> Outcome {
    let (n, p) = x.dim();
    if !(n > p && p >= 1) {
        return inconclusive("outside n > p >= 1");
    }
    let sp = spectrum(x);
    if !(sp.lam1 > 0.0) || !sp.lam1.is_finite() {
        return inconclusive("zero total variance");
    }
    if p <= 32 {
        c.note("lambda_rel", json!(sp.lam.iter().map(|l| l / sp.lam1).collect::<Vec<_>>()));
    }
    let mut evals = 0;
    let mut strict = 0;
    let mut errs = 0;
    // every fit is judged even after a failure: first witness per signature, in (k, whitening) order
    let mut fails: Vec<(String, Value)> = vec![];
    for &k in ks {
        for whiten in [false, true] {
            let layout = layout_of(k, whiten);
            match fit_and_check(c, x, &sp, k, whiten, layout, desc) {
                Err(os) => {
                    for o in os {
                        match o {
                            Outcome::Violated { sig, detail } => {
                                if !fails.iter().any(|(s, _)| *s == sig) {
                                    fails.push((sig, detail));
                                }
                            }
                            other => return other,
                        }
                    }
                }
                Ok(None) => errs += 1,
                Ok(Some(fi)) => {
                    evals += 1;
                    if fi.strict {
                        strict += 1;
                    }
                }
            }
        }
    }
    c.evals = evals.max(1);
    if !fails.is_empty() {
        // several aspects may fail on one dataset; which one this case reports rotates with the case
        // index so that a single run exposes all of them, the rest is counted
        fails.sort_by(|a, b| a.0.cmp(&b.0));
        let pick = (c.idx as usize) % fails.len();
        for (i, (sig, _)) in fails.iter().enumerate() {
            if i != pick {
                c.count(&format!("co-violation:{sig}"));
            }
        }
        let (sig, detail) = fails.swap_remove(pick);
        return violated(sig, detail);
    }
    if evals == 0 {
        return inconclusive(format!("every fit returned Err ({errs})"));
    }
    held(p >= 2 && strict > 0, format!("{desc} n={n} p={p}"))
}

fn random_dress(rng: &mut Rng) -> Dress {
    match rng.gen_range(0..6) {
        0 => Dress { off: 0, cs: 0.0, gs: 0 },
        1 => Dress { off: rng.gen_range(1..=6), cs: 0.0, gs: 0 },
        2 => Dress { off: 0, cs: gen::uniform(rng, 0.5, 2.0), gs: 0 },
        3 => Dress { off: rng.gen_range(1..=4), cs: gen::uniform(rng, 0.5, 2.0), gs: 0 },
        4 => Dress { off: 0, cs: 0.0, gs: rng.gen_range(-3..=6) },
        _ => Dress { off: rng.gen_range(0..=3), cs: gen::uniform(rng, 0.0, 1.0), gs: rng.gen_range(-2..=3) },
    }
}

// ------------------------------------------------------------------------ degenerate inputs

const DEGENERATE: &[&str] = &[
    "constant-column",
    "duplicated-column",
    "exact-rank-r",
    "tied-spectrum",
    "two-level-ties",
    "single-outlier",
    "all-rows-equal",
    "two-distinct-rows",
];

fn degenerate_matrix(rng: &mut Rng, kind: usize, n: usize, p: usize) -> Array2<f64> {
    match kind {
        0 => {
            let mut x = gen::normal_matrix(rng, n, p);
            let j = rng.gen_range(0..p);
            let v = *gen::pick(rng, &[0.0, 1.0, -7.5, 1e6]);
            x.column_mut(j).fill(v);
            x
        }
        1 => {
            let mut x = gen::normal_matrix(rng, n, p);
            if p >= 2 {
                let a = rng.gen_range(0..p);
                let b = (a + 1 + rng.gen_range(0..p - 1)) % p;
                let col = x.column(a).to_owned();
                let f = *gen::pick(rng, &[1.0, -1.0, 2.0]);
                x.column_mut(b).assign(&(col * f));
            }
            x
        }
        2 => {
            // integer factors: the product is exact, the rank is exactly r (or less)
            let r = rng.gen_range(1..=p);
            let a = Array2::from_shape_fn((n, r), |_| rng.gen_range(-4..=4) as f64);
            let b = Array2::from_shape_fn((r, p), |_| rng.gen_range(-3..=3) as f64);
            a.dot(&b)
        }
        3 => {
            // rows +-a e_j, each axis equally often: covariance is a multiple of the identity
            let reps = (n / (2 * p)).max(1);
            let a = *gen::pick(rng, &[1.0, 3.0, 0.5]);
            let mut x = Array2::<f64>::zeros((2 * p * reps, p));
            for r in 0..reps {
                for j in 0..p {
                    x[[(2 * j) + 2 * p * r, j]] = a;
                    x[[(2 * j + 1) + 2 * p * r, j]] = -a;
                }
            }
            x
        }
        4 => {
            // as above with two amplitudes: two exactly tied groups of eigenvalues
            let reps = (n / (2 * p)).max(1);
            let h = rng.gen_range(0..=p);
            let mut x = Array2::<f64>::zeros((2 * p * reps, p));
            for r in 0..reps {
                for j in 0..p {
                    let a = if j < h { 4.0 } else { 1.0 };
                    x[[(2 * j) + 2 * p * r, j]] = a;
                    x[[(2 * j + 1) + 2 * p * r, j]] = -a;
                }
            }
            x
        }
        5 => {
            let base = gen::normal_vec(rng, p);
            let mut x = Array2::<f64>::zeros((n, p));
            for i in 0..n {
                x.row_mut(i).assign(&base);
            }
            let out = gen::normal_vec(rng, p) * 10.0;
            let i = rng.gen_range(0..n);
            x.row_mut(i).assign(&out);
            x
        }
        6 => {
            let base = gen::normal_vec(rng, p) * *gen::pick(rng, &[0.0, 1.0, 1e3]);
            let mut x = Array2::<f64>::zeros((n, p));
            for i in 0..n {
                x.row_mut(i).assign(&base);
            }
            x
        }
        _ => {
            let a = gen::normal_vec(rng, p);
            let b = gen::normal_vec(rng, p);
            let mut x = Array2::<f64>::zeros((n, p));
            for i in 0..n {
                x.row_mut(i).assign(if i % 3 == 0 { &a } else { &b });
            }
            x
        }
    }
}

// ------------------------------------------------------------------------------ error cases

fn fit_raw(n: usize, p: usize, k: usize, whiten: bool, view: bool) -> Result<Result<Pca<f64>, String>, String> {
    let x = Array2::from_shape_fn((n, p), |(i, j)| ((i * 7 + j * 3) % 11) as f64 - 0.25 * (i as f64));
    guarded(|| {
        if view {
            let ds = DatasetBase::from(x.view());
            Pca::params(k).whiten(whiten).fit(&ds).map_err(|e| e.to_string())
        } else {
            let ds = DatasetBase::from(x.clone());
            Pca::params(k).whiten(whiten).fit(&ds).map_err(|e| e.to_string())
        }
    })
}

pub fn run(ctx: &Ctx) {
    ctx.set_rule(
        "random record matrices with n > p >= 1 (isotropic, geometric spectrum, low rank + noise, dominant \
         directions, duplicated integer rows, correlated uniform, clustered spectrum) dressed with column \
         offsets (up to 1e6), column scales (1e-2..1e2) and a global scale (1e-3..1e6); for every matrix with \
         p <= 24 ALL embedding sizes k = 1..p x whitening on/off are fitted and judged (25 <= p <= 80: a fixed \
         selection of k around p/5, p/3, p/2, p-1, p; p/k in 5..9 on the hardest spectra; p > 500: k <= p/8); \
         four memory layouts for fit, two for predict; degenerate inputs (exact rank deficiency, exact ties, \
         single outlier). Small scopes (p <= 6/9) are a complete grid over (p, n-class, kind, dressing). A case \
         is non-trivial when p >= 2 and at least one fit returned exactly k components on a covariance with \
         condition number < 1e8 (degenerate family: p >= 2); distinct = (kind, dressing, n, p). Error cases: \
         complete grid over (n, p, k, whitening, owned/view).",
    );
    ctx.assume("oracle: two-pass means, X'X/(n-1), cyclic Jacobi in f64 (harness code); tolerances relative to the largest covariance eigenvalue lambda_1");
    ctx.assume("Pca::fit is only implemented for f64 records; f32 is reachable only for predict through a deserialised Pca<f32>");
    ctx.assume("directions whose eigenvalue is <= 1e-9 lambda_1 may be dropped (null-space cut-off of the truncated SVD, pinned by test_explained_variance_cutoff); eigenvector statements are judged where the eigengap at k is >= 1e-3 lambda_1, value statements inside a tied cluster of width W allow 2 min(r, W)");
    ctx.assume("global scales below 1e-3 are not generated: there the documented absolute floor of 1e-8 on the singular values dominates");

    let pmax: usize = 24;
    let nspec = ctx.tier.pick(400, 10000);
    ctx.family("spectral", nspec, |c| {
        let kind = (c.idx % KINDS.len() as u64) as usize;
        let p = match c.rng.gen_range(0..10) {
            0 => 1,
            1 => 2,
            2 => 3,
            _ => c.rng.gen_range(1..=pmax),
        };
        let n = match c.rng.gen_range(0..4) {
            0 => p + 1,
            1 => p + 1 + c.rng.gen_range(0..p + 2),
            2 => 2 * p + c.rng.gen_range(1..40),
            _ => c.rng.gen_range(p + 1..p + 300),
        };
        let d = random_dress(&mut c.rng);
        let mut x = base_matrix(&mut c.rng, kind, n, p);
        dress(&mut c.rng, &mut x, d);
        let desc = format!("{} off={} cs={:.1} gs={}", KINDS[kind], d.off, d.cs, d.gs);
        c.note("data", json!(desc));
        c.note("n", json!(n));
        c.note("p", json!(p));
        let l0 = c.rng.gen_range(0..4usize);
        let ks: Vec<usize> = (1..=p).collect();
        sweep(c, &x, &desc, &ks, |k, w| LAYOUTS[(l0 + k + w as usize) % 4])
    });

    // ---- complete grid over small scopes
    let small_p: usize = ctx.tier.pick(6, 9);
    let dresses = [
        Dress { off: 0, cs: 0.0, gs: 0 },
        Dress { off: 5, cs: 0.0, gs: 0 },
        Dress { off: 0, cs: 2.0, gs: 0 },
        Dress { off: 3, cs: 1.0, gs: -3 },
        Dress { off: 2, cs: 0.5, gs: 4 },
    ];
    let mut grid = vec![];
    for p in 1..=small_p {
        for nclass in 0..4usize {
            for kind in 0..KINDS.len() {
                for (di, _) in dresses.iter().enumerate() {
                    grid.push((p, nclass, kind, di));
                }
            }
        }
    }
    ctx.set_exhaustive(
        &format!("(p<={small_p}, n in {{p+1,p+2,2p+1,5p+20}}, kind, dressing) x all k x whitening"),
        true,
    );
    let grid = &grid;
    ctx.family("small-scopes", grid.len() as u64, |c| {
        let (p, nclass, kind, di) = grid[c.idx as usize];
        let n = [p + 1, p + 2, 2 * p + 1, 5 * p + 20][nclass];
        let d = dresses[di];
        let mut x = base_matrix(&mut c.rng, kind, n, p);
        dress(&mut c.rng, &mut x, d);
        let desc = format!("{} off={} cs={:.1} gs={}", KINDS[kind], d.off, d.cs, d.gs);
        c.note("data", json!(desc));
        c.note("n", json!(n));
        c.note("p", json!(p));
        let ks: Vec<usize> = (1..=p).collect();
        sweep(c, &x, &desc, &ks, |k, w| LAYOUTS[(k + 2 * w as usize + nclass) % 4])
    });

    // ---- larger feature counts: the iterative solver's own regime (k << p) and its borders
    let nbig = ctx.tier.pick(40, 700);
    let pbig: usize = ctx.tier.pick(48, 80);
    ctx.family("wide", nbig, |c| {
        let kind = (c.idx % KINDS.len() as u64) as usize;
        let p = c.rng.gen_range(25..=pbig);
        let n = match c.rng.gen_range(0..3) {
            0 => p + 1 + c.rng.gen_range(0..5),
            1 => 2 * p + c.rng.gen_range(0..50),
            _ => c.rng.gen_range(p + 1..p + 500),
        };
        let d = random_dress(&mut c.rng);
        let mut x = base_matrix(&mut c.rng, kind, n, p);
        dress(&mut c.rng, &mut x, d);
        let desc = format!("{} off={} cs={:.1} gs={}", KINDS[kind], d.off, d.cs, d.gs);
        c.note("data", json!(desc));
        c.note("n", json!(n));
        c.note("p", json!(p));
        let ks = embedding_sizes(&mut c.rng, p, 0);
        c.note("ks", json!(ks));
        let l0 = c.rng.gen_range(0..4usize);
        sweep(c, &x, &desc, &ks, |k, w| LAYOUTS[(l0 + k + w as usize) % 4])
    });

    // ---- the border at which a solver choice keyed on p/k would switch (p/k in 5..=9), on the spectra
    //      that are hardest for a block iteration (signal subspace + noise floor, dominant directions)
    let nborder = ctx.tier.pick(200, 3000);
    ctx.family("solver-border", nborder, |c| {
        let kind = [2usize, 2, 3, 1][(c.idx % 4) as usize];
        let p = c.rng.gen_range(20..=64usize);
        let n = p + 1 + c.rng.gen_range(0..250);
        let d = if c.rng.gen_bool(0.5) { Dress { off: 0, cs: 0.0, gs: 0 } } else { random_dress(&mut c.rng) };
        let mut x = base_matrix(&mut c.rng, kind, n, p);
        dress(&mut c.rng, &mut x, d);
        let desc = format!("{} off={} cs={:.1} gs={}", KINDS[kind], d.off, d.cs, d.gs);
        c.note("data", json!(desc));
        c.note("n", json!(n));
        c.note("p", json!(p));
        let mut ks: Vec<usize> = (5..=9).map(|r| p / r).filter(|k| *k >= 1).collect();
        ks.sort_unstable();
        ks.dedup();
        c.note("ks", json!(ks));
        sweep(c, &x, &desc, &ks, |k, w| LAYOUTS[(k + w as usize) % 4])
    });

    // ---- the regime in which the iterative solver is still used after the dense fallback: p > 500, 5k <= p
    let nhuge = ctx.tier.pick(4, 24);
    ctx.family("iterative-regime", nhuge, |c| {
        // hardest spectra for a block iteration first (clustered, equicorrelated, low rank + noise)
        let kind = [6usize, 5, 2, 0, 3, 1][(c.idx % 6) as usize];
        let p = 501 + c.rng.gen_range(0..40usize);
        let n = p + 1 + if c.idx % 2 == 0 { c.rng.gen_range(150..260) } else { c.rng.gen_range(0..200) };
        let d = Dress { off: *gen::pick(&mut c.rng, &[0, 1, 2, 4, 6]), cs: 0.0, gs: *gen::pick(&mut c.rng, &[0, 0, -3, 3]) };
        let mut x = base_matrix(&mut c.rng, kind, n, p);
        dress(&mut c.rng, &mut x, d);
        let desc = format!("{} off={} cs={:.1} gs={}", KINDS[kind], d.off, d.cs, d.gs);
        c.note("data", json!(desc));
        c.note("n", json!(n));
        c.note("p", json!(p));
        let mut ks = vec![1usize, 2, 7, p / 8];
        ks.push(c.rng.gen_range(3..=40));
        // just past the border: 5k > p, where the dense solver has to be used whatever n is
        ks.push(p / 5 + 1);
        if n / 5 > p / 5 + 1 {
            ks.push(n / 5);
        }
        ks.sort_unstable();
        ks.dedup();
        c.note("ks", json!(ks));
        sweep(c, &x, &desc, &ks, |k, w| LAYOUTS[(k + w as usize) % 4])
    });

    // ---- degenerate inputs: exact rank deficiency, exact ties, (almost) no variance
    let ndeg = ctx.tier.pick(160, 3000);
    ctx.family("degenerate", ndeg, |c| {
        let kind = (c.idx % DEGENERATE.len() as u64) as usize;
        let p = c.rng.gen_range(1..=10usize);
        let n = p + 1 + c.rng.gen_range(0..40);
        let mut x = degenerate_matrix(&mut c.rng, kind, n, p);
        let n = x.nrows();
        if c.rng.gen_bool(0.3) {
            let d = Dress { off: c.rng.gen_range(0..=4), cs: 0.0, gs: 0 };
            dress(&mut c.rng, &mut x, d);
        }
        let desc = DEGENERATE[kind].to_string();
        c.note("data", json!(desc));
        c.note("n", json!(n));
        c.note("p", json!(p));
        if n <= p {
            return inconclusive("outside n > p");
        }
        let sp = spectrum(&x);
        if !(sp.lam1 > 0.0) {
            // no variance at all: PCA has nothing to return; the property only forbids a crash
            for k in 1..=p {
                for whiten in [false, true] {
                    match fit_layout(&x, Layout::C, k, whiten) {
                        Err(pn) => bail!("C18/fit/panic", {"data": desc, "n": n, "p": p, "k": k, "whiten": whiten, "panic": pn}),
                        // a model that is returned publishes numbers: the variances of data without
                        // any spread are (numerically) zero, never NaN or infinite, and so is
                        // everything derived from them
                        Ok(Ok(m)) => {
                            let ev = m.explained_variance();
                            let evr = m.explained_variance_ratio();
                            let sv = m.singular_values();
                            ensure!(ev.iter().chain(evr.iter()).chain(sv.iter()).chain(m.components().iter()).all(|v| v.is_finite()),
                                "C18/degenerate/non-finite-accessor", {"data": desc, "n": n, "p": p, "k": k, "whiten": whiten,
                                 "explained_variance": ev.iter().map(|v| format!("{v}")).collect::<Vec<_>>(),
                                 "explained_variance_ratio": evr.iter().map(|v| format!("{v}")).collect::<Vec<_>>()});
                            ensure!(ev.iter().all(|v| *v >= 0.0 && *v <= 1e-12) && evr.iter().all(|v| (0.0..=1.0 + 1e-12).contains(v)),
                                "C18/degenerate/variance-of-constant-data", {"data": desc, "n": n, "p": p, "k": k,
                                 "explained_variance": ev.to_vec(), "explained_variance_ratio": evr.to_vec()});
                        }
                        Ok(Err(_)) => {}
                    }
                }
            }
            return inconclusive("zero total variance: nothing to judge beyond absence of a panic");
        }
        let rank = sp.lam.iter().filter(|l| **l > Tol::NULL * sp.lam1).count();
        c.note("rank", json!(rank));
        let ks: Vec<usize> = (1..=p).collect();
        match sweep(c, &x, &desc, &ks, |k, _| LAYOUTS[k % 4]) {
            // non-trivial here: a genuinely degenerate spectrum was judged
            Outcome::Held { key, .. } => held(p >= 2, format!("{key} rank={rank}")),
            o => o,
        }
    });

    // ---- error cases: complete grid
    let mut egrid = vec![];
    for p in 0..=7usize {
        for n in [0usize, 1, 2, p, p + 1, 2 * p + 3] {
            for k in [0usize, 1, p, p + 1, p + 2, 2 * p + 1, 1000, usize::MAX] {
                // in-domain combinations are not error cases
                let must_err = n == 0 || k == 0 || k > p;
                if must_err {
                    for whiten in [false, true] {
                        for view in [false, true] {
                            egrid.push((n, p, k, whiten, view));
                        }
                    }
                }
            }
        }
    }
    egrid.sort_unstable();
    egrid.dedup();
    ctx.set_exhaustive("error grid (p<=7, n in {0,1,2,p,p+1,2p+3}, k in {0,1,p,p+1,p+2,2p+1,1000,MAX} outside the domain)", true);
    let egrid = &egrid;
    ctx.family("errors", egrid.len() as u64, |c| {
        let (n, p, k, whiten, view) = egrid[c.idx as usize];
        c.note("n", json!(n));
        c.note("p", json!(p));
        c.note("k", json!(k.min(1 << 40)));
        let det = json!({"n": n, "p": p, "k": k.min(1 << 40), "whiten": whiten, "view": view});
        match fit_raw(n, p, k, whiten, view) {
            Err(pn) => bail!("C18/errors/panic-instead-of-error", {"case": det, "panic": pn}),
            Ok(Ok(m)) => bail!(
                if n == 0 { "C18/errors/empty-dataset-accepted" } else { "C18/errors/embedding-size-outside-1..p-accepted" },
                {"case": det, "components": m.components().shape()}
            ),
            Ok(Err(_)) => held(true, format!("n={n} p={p} k={k} w={whiten} v={view}")),
        }
    });

    // ---- f32 models (only constructible by deserialisation): predict is the same affine map
    let n32 = ctx.tier.pick(60, 1000);
    ctx.family("f32-predict", n32, |c| {
        let kind = (c.idx % KINDS.len() as u64) as usize;
        let p = c.rng.gen_range(1..=12usize);
        let n = p + 1 + c.rng.gen_range(0..60);
        let k = c.rng.gen_range(1..=p);
        let whiten = c.rng.gen_bool(0.5);
        let d = Dress { off: c.rng.gen_range(0..=2), cs: gen::uniform(&mut c.rng, 0.0, 1.0), gs: 0 };
        let mut x = base_matrix(&mut c.rng, kind, n, p);
        dress(&mut c.rng, &mut x, d);
        c.note("n", json!(n));
        c.note("p", json!(p));
        c.note("k", json!(k));
        let model = match fit_layout(&x, Layout::C, k, whiten) {
            Err(pn) => bail!("C18/fit/panic", {"n": n, "p": p, "k": k, "panic": pn}),
            Ok(Err(e)) => return inconclusive(format!("fit error: {e}")),
            Ok(Ok(m)) => m,
        };
        let js = match serde_json::to_string(&model) {
            Ok(s) => s,
            Err(e) => return inconclusive(format!("serialise: {e}")),
        };
        let m32: Pca<f32> = match serde_json::from_str(&js) {
            Ok(m) => m,
            Err(e) => return inconclusive(format!("deserialise as f32: {e}")),
        };
        let x32 = x.mapv(|v| v as f32);
        let z32: Array2<f32> = match guarded(|| m32.predict(&x32)) {
            Ok(z) => z,
            Err(pn) => bail!("C18/predict/panic", {"elem": "f32", "n": n, "p": p, "k": k, "panic": pn}),
        };
        let kk = model.components().nrows();
        ensure!(z32.dim() == (n, kk), "C18/predict/shape", {"elem": "f32", "got": z32.shape(), "expected": [n, kk]});
        // reference in f64 from the f32-rounded model and inputs
        let c32 = model.components().mapv(|v| v as f32 as f64);
        let mu32 = model.mean().mapv(|v| v as f32 as f64);
        let xx = x32.mapv(|v| v as f64);
        let zo = (&xx - &mu32).dot(&c32.t());
        let scale = xx.mapv(f64::abs).dot(&c32.mapv(f64::abs).t()) + mu32.mapv(f64::abs).dot(&c32.mapv(f64::abs).t());
        let e32 = f32::EPSILON as f64;
        for i in 0..n {
            for j in 0..kk {
                let dv = (z32[[i, j]] as f64 - zo[[i, j]]).abs();
                let tol = 64.0 * e32 * scale[[i, j]] + f32::MIN_POSITIVE as f64;
                c.resid("f32 projection/(eps32*scale)", dv / (e32 * scale[[i, j]]).max(1e-300));
                ensure!(dv <= tol, "C18/predict/not-(x-mean).components^T", {"elem": "f32", "row": i, "col": j, "got": z32[[i, j]], "expected": zo[[i, j]], "tol": tol});
            }
        }
        held(p >= 2, format!("f32 {} n={n} p={p} k={k} w={whiten}", KINDS[kind]))
    });
}
