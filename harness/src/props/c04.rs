//! C04 — invalid hyperparameters are rejected with an error before any training.
//!
//! Table-driven monitor. For every parameter builder of the workspace the table below transcribes
//! each numeric parameter, its *documented* range (doc comments, parameter tables, crate-level docs,
//! error-variant texts) and a boundary grid (below / at / just inside / far inside every bound, in
//! the element type of the builder: the "just inside" neighbours are the adjacent f32 or f64
//! numbers). The expectation of a grid point is `Acc`, `Rej` or `Unspec` (documentation worded
//! inconsistently at that value, or no documented range at all). The monitor enumerates the cross
//! product of the grids and judges every point:
//!
//!  * `check_ref()` verdict against the table (strict for Acc / Rej points);
//!  * `check()` against `check_ref()` (verdict, Display and Debug text of the error, Debug of the
//!    checked value), repeatability of `check_ref()`, parameters unchanged by checking (Debug of
//!    the builder before/after, checked value contained in the builder, getters of the checked
//!    value against the values that were set);
//!  * every `fit` / `fit_with` / `transform` entry point of the *unchecked* builder on a tiny valid
//!    dataset: for a rejected point it must return `E::from(check error)` (Display + Debug text),
//!    must not panic, must not return a model, and — where the builder carries a random number
//!    generator or a distance function — must not have drawn a single random number / computed a
//!    single distance (trip-wire counters shared through `Arc`); for an accepted point the result
//!    must be identical to that of the checked form (model `PartialEq`, outputs, or error text).
//!
//! The oracle is the table (written from the documentation), not linfa's guards.
#![allow(dead_code, unused_variables)]
use crate::fw::*;
use linfa::dataset::{DatasetBase, Pr};
use linfa::traits::{Fit, FitWith, Transformer};
use linfa::{Dataset, ParamGuard};
use ndarray::{Array1, Array2, ArrayView, Axis, Dimension};
use rand::{Rng as _, RngCore, SeedableRng};
use rand_xoshiro::Xoshiro256Plus;
use serde_json::{json, Map, Value};
use std::fmt::{Debug, Display};
use std::sync::atomic::{AtomicU64, Ordering};
use std::sync::Arc;

// ------------------------------------------------------------------------------------------
// expectation / grid machinery
// ------------------------------------------------------------------------------------------

#[derive(Clone, Copy, PartialEq, Eq, Debug)]
enum Exp {
    Acc,
    Rej,
    Unspec,
}
use Exp::*;

/// one grid point of one parameter
#[derive(Clone, Copy, Debug)]
struct G {
    f: f64,
    u: u64,
    e: Exp,
    tag: &'static str,
    /// may this value be used when the valid point is actually fitted (cost / convergence)
    fit: bool,
    is_float: bool,
}

fn gf(f: f64, e: Exp, tag: &'static str, fit: bool) -> G {
    G { f, u: 0, e, tag, fit, is_float: true }
}
fn gu(u: u64, e: Exp, tag: &'static str, fit: bool) -> G {
    G { f: u as f64, u, e, tag, fit, is_float: false }
}

struct Ax {
    name: &'static str,
    pts: Vec<G>,
}
fn ax(name: &'static str, pts: Vec<G>) -> Ax {
    Ax { name, pts }
}

/// element type of a builder: neighbours are taken in that type
trait Fl: linfa::Float + Debug + Display {
    const NAME: &'static str;
    fn of(v: f64) -> Self;
    fn to64(self) -> f64;
    fn up64(v: f64) -> f64;
    fn down64(v: f64) -> f64;
    /// smallest positive normal number
    fn tiny() -> f64;
    fn eps() -> f64;
    /// a huge finite value
    fn huge() -> f64;
}
impl Fl for f64 {
    const NAME: &'static str = "f64";
    fn of(v: f64) -> f64 {
        v
    }
    fn to64(self) -> f64 {
        self
    }
    fn up64(v: f64) -> f64 {
        if v == 0.0 {
            return f64::from_bits(1);
        }
        let b = v.to_bits();
        if v > 0.0 {
            f64::from_bits(b + 1)
        } else {
            f64::from_bits(b - 1)
        }
    }
    fn down64(v: f64) -> f64 {
        -Self::up64(-v)
    }
    fn tiny() -> f64 {
        f64::MIN_POSITIVE
    }
    fn eps() -> f64 {
        f64::EPSILON
    }
    fn huge() -> f64 {
        1e300
    }
}
impl Fl for f32 {
    const NAME: &'static str = "f32";
    fn of(v: f64) -> f32 {
        v as f32
    }
    fn to64(self) -> f64 {
        self as f64
    }
    fn up64(v: f64) -> f64 {
        let v = v as f32;
        if v == 0.0 {
            return f32::from_bits(1) as f64;
        }
        let b = v.to_bits();
        (if v > 0.0 { f32::from_bits(b + 1) } else { f32::from_bits(b - 1) }) as f64
    }
    fn down64(v: f64) -> f64 {
        -Self::up64(-v)
    }
    fn tiny() -> f64 {
        f32::MIN_POSITIVE as f64
    }
    fn eps() -> f64 {
        f32::EPSILON as f64
    }
    fn huge() -> f64 {
        1e30
    }
}

/// lower bound `b`, excluded: (b, inf)
fn lo_open<F: Fl>(b: f64, far: &[f64]) -> Vec<G> {
    let mut v = vec![
        gf(-F::huge(), Rej, "far-below", false),
        gf(b - 1.0, Rej, "below", false),
        gf(F::down64(b), Rej, "just-below", false),
        gf(b, Rej, "at-open-bound", false),
        gf(F::up64(b), Acc, "just-inside", false),
    ];
    if b == 0.0 {
        v.push(gf(-0.0, Rej, "neg-zero-at-open-bound", false));
        v.push(gf(F::tiny(), Acc, "smallest-normal", false));
    }
    for x in far {
        v.push(gf(*x, Acc, "inside", true));
    }
    v.push(gf(F::huge(), Acc, "huge", false));
    v
}

/// lower bound `b`, included: [b, inf). `at` = expectation at the bound itself
fn lo_closed<F: Fl>(b: f64, at: Exp, far: &[f64], fit_at: bool) -> Vec<G> {
    let mut v = vec![
        gf(-F::huge(), Rej, "far-below", false),
        gf(b - 1.0, Rej, "below", false),
        gf(F::down64(b), Rej, "just-below", false),
        gf(b, at, "at-closed-bound", fit_at && at == Acc),
        gf(F::up64(b), Acc, "just-inside", false),
    ];
    if b == 0.0 {
        // -0.0 == 0.0 lies in [0, inf) numerically, but several guards test the sign bit:
        // the property does not say which reading is meant
        v.push(gf(-0.0, Unspec, "neg-zero-at-closed-bound", false));
    }
    for x in far {
        v.push(gf(*x, Acc, "inside", true));
    }
    v.push(gf(F::huge(), Acc, "huge", false));
    v
}

/// closed unit interval [0, 1]
fn unit_closed<F: Fl>(mid: &[f64]) -> Vec<G> {
    let mut v = vec![
        gf(-F::huge(), Rej, "far-below", false),
        gf(-1.0, Rej, "below", false),
        gf(F::down64(0.0), Rej, "just-below", false),
        gf(-0.0, Unspec, "neg-zero-at-closed-bound", false),
        gf(0.0, Acc, "at-lower", true),
        gf(F::up64(0.0), Acc, "just-inside-lower", false),
    ];
    for x in mid {
        v.push(gf(*x, Acc, "inside", true));
    }
    v.extend([
        gf(F::down64(1.0), Acc, "just-inside-upper", true),
        gf(1.0, Acc, "at-upper", true),
        gf(F::up64(1.0), Rej, "just-above", false),
        gf(2.0, Rej, "above", false),
        gf(F::huge(), Rej, "far-above", false),
    ]);
    v
}

/// counts with a minimum
fn count_min(min: u64, far: &[u64], huge: Option<u64>) -> Vec<G> {
    let mut v = vec![];
    if min >= 2 {
        v.push(gu(0, Rej, "zero", false));
    }
    if min >= 1 {
        v.push(gu(min - 1, Rej, "just-below-min", false));
    }
    v.push(gu(min, Acc, "at-min", true));
    v.push(gu(min + 1, Acc, "just-inside", true));
    for x in far {
        v.push(gu(*x, Acc, "inside", true));
    }
    if let Some(h) = huge {
        v.push(gu(h, Acc, "huge", false));
    }
    v
}

/// parameter without documented range: a few ordinary values, all accepted
fn free_f(vals: &[f64]) -> Vec<G> {
    vals.iter().map(|x| gf(*x, Acc, "free", true)).collect()
}
fn free_u(vals: &[u64]) -> Vec<G> {
    vals.iter().map(|x| gu(*x, Acc, "free", true)).collect()
}
/// categorical axis with `n` admissible choices
fn choice(n: u64) -> Vec<G> {
    (0..n).map(|x| gu(x, Acc, "choice", true)).collect()
}

/// a point of the cross product
struct Pt<'a> {
    axes: &'a [Ax],
    ix: Vec<usize>,
}
impl<'a> Pt<'a> {
    fn g(&self, name: &str) -> G {
        for (a, i) in self.axes.iter().zip(&self.ix) {
            if a.name == name {
                return a.pts[*i];
            }
        }
        panic!("c04 table: axis {name} missing");
    }
    fn f(&self, name: &str) -> f64 {
        self.g(name).f
    }
    fn u(&self, name: &str) -> u64 {
        self.g(name).u
    }
    fn uz(&self, name: &str) -> usize {
        self.g(name).u as usize
    }
    fn fit_ok(&self) -> bool {
        self.axes.iter().zip(&self.ix).all(|(a, i)| a.pts[*i].fit)
    }
    fn describe(&self) -> (Value, String) {
        let mut m = Map::new();
        let mut key = String::new();
        for (a, i) in self.axes.iter().zip(&self.ix) {
            let g = a.pts[*i];
            let val = if g.is_float { format!("{:e}", g.f) } else { format!("{}", g.u) };
            m.insert(a.name.to_string(), json!({"value": val, "class": g.tag, "expect": format!("{:?}", g.e)}));
            key.push_str(&format!("{}={};", a.name, val));
        }
        (Value::Object(m), key)
    }
}

/// table expectation of a point
#[derive(Clone, Debug)]
struct Expect {
    e: Exp,
    /// parameters whose value is outside the documented range
    invalid: Vec<String>,
    /// parameters whose value sits on an unspecified boundary
    unspec: Vec<String>,
}
impl Expect {
    /// only the axes in `active` are looked at (the others do not reach the builder at this point)
    fn of(pt: &Pt, active: &dyn Fn(&str) -> bool) -> Expect {
        let mut invalid = vec![];
        let mut unspec = vec![];
        for (a, i) in pt.axes.iter().zip(&pt.ix) {
            if !active(a.name) {
                continue;
            }
            match a.pts[*i].e {
                Rej => invalid.push(a.name.to_string()),
                Unspec => unspec.push(a.name.to_string()),
                Acc => {}
            }
        }
        let e = if !invalid.is_empty() {
            Rej
        } else if !unspec.is_empty() {
            Unspec
        } else {
            Acc
        };
        Expect { e, invalid, unspec }
    }
    fn all(pt: &Pt) -> Expect {
        Expect::of(pt, &|_| true)
    }
    fn add_invalid(&mut self, name: &str) {
        self.invalid.push(name.to_string());
        self.e = Rej;
    }
    fn add_unspec(&mut self, name: &str) {
        self.unspec.push(name.to_string());
        if self.e == Acc {
            self.e = Unspec;
        }
    }
}

/// Enumeration plan of a table: exhaustive when the cross product is small enough, otherwise all
/// points that differ from the base point (first `fit` value of every axis) in at most two axes,
/// plus a random sample.
struct Plan {
    axes: Vec<Ax>,
    total: u64,
    exhaustive: bool,
    /// list of (axis, value) deviations for the pairwise part
    pairwise: Vec<Vec<usize>>,
    nrandom: u64,
}
impl Plan {
    fn new(axes: Vec<Ax>, cap: u64, nrandom: u64) -> Plan {
        let mut total: u64 = 1;
        for a in &axes {
            assert!(!a.pts.is_empty());
            total = total.saturating_mul(a.pts.len() as u64);
        }
        if total <= cap {
            return Plan { axes, total, exhaustive: true, pairwise: vec![], nrandom: 0 };
        }
        let base: Vec<usize> = axes
            .iter()
            .map(|a| a.pts.iter().position(|g| g.fit && g.e == Acc).unwrap_or(0))
            .collect();
        let mut pairwise = vec![base.clone()];
        let k = axes.len();
        for a in 0..k {
            for va in 0..axes[a].pts.len() {
                if va == base[a] {
                    continue;
                }
                let mut p = base.clone();
                p[a] = va;
                pairwise.push(p.clone());
                for b in (a + 1)..k {
                    for vb in 0..axes[b].pts.len() {
                        if vb == base[b] {
                            continue;
                        }
                        let mut q = p.clone();
                        q[b] = vb;
                        pairwise.push(q);
                    }
                }
            }
        }
        Plan { axes, total, exhaustive: false, pairwise, nrandom }
    }
    fn ncases(&self) -> u64 {
        if self.exhaustive {
            self.total
        } else {
            self.pairwise.len() as u64 + self.nrandom
        }
    }
    fn point(&self, c: &mut Case) -> Pt<'_> {
        let ix = if self.exhaustive {
            let mut r = c.idx;
            let mut ix = Vec::with_capacity(self.axes.len());
            for a in &self.axes {
                let n = a.pts.len() as u64;
                ix.push((r % n) as usize);
                r /= n;
            }
            ix
        } else if (c.idx as usize) < self.pairwise.len() {
            self.pairwise[c.idx as usize].clone()
        } else {
            self.axes.iter().map(|a| c.rng.gen_range(0..a.pts.len())).collect()
        };
        Pt { axes: &self.axes, ix }
    }
}

// ------------------------------------------------------------------------------------------
// trip-wires: a random number generator and a distance function that count their uses
// ------------------------------------------------------------------------------------------

#[derive(Clone, Debug)]
struct TripRng {
    inner: Xoshiro256Plus,
    hits: Arc<AtomicU64>,
}
impl TripRng {
    fn new(seed: u64) -> TripRng {
        TripRng { inner: Xoshiro256Plus::seed_from_u64(seed), hits: Arc::new(AtomicU64::new(0)) }
    }
    fn hits(&self) -> u64 {
        self.hits.load(Ordering::SeqCst)
    }
}
impl PartialEq for TripRng {
    fn eq(&self, o: &Self) -> bool {
        self.inner == o.inner
    }
}
impl RngCore for TripRng {
    fn next_u32(&mut self) -> u32 {
        self.hits.fetch_add(1, Ordering::SeqCst);
        self.inner.next_u32()
    }
    fn next_u64(&mut self) -> u64 {
        self.hits.fetch_add(1, Ordering::SeqCst);
        self.inner.next_u64()
    }
    fn fill_bytes(&mut self, dest: &mut [u8]) {
        self.hits.fetch_add(1, Ordering::SeqCst);
        self.inner.fill_bytes(dest)
    }
    fn try_fill_bytes(&mut self, dest: &mut [u8]) -> Result<(), rand::Error> {
        self.hits.fetch_add(1, Ordering::SeqCst);
        self.inner.try_fill_bytes(dest)
    }
}

#[derive(Clone, Debug)]
struct TripDist {
    hits: Arc<AtomicU64>,
}
impl TripDist {
    fn new() -> TripDist {
        TripDist { hits: Arc::new(AtomicU64::new(0)) }
    }
    fn hits(&self) -> u64 {
        self.hits.load(Ordering::SeqCst)
    }
}
impl PartialEq for TripDist {
    fn eq(&self, _: &Self) -> bool {
        true
    }
}
impl<F: linfa::Float> linfa_nn::distance::Distance<F> for TripDist {
    fn distance<D: Dimension>(&self, a: ArrayView<F, D>, b: ArrayView<F, D>) -> F {
        self.hits.fetch_add(1, Ordering::Relaxed);
        linfa_nn::distance::L2Dist.distance(a, b)
    }
    fn rdistance<D: Dimension>(&self, a: ArrayView<F, D>, b: ArrayView<F, D>) -> F {
        self.hits.fetch_add(1, Ordering::Relaxed);
        linfa_nn::distance::L2Dist.rdistance(a, b)
    }
    fn rdist_to_dist(&self, r: F) -> F {
        <linfa_nn::distance::L2Dist as linfa_nn::distance::Distance<F>>::rdist_to_dist(&linfa_nn::distance::L2Dist, r)
    }
    fn dist_to_rdist(&self, d: F) -> F {
        <linfa_nn::distance::L2Dist as linfa_nn::distance::Distance<F>>::dist_to_rdist(&linfa_nn::distance::L2Dist, d)
    }
}

// ------------------------------------------------------------------------------------------
// the judge
// ------------------------------------------------------------------------------------------

/// what checking returned
struct Chk {
    ok: bool,
    err_disp: String,
    err_dbg: String,
}

macro_rules! tri {
    ($e:expr) => {
        match $e {
            Ok(v) => v,
            Err(o) => return o,
        }
    };
}

fn sig(b: &str, mode: &str) -> String {
    format!("C04/{b}/{mode}")
}

/// Judge `check_ref()` / `check()` of one builder value.
///  * `make`    builds the unchecked parameter set of this grid point (called several times; must
///              be deterministic)
///  * `show_p`  Debug text of the builder (empty string when the type has no Debug)
///  * `show_c`  Debug text of the checked value
///  * `newtype` the builder's Debug text contains the checked value's Debug text
///  * `getters` compares the getters of the checked value with the values that were set
fn judge_check<P>(
    c: &mut Case,
    b: &str,
    exp: &Expect,
    make: &dyn Fn() -> P,
    show_p: &dyn Fn(&P) -> String,
    show_c: &dyn Fn(&P::Checked) -> String,
    newtype: bool,
    getters: &dyn Fn(&P::Checked) -> Result<(), String>,
) -> Result<Chk, Outcome>
where
    P: ParamGuard,
    P::Error: Display + Debug,
{
    type R = Result<(String, Result<(), String>), (String, String)>;
    let p = make();
    let before = show_p(&p);
    let run_ref = |p: &P| -> Result<R, String> {
        guarded(|| match p.check_ref() {
            Ok(ch) => Ok((show_c(ch), getters(ch))),
            Err(e) => Err((e.to_string(), format!("{e:?}"))),
        })
    };
    let r1: R = match run_ref(&p) {
        Ok(r) => r,
        Err(panic) => {
            return Err(violated(sig(b, "check_ref-panics"), json!({"panic": panic, "params": before})))
        }
    };
    let after = show_p(&p);
    if before != after {
        return Err(violated(
            sig(b, "check_ref-changes-params"),
            json!({"before": before, "after": after}),
        ));
    }
    // a second call on the same value must give the same answer (no stale state)
    let r1b: R = match run_ref(&p) {
        Ok(r) => r,
        Err(panic) => {
            return Err(violated(sig(b, "check_ref-panics"), json!({"panic": panic, "params": before, "call": 2})))
        }
    };
    let same_r = |x: &R, y: &R| match (x, y) {
        (Ok(a), Ok(b)) => a.0 == b.0,
        (Err(a), Err(b)) => a == b,
        _ => false,
    };
    if !same_r(&r1, &r1b) {
        return Err(violated(
            sig(b, "check_ref-not-repeatable"),
            json!({"first": format!("{r1:?}"), "second": format!("{r1b:?}"), "params": before}),
        ));
    }
    // by value
    let r2: R = match guarded(|| match p.check() {
        Ok(ch) => Ok((show_c(&ch), getters(&ch))),
        Err(e) => Err((e.to_string(), format!("{e:?}"))),
    }) {
        Ok(r) => r,
        Err(panic) => {
            return Err(violated(sig(b, "check-panics"), json!({"panic": panic, "params": before})))
        }
    };
    match (&r1, &r2) {
        (Ok(a), Ok(bv)) => {
            if a.0 != bv.0 {
                return Err(violated(
                    sig(b, "check-value-differs-from-check_ref"),
                    json!({"check_ref": a.0, "check": bv.0}),
                ));
            }
            if newtype && !before.contains(&a.0) {
                return Err(violated(
                    sig(b, "checked-params-differ-from-builder"),
                    json!({"builder": before, "checked": a.0}),
                ));
            }
            for (which, g) in [("check_ref", &a.1), ("check", &bv.1)] {
                if let Err(msg) = g {
                    return Err(violated(
                        sig(b, "checked-getters-differ-from-set-values"),
                        json!({"via": which, "mismatch": msg, "builder": before}),
                    ));
                }
            }
        }
        (Err(a), Err(bv)) => {
            if a != bv {
                return Err(violated(
                    sig(b, "check-error-differs-from-check_ref"),
                    json!({"check_ref": a, "check": bv, "params": before}),
                ));
            }
        }
        _ => {
            return Err(violated(
                sig(b, "check-verdict-differs-from-check_ref"),
                json!({"check_ref": format!("{:?}", r1.as_ref().map(|x| &x.0)), "check": format!("{:?}", r2.as_ref().map(|x| &x.0)), "params": before}),
            ));
        }
    }
    let ok = r1.is_ok();
    // check_unwrap() is check().unwrap(): it returns for a valid set and panics for an invalid one
    let unwrapped = guarded(|| {
        make().check_unwrap();
    });
    if unwrapped.is_ok() != ok {
        return Err(violated(
            sig(b, "check_unwrap-disagrees-with-check"),
            json!({"check_ok": ok, "check_unwrap_returned": unwrapped.is_ok(), "params": before}),
        ));
    }
    let (err_disp, err_dbg) = match &r1 {
        Err(e) => e.clone(),
        Ok(_) => (String::new(), String::new()),
    };
    match exp.e {
        Acc => {
            if !ok {
                return Err(violated(
                    sig(b, "rejects-documented-valid"),
                    json!({"error": err_disp, "params": before}),
                ));
            }
        }
        Rej => {
            if ok {
                let mut names = exp.invalid.clone();
                names.sort();
                return Err(violated(
                    sig(b, &format!("accepts-invalid:{}", names.join("+"))),
                    json!({"invalid_parameters": exp.invalid, "params": before}),
                ));
            }
        }
        Unspec => {
            c.count(&format!("{b}/unspecified-{}", if ok { "accepted" } else { "rejected" }));
        }
    }
    c.count(&format!("{b}/points-{}", if ok { "accepted" } else { "rejected" }));
    Ok(Chk { ok, err_disp, err_dbg })
}

/// The rejected-point half of `judge_entry`: the entry point of the unchecked builder must return
/// `E::from(check error)`, without panicking, without a model, without touching rng / distance.
/// `suffix` distinguishes the tiny valid dataset ("") from the degenerate one.
fn judge_invalid<P, M, E>(
    c: &mut Case,
    b: &str,
    entry: &str,
    suffix: &str,
    chk: &Chk,
    make: &dyn Fn() -> (P, Box<dyn Fn() -> u64>),
    fit_u: &dyn Fn(&P) -> Result<M, E>,
) -> Result<(), Outcome>
where
    P: ParamGuard,
    P::Error: Display + Debug,
    E: From<P::Error> + Display + Debug,
{
    let (p, trip) = make();
    let r = guarded(|| fit_u(&p).map(|_| ()).map_err(|e| (e.to_string(), format!("{e:?}"))));
    let hits = trip();
    c.evals += 1;
    match r {
        Err(panic) => Err(violated(
            sig(b, &format!("{entry}-panics-on-invalid{suffix}")),
            json!({"panic": panic, "check_error": chk.err_disp}),
        )),
        Ok(Ok(())) => Err(violated(
            sig(b, &format!("{entry}-succeeds-on-invalid{suffix}")),
            json!({"check_error": chk.err_disp}),
        )),
        Ok(Err(got)) => {
            // the error the blanket impls must produce: E::from(check error)
            let (p2, _) = make();
            let want: E = match p2.check_ref() {
                Err(e) => e.into(),
                Ok(_) => return Err(inconclusive("check_ref changed its verdict between calls")),
            };
            let want = (want.to_string(), format!("{want:?}"));
            if got != want {
                return Err(violated(
                    sig(b, &format!("{entry}-returns-different-error{suffix}")),
                    json!({"got": got.0, "got_debug": got.1, "expected": want.0, "expected_debug": want.1}),
                ));
            }
            if hits != 0 {
                return Err(violated(
                    sig(b, &format!("{entry}-works-before-rejecting{suffix}")),
                    json!({"rng_or_distance_uses": hits, "error": got.0}),
                ));
            }
            c.count(&format!("{b}/{entry}/invalid-judged{suffix}"));
            Ok(())
        }
    }
}

/// Judge one entry point (`fit`, `fit_with`, `transform`, ...) of the unchecked builder.
///  * `fit_u` calls the entry point on the unchecked builder, `fit_c` on the checked value
///  * `same` compares two successful results
///  * `trip` reads the trip-wire counters of the value returned by the last `make()` call
fn judge_entry<P, M, E>(
    c: &mut Case,
    b: &str,
    entry: &str,
    chk: &Chk,
    make: &dyn Fn() -> (P, Box<dyn Fn() -> u64>),
    fit_u: &dyn Fn(&P) -> Result<M, E>,
    fit_c: &dyn Fn(&P::Checked) -> Result<M, E>,
    same: &dyn Fn(&M, &M) -> Result<(), String>,
    run_valid: bool,
) -> Result<(), Outcome>
where
    P: ParamGuard,
    P::Error: Display + Debug,
    E: From<P::Error> + Display + Debug,
{
    if !chk.ok {
        judge_invalid::<P, M, E>(c, b, entry, "", chk, make, fit_u)
    } else {
        if !run_valid {
            return Ok(());
        }
        let (p, _) = make();
        let (p2, _) = make();
        let checked = match guarded(|| p2.check()) {
            Ok(Ok(ch)) => ch,
            _ => return Err(inconclusive("check() changed its verdict between calls")),
        };
        let ru = guarded(|| fit_u(&p).map_err(|e| (e.to_string(), format!("{e:?}"))));
        let rc = guarded(|| fit_c(&checked).map_err(|e| (e.to_string(), format!("{e:?}"))));
        c.evals += 1;
        match (ru, rc) {
            (Ok(Ok(mu)), Ok(Ok(mc))) => {
                if let Err(msg) = same(&mu, &mc) {
                    return Err(violated(
                        sig(b, &format!("{entry}-valid-unchecked-differs-from-checked")),
                        json!({"difference": msg}),
                    ));
                }
                c.count(&format!("{b}/{entry}/valid-compared"));
                Ok(())
            }
            (Ok(Err(eu)), Ok(Err(ec))) => {
                // training errors may wrap foreign error types whose Debug text carries
                // addresses / backtraces: compare the Display text only
                if eu.0 != ec.0 {
                    return Err(violated(
                        sig(b, &format!("{entry}-valid-unchecked-error-differs-from-checked")),
                        json!({"unchecked": eu.0, "checked": ec.0}),
                    ));
                }
                c.count(&format!("{b}/{entry}/valid-both-error"));
                Ok(())
            }
            (Err(pu), Err(_pc)) => {
                // training itself panics for both forms: not this property's concern
                c.count(&format!("{b}/{entry}/valid-both-panic"));
                c.note("both-panic", json!(pu));
                if std::env::var("C04_DEBUG").is_ok() {
                    eprintln!("both-panic {b}/{entry}: {pu} {:?}", c.notes.get("point").map(|p| p.to_string()));
                }
                Ok(())
            }
            (ru, rc) => {
                let d = |r: &Result<Result<M, (String, String)>, String>| match r {
                    Ok(Ok(_)) => "Ok(model)".to_string(),
                    Ok(Err(e)) => format!("Err({})", e.0),
                    Err(p) => format!("panic({p})"),
                };
                Err(violated(
                    sig(b, &format!("{entry}-valid-unchecked-differs-from-checked")),
                    json!({"unchecked": d(&ru), "checked": d(&rc)}),
                ))
            }
        }
    }
}

fn no_trip() -> Box<dyn Fn() -> u64> {
    Box::new(|| 0)
}

fn eq_dbg<M: Debug>(a: &M, b: &M) -> Result<(), String> {
    let (x, y) = (format!("{a:?}"), format!("{b:?}"));
    if x == y {
        Ok(())
    } else {
        Err(format!("{x} != {y}"))
    }
}
fn eq_pe<M: PartialEq + Debug>(a: &M, b: &M) -> Result<(), String> {
    if a == b {
        Ok(())
    } else {
        Err(format!("{a:?} != {b:?}"))
    }
}

/// equal by PartialEq, or — for values holding NaN — by their Debug text
fn eq_any<M: PartialEq + Debug>(a: &M, b: &M) -> Result<(), String> {
    if a == b {
        return Ok(());
    }
    eq_dbg(a, b)
}

fn feq<F: Fl>(name: &str, got: F, set: f64) -> Result<(), String> {
    let want = F::of(set);
    if got.to64().to_bits() == want.to64().to_bits() {
        Ok(())
    } else {
        Err(format!("{name}: getter returns {got:?}, value set was {want:?}"))
    }
}
fn ueq<T: PartialEq + Debug>(name: &str, got: T, want: T) -> Result<(), String> {
    if got == want {
        Ok(())
    } else {
        Err(format!("{name}: getter returns {got:?}, value set was {want:?}"))
    }
}

fn finish(c: &mut Case, b: &str, pt: &Pt, exp: &Expect) -> Outcome {
    let (_, key) = pt.describe();
    held(exp.e != Unspec, format!("{b}:{key}"))
}

fn start(c: &mut Case, b: &str, pt: &Pt, exp: &Expect) {
    let (d, _) = pt.describe();
    c.note("builder", json!(b));
    c.note("point", d);
    c.note("table_expectation", json!(format!("{:?}", exp.e)));
    if !exp.invalid.is_empty() {
        c.note("out_of_range", json!(exp.invalid));
    }
    if !exp.unspec.is_empty() {
        c.note("unspecified", json!(exp.unspec));
    }
}

// ------------------------------------------------------------------------------------------
// tiny valid datasets
// ------------------------------------------------------------------------------------------

fn blobs2<F: Fl>(rng: &mut Rng, n: usize, p: usize) -> Array2<F> {
    // two well separated blobs, rows alternate between them
    Array2::from_shape_fn((n, p), |(i, j)| {
        let centre = if i % 2 == 0 { -2.0 } else { 2.0 };
        F::of(centre + 0.3 * crate::gen::normal(rng) + 0.1 * j as f64)
    })
}

/// one compact cloud (kernel entries stay far from underflow)
fn cloud<F: Fl>(rng: &mut Rng, n: usize, p: usize) -> Array2<F> {
    Array2::from_shape_fn((n, p), |_| F::of(0.5 * crate::gen::normal(rng)))
}

/// degenerate data used as an additional trip-wire for rejected parameter sets: no rows at all
/// (even case index) or nothing but NaN (odd case index). A guard that runs first never looks at it.
fn degenerate_x<F: Fl>(x: &Array2<F>, idx: u64) -> Array2<F> {
    if idx % 2 == 0 {
        Array2::zeros((0, x.ncols()))
    } else {
        Array2::from_elem(x.dim(), F::nan())
    }
}
fn degenerate<F: Fl, T: Clone, D: ndarray::Dimension + ndarray::RemoveAxis>(
    ds: &DatasetBase<Array2<F>, ndarray::Array<T, D>>,
    idx: u64,
) -> DatasetBase<Array2<F>, ndarray::Array<T, D>> {
    let x = degenerate_x(&ds.records, idx);
    let t = if idx % 2 == 0 {
        ds.targets.slice_axis(Axis(0), ndarray::Slice::from(0..0)).to_owned()
    } else {
        ds.targets.clone()
    };
    DatasetBase::new(x, t)
}

fn cap(ctx: &Ctx) -> u64 {
    ctx.tier.pick(40_000, 400_000)
}
fn nrand(ctx: &Ctx) -> u64 {
    ctx.tier.pick(10_000, 100_000)
}

fn run_plan(
    ctx: &Ctx,
    fam: &'static str,
    axes: Vec<Ax>,
    f: impl Fn(&mut Case, &Pt) -> Outcome + Sync,
) {
    let plan = Plan::new(axes, cap(ctx), nrand(ctx));
    ctx.set_exhaustive(&format!("{fam}: cross product of {} grid points", plan.total), plan.exhaustive);
    let t0 = std::time::Instant::now();
    ctx.family(fam, plan.ncases(), |c| {
        let pt = plan.point(c);
        f(c, &pt)
    });
    if std::env::var("C04_DEBUG").is_ok() {
        eprintln!("family {fam}: {} cases in {:.2}s", plan.ncases(), t0.elapsed().as_secs_f64());
    }
}

// ------------------------------------------------------------------------------------------
// builders
// ------------------------------------------------------------------------------------------

// ---- k-means ---------------------------------------------------------------------------

fn kmeans<F: Fl>(ctx: &Ctx, fam: &'static str) {
    use linfa_clustering::{IncrKMeansError, KMeans, KMeansError, KMeansInit, KMeansParams};
    // documented: n_clusters, n_runs, max_n_iterations "cannot be 0"; tolerance "must be greater
    // than 0" (KMeansParamsError)
    let axes = vec![
        ax("n_clusters", count_min(1, &[3], Some(usize::MAX as u64))),
        ax("n_runs", count_min(1, &[3], Some(usize::MAX as u64))),
        ax("tolerance", lo_open::<F>(0.0, &[1e-4, 1.0])),
        ax("max_n_iterations", count_min(1, &[20], Some(u64::MAX))),
        ax("init", choice(3)),
    ];
    run_plan(ctx, fam, axes, |c, pt| {
        let b = "kmeans";
        let exp = Expect::all(pt);
        start(c, b, pt, &exp);
        let (k, runs, tol, iters, init) = (
            pt.uz("n_clusters"),
            pt.uz("n_runs"),
            pt.f("tolerance"),
            pt.u("max_n_iterations"),
            pt.u("init"),
        );
        let x: Array2<F> = blobs2(&mut c.rng, 12, 2);
        let ds = DatasetBase::from(x.clone());
        let bad_ds = degenerate(&ds, c.idx);
        let seed = c.rng.gen::<u64>();
        let init_of = |x: &Array2<F>| match init {
            0 => KMeansInit::KMeansPlusPlus,
            1 => KMeansInit::Random,
            _ => KMeansInit::Precomputed(x.slice(ndarray::s![0..k.min(x.nrows()), ..]).to_owned()),
        };
        type P<F> = KMeansParams<F, TripRng, TripDist>;
        let make_t = || -> (P<F>, Box<dyn Fn() -> u64>) {
            let (r, d) = (TripRng::new(seed), TripDist::new());
            let (r2, d2) = (r.clone(), d.clone());
            let p = KMeans::params_with(k, r, d)
                .n_runs(runs)
                .tolerance(F::of(tol))
                .max_n_iterations(iters)
                .init_method(init_of(&x));
            (p, Box::new(move || r2.hits() + d2.hits()))
        };
        let make = || make_t().0;
        let chk = tri!(judge_check(
            c,
            b,
            &exp,
            &make,
            &|p| format!("{p:?}"),
            &|ch| format!("{ch:?}"),
            true,
            &|ch| {
                ueq("n_clusters", ch.n_clusters(), k)?;
                ueq("n_runs", ch.n_runs(), runs)?;
                feq("tolerance", ch.tolerance(), tol)?;
                ueq("max_n_iterations", ch.max_n_iterations(), iters)?;
                ueq("init", ch.init_method().clone(), init_of(&x))
            },
        ));
        let run_valid = pt.fit_ok();
        tri!(judge_entry::<P<F>, _, KMeansError>(
            c,
            b,
            "fit",
            &chk,
            &make_t,
            &|p| p.fit(&ds),
            &|p| p.fit(&ds),
            &eq_pe,
            run_valid,
        ));
        if !chk.ok {
            tri!(judge_invalid::<P<F>, _, KMeansError>(
                c, b, "fit", "-with-degenerate-data", &chk, &make_t,
                &|p| p.fit(&bad_ds),
            ));
        }
        tri!(judge_entry::<P<F>, _, IncrKMeansError<KMeans<F, TripDist>>>(
            c,
            b,
            "fit_with",
            &chk,
            &make_t,
            &|p| p.fit_with(None, &ds),
            &|p| p.fit_with(None, &ds),
            &eq_pe,
            run_valid,
        ));
        if !chk.ok {
            tri!(judge_invalid::<P<F>, _, IncrKMeansError<KMeans<F, TripDist>>>(
                c, b, "fit_with", "-with-degenerate-data", &chk, &make_t,
                &|p| p.fit_with(None, &bad_ds),
            ));
        }
        finish(c, b, pt, &exp)
    });
}


// ---- DBSCAN / approximate DBSCAN / OPTICS -------------------------------------------------

fn nn_of(i: u64) -> linfa_nn::CommonNearestNeighbour {
    use linfa_nn::CommonNearestNeighbour::*;
    match i {
        0 => LinearSearch,
        1 => KdTree,
        _ => BallTree,
    }
}

fn dbscan<F: Fl>(ctx: &Ctx, fam: &'static str) {
    use linfa_clustering::{Dbscan, DbscanParams};
    // documented: "min_points must be greater than 1", "tolerance must be greater than 0"
    let axes = vec![
        ax("min_points", count_min(2, &[4], Some(usize::MAX as u64))),
        ax("tolerance", lo_open::<F>(0.0, &[0.5, 10.0])),
        ax("nn_algo", choice(3)),
    ];
    run_plan(ctx, fam, axes, |c, pt| {
        let b = "dbscan";
        let exp = Expect::all(pt);
        start(c, b, pt, &exp);
        let (mp, tol, nn) = (pt.uz("min_points"), pt.f("tolerance"), pt.u("nn_algo"));
        let x: Array2<F> = blobs2(&mut c.rng, 14, 2);
        let bad_x: Array2<F> = degenerate_x(&x, c.idx);
        type P<F> = DbscanParams<F, TripDist, linfa_nn::CommonNearestNeighbour>;
        let make_t = || -> (P<F>, Box<dyn Fn() -> u64>) {
            let d = TripDist::new();
            let d2 = d.clone();
            let p = Dbscan::params_with(mp, d, nn_of(nn)).tolerance(F::of(tol));
            (p, Box::new(move || d2.hits()))
        };
        let make = || make_t().0;
        let chk = tri!(judge_check(
            c, b, &exp, &make,
            &|p| format!("{p:?}"),
            &|ch| format!("{ch:?}"),
            true,
            &|ch| {
                ueq("min_points", ch.minimum_points(), mp)?;
                feq("tolerance", ch.tolerance(), tol)?;
                ueq("nn_algo", ch.nn_algo().clone(), nn_of(nn))
            },
        ));
        let run_valid = pt.fit_ok();
        tri!(judge_entry::<P<F>, Array1<Option<usize>>, _>(
            c, b, "transform", &chk, &make_t,
            &|p| p.transform(&x),
            &|p| Ok(p.transform(&x)),
            &eq_any, run_valid,
        ));
        if !chk.ok {
            tri!(judge_invalid::<P<F>, Array1<Option<usize>>, _>(
                c, b, "transform", "-with-degenerate-data", &chk, &make_t,
                &|p| p.transform(&bad_x),
            ));
        }
        tri!(judge_entry::<P<F>, Array1<Option<usize>>, _>(
            c, b, "transform-dataset", &chk, &make_t,
            &|p| {
                let r: Result<DatasetBase<Array2<F>, Array1<Option<usize>>>, _> =
                    p.transform(DatasetBase::from(x.clone()));
                r.map(|d| d.targets)
            },
            &|p| Ok(p.transform(DatasetBase::from(x.clone())).targets),
            &eq_any, run_valid,
        ));
        if !chk.ok {
            tri!(judge_invalid::<P<F>, Array1<Option<usize>>, _>(
                c, b, "transform-dataset", "-with-degenerate-data", &chk, &make_t,
                &|p| {
                let r: Result<DatasetBase<Array2<F>, Array1<Option<usize>>>, _> =
                    p.transform(DatasetBase::from(bad_x.clone()));
                r.map(|d| d.targets)
            },
            ));
        }
        finish(c, b, pt, &exp)
    });
}

// (AppxDbscan is a type alias of Dbscan at this commit; the appx_dbscan module is not compiled.)

fn optics<F: Fl>(ctx: &Ctx, fam: &'static str) {
    use linfa_clustering::{Optics, OpticsAnalysis, OpticsParams};
    // documented: "`tolerance` must be greater than 0!", "`min_points` must be greater than 1!".
    // The default tolerance is +inf: not a finite value, outside the property's quantifier.
    let mut tol = lo_open::<F>(0.0, &[0.5, 10.0]);
    tol.push(gf(f64::INFINITY, Unspec, "infinite-default", true));
    let axes = vec![
        ax("min_points", count_min(2, &[4], Some(usize::MAX as u64))),
        ax("tolerance", tol),
        ax("nn_algo", choice(3)),
    ];
    run_plan(ctx, fam, axes, |c, pt| {
        let b = "optics";
        let exp = Expect::all(pt);
        start(c, b, pt, &exp);
        let (mp, tol, nn) = (pt.uz("min_points"), pt.f("tolerance"), pt.u("nn_algo"));
        let x: Array2<F> = blobs2(&mut c.rng, 14, 2);
        let bad_x: Array2<F> = degenerate_x(&x, c.idx);
        type P<F> = OpticsParams<F, TripDist, linfa_nn::CommonNearestNeighbour>;
        let make_t = || -> (P<F>, Box<dyn Fn() -> u64>) {
            let d = TripDist::new();
            let d2 = d.clone();
            let p = Optics::params_with(mp, d, nn_of(nn)).tolerance(F::of(tol));
            (p, Box::new(move || d2.hits()))
        };
        let make = || make_t().0;
        let chk = tri!(judge_check(
            c, b, &exp, &make,
            &|p| format!("{p:?}"),
            &|ch| format!("{ch:?}"),
            true,
            &|ch| {
                ueq("min_points", ch.minimum_points(), mp)?;
                feq("tolerance", ch.tolerance(), tol)?;
                ueq("nn_algo", ch.nn_algo().clone(), nn_of(nn))
            },
        ));
        tri!(judge_entry::<P<F>, OpticsAnalysis<F>, _>(
            c, b, "transform", &chk, &make_t,
            &|p| p.transform(x.view()),
            &|p| Ok(p.transform(x.view())),
            &eq_dbg, pt.fit_ok(),
        ));
        if !chk.ok {
            tri!(judge_invalid::<P<F>, OpticsAnalysis<F>, _>(
                c, b, "transform", "-with-degenerate-data", &chk, &make_t,
                &|p| p.transform(bad_x.view()),
            ));
        }
        finish(c, b, pt, &exp)
    });
}

// ---- Gaussian mixture ----------------------------------------------------------------------

fn gmm<F: Fl>(ctx: &Ctx, fam: &'static str) {
    use linfa_clustering::{GaussianMixtureModel, GmmError, GmmInitMethod, GmmParams};
    // documented: "`n_clusters` cannot be 0!", "`tolerance` must be greater than 0!",
    // reg_covariance "Non-negative regularization added to the diagonal of covariance",
    // "`n_runs` cannot be 0!", "`max_n_iterations` cannot be 0!"
    let axes = vec![
        ax("n_clusters", count_min(1, &[2], Some(usize::MAX as u64))),
        ax("tolerance", lo_open::<F>(0.0, &[1e-3, 1.0])),
        ax("reg_covar", lo_closed::<F>(0.0, Acc, &[1e-6, 1e-1], true)),
        ax("n_runs", count_min(1, &[], Some(u64::MAX))),
        ax("max_n_iter", count_min(1, &[30], Some(u64::MAX))),
        ax("init", choice(2)),
    ];
    run_plan(ctx, fam, axes, |c, pt| {
        let b = "gmm";
        let exp = Expect::all(pt);
        start(c, b, pt, &exp);
        let (k, tol, reg, runs, iters, init) = (
            pt.uz("n_clusters"), pt.f("tolerance"), pt.f("reg_covar"), pt.u("n_runs"),
            pt.u("max_n_iter"), pt.u("init"),
        );
        let init = if init == 0 { GmmInitMethod::KMeans } else { GmmInitMethod::Random };
        let x: Array2<F> = blobs2(&mut c.rng, 16, 2);
        let ds = DatasetBase::from(x);
        let bad_ds = degenerate(&ds, c.idx);
        let seed = c.rng.gen::<u64>();
        let c_idx = c.idx;
        type P<F> = GmmParams<F, TripRng>;
        let make_t = || -> (P<F>, Box<dyn Fn() -> u64>) {
            let r = TripRng::new(seed);
            let r2 = r.clone();
            // two construction orders: generator first, or every setter first and the generator
            // swapped in last (`with_rng` rebuilds the parameter set and must carry every value over)
            let p = if c_idx % 2 == 0 {
                GaussianMixtureModel::params_with_rng(k, r)
                    .tolerance(F::of(tol))
                    .reg_covariance(F::of(reg))
                    .n_runs(runs)
                    .max_n_iterations(iters)
                    .init_method(init)
            } else {
                GaussianMixtureModel::params(k)
                    .tolerance(F::of(tol))
                    .reg_covariance(F::of(reg))
                    .n_runs(runs)
                    .max_n_iterations(iters)
                    .init_method(init)
                    .with_rng(r)
            };
            (p, Box::new(move || r2.hits()))
        };
        let make = || make_t().0;
        let chk = tri!(judge_check(
            c, b, &exp, &make,
            &|p| format!("{p:?}"),
            &|ch| format!("{ch:?}"),
            true,
            &|ch| {
                ueq("n_clusters", ch.n_clusters(), k)?;
                feq("tolerance", ch.tolerance(), tol)?;
                feq("reg_covar", ch.reg_covariance(), reg)?;
                ueq("n_runs", ch.n_runs(), runs)?;
                ueq("max_n_iter", ch.max_n_iterations(), iters)?;
                ueq("init", *ch.init_method(), init)
            },
        ));
        let run_valid = pt.fit_ok();
        tri!(judge_entry::<P<F>, GaussianMixtureModel<F>, GmmError>(
            c, b, "fit", &chk, &make_t,
            &|p| p.fit(&ds),
            &|p| p.fit(&ds),
            &eq_any, run_valid,
        ));
        if !chk.ok {
            tri!(judge_invalid::<P<F>, GaussianMixtureModel<F>, GmmError>(
                c, b, "fit", "-with-degenerate-data", &chk, &make_t,
                &|p| p.fit(&bad_ds),
            ));
        }
        finish(c, b, pt, &exp)
    });
}


// ---- elastic net (single / multi task) --------------------------------------------------------

/// parameter table of `ElasticNetParams`: penalty `[0, inf)`, l1_ratio `[0.0, 1.0]`, tolerance
/// `(0, inf)` in the table but "InvalidTolerance if the tolerance is negative" (0 unspecified),
/// max_iterations `[1, inf)`
fn enet_axes<F: Fl>() -> Vec<Ax> {
    vec![
        ax("penalty", lo_closed::<F>(0.0, Acc, &[1e-2, 1.0], true)),
        ax("l1_ratio", unit_closed::<F>(&[0.5])),
        ax("tolerance", lo_closed::<F>(0.0, Unspec, &[1e-4], false)),
        ax(
            "max_iterations",
            vec![
                gu(0, Rej, "just-below-min", false),
                gu(1, Acc, "at-min", true),
                gu(2, Acc, "just-inside", true),
                gu(200, Acc, "inside", true),
                gu(u32::MAX as u64, Acc, "huge", false),
            ],
        ),
        ax("with_intercept", choice(2)),
    ]
}

fn enet<F: Fl>(ctx: &Ctx, fam: &'static str) {
    use linfa_elasticnet::{ElasticNet, ElasticNetError, ElasticNetParams};
    run_plan(ctx, fam, enet_axes::<F>(), |c, pt| {
        let b = "elasticnet";
        let exp = Expect::all(pt);
        start(c, b, pt, &exp);
        let (pen, l1, tol, it, ic) = (
            pt.f("penalty"), pt.f("l1_ratio"), pt.f("tolerance"), pt.u("max_iterations") as u32,
            pt.u("with_intercept") == 1,
        );
        let x: Array2<F> = blobs2(&mut c.rng, 10, 3);
        let y: Array1<F> = Array1::from_shape_fn(10, |i| x[[i, 0]] * F::of(1.5) - x[[i, 2]] + F::of(0.1 * crate::gen::normal(&mut c.rng)));
        let ds = Dataset::new(x, y);
        let bad_ds = degenerate(&ds, c.idx);
        type P<F> = ElasticNetParams<F>;
        let make = || -> P<F> {
            ElasticNet::params()
                .penalty(F::of(pen))
                .l1_ratio(F::of(l1))
                .tolerance(F::of(tol))
                .max_iterations(it)
                .with_intercept(ic)
        };
        let make_t = || (make(), no_trip());
        let chk = tri!(judge_check(
            c, b, &exp, &make,
            &|p| format!("{p:?}"),
            &|ch| format!("{ch:?}"),
            true,
            &|ch| {
                feq("penalty", ch.penalty(), pen)?;
                feq("l1_ratio", ch.l1_ratio(), l1)?;
                feq("tolerance", ch.tolerance(), tol)?;
                ueq("max_iterations", ch.max_iterations(), it)?;
                ueq("with_intercept", ch.with_intercept(), ic)
            },
        ));
        let run_valid = pt.fit_ok();
        tri!(judge_entry::<P<F>, ElasticNet<F>, ElasticNetError>(
            c, b, "fit", &chk, &make_t,
            &|p| p.fit(&ds),
            &|p| p.fit(&ds),
            &eq_dbg, run_valid,
        ));
        if !chk.ok {
            tri!(judge_invalid::<P<F>, ElasticNet<F>, ElasticNetError>(
                c, b, "fit", "-with-degenerate-data", &chk, &make_t,
                &|p| p.fit(&bad_ds),
            ));
        }
        finish(c, b, pt, &exp)
    });
}

fn enet_multi<F: Fl>(ctx: &Ctx, fam: &'static str) {
    use linfa_elasticnet::{ElasticNetError, MultiTaskElasticNet, MultiTaskElasticNetParams};
    run_plan(ctx, fam, enet_axes::<F>(), |c, pt| {
        let b = "elasticnet-multitask";
        let exp = Expect::all(pt);
        start(c, b, pt, &exp);
        let (pen, l1, tol, it, ic) = (
            pt.f("penalty"), pt.f("l1_ratio"), pt.f("tolerance"), pt.u("max_iterations") as u32,
            pt.u("with_intercept") == 1,
        );
        let x: Array2<F> = blobs2(&mut c.rng, 10, 3);
        let y: Array2<F> = Array2::from_shape_fn((10, 2), |(i, t)| x[[i, t]] * F::of(1.5) - x[[i, 2]] + F::of(0.1 * crate::gen::normal(&mut c.rng)));
        let ds = Dataset::new(x, y);
        let bad_ds = degenerate(&ds, c.idx);
        type P<F> = MultiTaskElasticNetParams<F>;
        let make = || -> P<F> {
            MultiTaskElasticNet::params()
                .penalty(F::of(pen))
                .l1_ratio(F::of(l1))
                .tolerance(F::of(tol))
                .max_iterations(it)
                .with_intercept(ic)
        };
        let make_t = || (make(), no_trip());
        let chk = tri!(judge_check(
            c, b, &exp, &make,
            &|p| format!("{p:?}"),
            &|ch| format!("{ch:?}"),
            true,
            &|ch| {
                feq("penalty", ch.penalty(), pen)?;
                feq("l1_ratio", ch.l1_ratio(), l1)?;
                feq("tolerance", ch.tolerance(), tol)?;
                ueq("max_iterations", ch.max_iterations(), it)?;
                ueq("with_intercept", ch.with_intercept(), ic)
            },
        ));
        let run_valid = pt.fit_ok();
        tri!(judge_entry::<P<F>, MultiTaskElasticNet<F>, ElasticNetError>(
            c, b, "fit", &chk, &make_t,
            &|p| p.fit(&ds),
            &|p| p.fit(&ds),
            &eq_dbg, run_valid,
        ));
        if !chk.ok {
            tri!(judge_invalid::<P<F>, MultiTaskElasticNet<F>, ElasticNetError>(
                c, b, "fit", "-with-degenerate-data", &chk, &make_t,
                &|p| p.fit(&bad_ds),
            ));
        }
        finish(c, b, pt, &exp)
    });
}

// ---- logistic regression (binomial / multinomial) --------------------------------------------

/// documented only through the error texts: "alpha must be a positive, finite number" (the guard
/// accepts 0 = no regularisation: boundary unspecified), "gradient_tolerance must be a positive,
/// finite number"; max_iterations has no documented range.
fn logistic_axes<F: Fl>() -> Vec<Ax> {
    vec![
        ax("alpha", lo_closed::<F>(0.0, Unspec, &[1e-2, 1.0], false)),
        ax("gradient_tolerance", lo_open::<F>(0.0, &[1e-4, 1e-1])),
        ax("max_iterations", free_u(&[1, 30])),
        ax("fit_intercept", choice(2)),
        ax("initial_params", choice(2)),
    ]
}

macro_rules! logistic_impl {
    ($name:ident, $F:ty, $multi:expr) => {
        fn $name(ctx: &Ctx, fam: &'static str) {
            use linfa_logistic::error::Error;
            type F = $F;
            run_plan(ctx, fam, logistic_axes::<F>(), |c, pt| {
                let b = if $multi { "logistic-multinomial" } else { "logistic" };
                let exp = Expect::all(pt);
                start(c, b, pt, &exp);
                let (alpha, gt, it, ic, ip) = (
                    pt.f("alpha"), pt.f("gradient_tolerance"), pt.u("max_iterations"),
                    pt.u("fit_intercept") == 1, pt.u("initial_params") == 1,
                );
                let n = 12;
                let x: Array2<F> = blobs2(&mut c.rng, n, 2);
                let ncls = if $multi { 3 } else { 2 };
                let y: Array1<usize> = Array1::from_shape_fn(n, |i| if $multi { i % 3 } else { i % 2 });
                let ds = Dataset::new(x, y);
                let bad_ds = degenerate(&ds, c.idx);
                let rows = 2 + ic as usize;
                let run_valid = pt.fit_ok();
                if $multi {
                    type P = linfa_logistic::MultiLogisticRegression<F>;
                    let make = || -> P {
                        let mut p = P::new()
                            .alpha(<F as Fl>::of(alpha))
                            .gradient_tolerance(<F as Fl>::of(gt))
                            .max_iterations(it)
                            .with_intercept(ic);
                        if ip {
                            p = p.initial_params(Array2::zeros((rows, ncls)));
                        }
                        p
                    };
                    let make_t = || (make(), no_trip());
                    let chk = tri!(judge_check(
                        c, b, &exp, &make,
                        &|p| format!("{p:?}"),
                        &|ch| format!("{ch:?}"),
                        true,
                        &|_| Ok(()),
                    ));
                    tri!(judge_entry::<P, linfa_logistic::MultiFittedLogisticRegression<F, usize>, Error>(
                        c, b, "fit", &chk, &make_t,
                        &|p| p.fit(&ds),
                        &|p| p.fit(&ds),
                        &eq_any, run_valid,
                    ));
                    if !chk.ok {
                        tri!(judge_invalid::<P, linfa_logistic::MultiFittedLogisticRegression<F, usize>, Error>(
                            c, b, "fit", "-with-degenerate-data", &chk, &make_t,
                            &|p| p.fit(&bad_ds),
                        ));
                    }
                } else {
                    type P = linfa_logistic::LogisticRegression<F>;
                    let make = || -> P {
                        let mut p = P::new()
                            .alpha(<F as Fl>::of(alpha))
                            .gradient_tolerance(<F as Fl>::of(gt))
                            .max_iterations(it)
                            .with_intercept(ic);
                        if ip {
                            p = p.initial_params(Array1::zeros(rows));
                        }
                        p
                    };
                    let make_t = || (make(), no_trip());
                    let chk = tri!(judge_check(
                        c, b, &exp, &make,
                        &|p| format!("{p:?}"),
                        &|ch| format!("{ch:?}"),
                        true,
                        &|_| Ok(()),
                    ));
                    tri!(judge_entry::<P, linfa_logistic::FittedLogisticRegression<F, usize>, Error>(
                        c, b, "fit", &chk, &make_t,
                        &|p| p.fit(&ds),
                        &|p| p.fit(&ds),
                        &eq_any, run_valid,
                    ));
                    if !chk.ok {
                        tri!(judge_invalid::<P, linfa_logistic::FittedLogisticRegression<F, usize>, Error>(
                            c, b, "fit", "-with-degenerate-data", &chk, &make_t,
                            &|p| p.fit(&bad_ds),
                        ));
                    }
                }
                finish(c, b, pt, &exp)
            });
        }
    };
}
logistic_impl!(logistic_f64, f64, false);
logistic_impl!(logistic_f32, f32, false);
logistic_impl!(logistic_multi_f64, f64, true);
logistic_impl!(logistic_multi_f32, f32, true);

// ---- Tweedie GLM ---------------------------------------------------------------------------------

/// documented: alpha — "`alpha` set to 0 is equivalent to unpenalized GLM", error "penalty should
/// be positive"; power — "No distribution exists between 0 and 1", error "tweedie distribution
/// power should not be in (0, 1)"; max_iter / tol: no documented range.
fn tweedie_axes<F: Fl>() -> Vec<Ax> {
    vec![
        ax("alpha", lo_closed::<F>(0.0, Acc, &[1e-2, 1.0], true)),
        ax(
            "power",
            vec![
                gf(-F::huge(), Acc, "far-below-0", false),
                gf(-1.0, Acc, "below-0", false),
                gf(F::down64(0.0), Acc, "just-below-0", false),
                gf(0.0, Acc, "at-0", true),
                gf(F::up64(0.0), Rej, "just-inside-(0,1)", false),
                gf(0.5, Rej, "inside-(0,1)", false),
                gf(F::down64(1.0), Rej, "just-below-1", false),
                gf(1.0, Acc, "at-1", true),
                gf(F::up64(1.0), Acc, "just-above-1", false),
                gf(1.5, Acc, "compound-poisson", true),
                gf(2.0, Acc, "gamma", true),
                gf(3.0, Acc, "inverse-gaussian", true),
                gf(F::huge(), Acc, "huge", false),
            ],
        ),
        ax("max_iter", free_u(&[1, 40])),
        ax("tol", free_f(&[1e-4, 1e-1])),
        ax("fit_intercept", choice(2)),
        ax("link", choice(2)),
    ]
}

macro_rules! tweedie_impl {
    ($name:ident, $F:ty) => {
        fn $name(ctx: &Ctx, fam: &'static str) {
            use linfa_linear::{LinearError, Link, TweedieRegressor, TweedieRegressorParams};
            type F = $F;
            run_plan(ctx, fam, tweedie_axes::<F>(), |c, pt| {
                let b = "tweedie";
                let exp = Expect::all(pt);
                start(c, b, pt, &exp);
                let (alpha, power, it, tol, ic, link) = (
                    pt.f("alpha"), pt.f("power"), pt.uz("max_iter"), pt.f("tol"),
                    pt.u("fit_intercept") == 1, pt.u("link") == 1,
                );
                let n = 12;
                let x: Array2<F> = blobs2(&mut c.rng, n, 2);
                // strictly positive targets: inside the support of every Tweedie distribution
                let y: Array1<F> = Array1::from_shape_fn(n, |i| {
                    <F as Fl>::of((0.2 * x[[i, 0]].to64() + 1.5 + 0.2 * crate::gen::normal(&mut c.rng)).abs() + 0.1)
                });
                let ds = Dataset::new(x, y);
                let bad_ds = degenerate(&ds, c.idx);
                type P = TweedieRegressorParams<F>;
                let make = || -> P {
                    let p = TweedieRegressor::params()
                        .alpha(<F as Fl>::of(alpha))
                        .power(<F as Fl>::of(power))
                        .max_iter(it)
                        .tol(<F as Fl>::of(tol))
                        .fit_intercept(ic);
                    if link { p.link(Link::Log) } else { p }
                };
                let make_t = || (make(), no_trip());
                let chk = tri!(judge_check(
                    c, b, &exp, &make,
                    &|p| format!("{p:?}"),
                    &|ch| format!("{ch:?}"),
                    true,
                    &|ch| {
                        feq("alpha", ch.alpha(), alpha)?;
                        feq("power", ch.power(), power)?;
                        ueq("max_iter", ch.max_iter(), it)?;
                        feq("tol", ch.tol(), tol)?;
                        ueq("fit_intercept", ch.fit_intercept(), ic)
                    },
                ));
                let run_valid = pt.fit_ok();
                tri!(judge_entry::<P, TweedieRegressor<F>, LinearError<F>>(
                    c, b, "fit", &chk, &make_t,
                    &|p| p.fit(&ds),
                    &|p| p.fit(&ds),
                    &eq_any, run_valid,
                ));
                if !chk.ok {
                    tri!(judge_invalid::<P, TweedieRegressor<F>, LinearError<F>>(
                        c, b, "fit", "-with-degenerate-data", &chk, &make_t,
                        &|p| p.fit(&bad_ds),
                    ));
                }
                finish(c, b, pt, &exp)
            });
        }
    };
}
tweedie_impl!(tweedie_f64, f64);
tweedie_impl!(tweedie_f32, f32);


// ---- Platt scaling (stand-alone and nested in SVM) ----------------------------------------

/// documented through the error texts: "maxiter should be larger than zero", "minstep should be
/// positive", "sigma should be positive" (the guards accept 0: boundary unspecified)
fn platt_axes<F: Fl>(full: bool) -> Vec<Ax> {
    if full {
        vec![
            ax("platt_maxiter", count_min(1, &[100], Some(usize::MAX as u64))),
            ax("platt_minstep", lo_closed::<F>(0.0, Unspec, &[1e-10, 1e-3], false)),
            ax("platt_sigma", lo_closed::<F>(0.0, Unspec, &[1e-12, 1e-3], false)),
        ]
    } else {
        vec![
            ax("platt_maxiter", vec![gu(0, Rej, "just-below-min", false), gu(1, Acc, "at-min", true), gu(100, Acc, "inside", true)]),
            ax("platt_minstep", vec![
                gf(-1.0, Rej, "below", false),
                gf(F::down64(0.0), Rej, "just-below", false),
                gf(0.0, Unspec, "at-closed-bound", false),
                gf(1e-10, Acc, "inside", true),
            ]),
            ax("platt_sigma", vec![
                gf(-1.0, Rej, "below", false),
                gf(F::down64(0.0), Rej, "just-below", false),
                gf(0.0, Unspec, "at-closed-bound", false),
                gf(1e-12, Acc, "inside", true),
            ]),
        ]
    }
}

/// a fixed scorer used as the model that Platt scaling calibrates
#[derive(Clone, Debug, PartialEq)]
struct Scorer<F>(F);
impl<F: linfa::Float> linfa::traits::PredictInplace<Array2<F>, Array1<F>> for Scorer<F> {
    fn predict_inplace(&self, x: &Array2<F>, y: &mut Array1<F>) {
        for (r, t) in x.outer_iter().zip(y.iter_mut()) {
            *t = r[0] * self.0;
        }
    }
    fn default_target(&self, x: &Array2<F>) -> Array1<F> {
        Array1::zeros(x.nrows())
    }
}

fn platt<F: Fl>(ctx: &Ctx, fam: &'static str) {
    use linfa::composing::platt_scaling::{Platt, PlattError, PlattParams};
    run_plan(ctx, fam, platt_axes::<F>(true), |c, pt| {
        let b = "platt";
        let exp = Expect::all(pt);
        start(c, b, pt, &exp);
        let (mi, ms, sg) = (pt.uz("platt_maxiter"), pt.f("platt_minstep"), pt.f("platt_sigma"));
        let n = 12;
        let mut x: Array2<F> = blobs2(&mut c.rng, n, 2);
        // overlapping classes: the calibration problem has a finite optimum
        x[[0, 0]] = F::of(1.0);
        x[[1, 0]] = F::of(-1.0);
        let y: Array1<bool> = Array1::from_shape_fn(n, |i| i % 2 == 1);
        let ds = DatasetBase::new(x, y);
        let bad_ds = degenerate(&ds, c.idx);
        type P<F> = PlattParams<F, Scorer<F>>;
        let make = || -> P<F> { Platt::params().maxiter(mi).minstep(F::of(ms)).sigma(F::of(sg)) };
        let make_t = || (make(), no_trip());
        let chk = tri!(judge_check(
            c, b, &exp, &make,
            &|p| format!("{p:?}"),
            &|ch| format!("{ch:?}"),
            true,
            &|_| Ok(()),
        ));
        tri!(judge_entry::<P<F>, Platt<F, Scorer<F>>, PlattError>(
            c, b, "fit_with", &chk, &make_t,
            &|p| p.fit_with(Scorer(F::of(1.0)), &ds),
            &|p| p.fit_with(Scorer(F::of(1.0)), &ds),
            &eq_any, pt.fit_ok(),
        ));
        if !chk.ok {
            tri!(judge_invalid::<P<F>, Platt<F, Scorer<F>>, PlattError>(
                c, b, "fit_with", "-with-degenerate-data", &chk, &make_t,
                &|p| p.fit_with(Scorer(F::of(1.0)), &bad_ds),
            ));
        }
        finish(c, b, pt, &exp)
    });
}

// ---- SVM ------------------------------------------------------------------------------------

/// crate docs: "C ... should be in the interval (0, inf)", "Nu ... should be in the interval
/// (0, 1]"; `nu_weight`: "The Nu value should lie in range [0, 1]" (0 unspecified); solver eps:
/// only `InvalidEps` (negative rejected; 0 unspecified); loss epsilon of `c_svr`: no documented
/// range (non-positive values unspecified).
fn svm_c_grid<F: Fl>() -> Vec<G> {
    lo_open::<F>(0.0, &[1.0])
}
fn svm_nu_grid<F: Fl>() -> Vec<G> {
    vec![
        gf(-F::huge(), Rej, "far-below", false),
        gf(-1.0, Rej, "below", false),
        gf(F::down64(0.0), Rej, "just-below", false),
        gf(-0.0, Unspec, "neg-zero", false),
        gf(0.0, Unspec, "at-lower", false),
        gf(F::up64(0.0), Acc, "just-inside-lower", false),
        gf(0.5, Acc, "inside", true),
        gf(F::down64(1.0), Acc, "just-inside-upper", false),
        gf(1.0, Acc, "at-upper", false),
        gf(F::up64(1.0), Rej, "just-above", false),
        gf(2.0, Rej, "above", false),
        gf(F::huge(), Rej, "far-above", false),
    ]
}
fn svm_eps_grid<F: Fl>() -> Vec<G> {
    vec![
        gf(-F::huge(), Rej, "far-below", false),
        gf(-1.0, Rej, "below", false),
        gf(F::down64(0.0), Rej, "just-below", false),
        gf(-0.0, Unspec, "neg-zero", false),
        gf(0.0, Unspec, "at-zero", false),
        gf(F::up64(0.0), Acc, "just-inside", false),
        gf(1e-3, Acc, "inside", true),
        gf(F::huge(), Acc, "huge", false),
    ]
}
fn svm_loss_eps_grid<F: Fl>() -> Vec<G> {
    vec![
        gf(-1.0, Unspec, "below", false),
        gf(0.0, Unspec, "at-zero", false),
        gf(F::up64(0.0), Acc, "just-inside", false),
        gf(0.1, Acc, "inside", true),
    ]
}

fn svm_common<F: Fl>(full_platt: bool, mut v: Vec<Ax>) -> Vec<Ax> {
    v.push(ax("eps", svm_eps_grid::<F>()));
    v.extend(platt_axes::<F>(full_platt));
    v.push(ax("kernel", choice(2)));
    v
}

fn svm_build<F: Fl, T>(pt: &Pt) -> linfa_svm::SvmParams<F, T> {
    use linfa::composing::platt_scaling::Platt;
    let p = linfa_svm::Svm::<F, T>::params()
        .eps(F::of(pt.f("eps")))
        .with_platt_params(
            Platt::params()
                .maxiter(pt.uz("platt_maxiter"))
                .minstep(F::of(pt.f("platt_minstep")))
                .sigma(F::of(pt.f("platt_sigma"))),
        );
    if pt.u("kernel") == 1 {
        p.gaussian_kernel(F::of(5.0))
    } else {
        p.linear_kernel()
    }
}

fn svm_getters<F: Fl, T>(ch: &linfa_svm::SvmValidParams<F, T>, pt: &Pt, c: Option<(f64, f64)>, nu: Option<(f64, f64)>) -> Result<(), String> {
    feq("eps", ch.solver_params().eps, pt.f("eps"))?;
    let pair = |name: &str, got: Option<(F, F)>, want: Option<(f64, f64)>| -> Result<(), String> {
        match (got, want) {
            (None, None) => Ok(()),
            (Some(g), Some(w)) => {
                feq(name, g.0, w.0)?;
                feq(name, g.1, w.1)
            }
            (g, w) => Err(format!("{name}: getter returns {g:?}, value set was {w:?}")),
        }
    };
    pair("c", ch.c(), c)?;
    pair("nu", ch.nu(), nu)
}

/// binary classification, decision (`bool`) and probability (`Pr`) models, C and Nu forms
fn svm_classify<F: Fl>(ctx: &Ctx, fam: &'static str, use_nu: bool, full_platt: bool) {
    use linfa_svm::{Svm, SvmError, SvmParams};
    let mut axes = if use_nu {
        vec![ax("nu", svm_nu_grid::<F>())]
    } else {
        vec![ax("c_pos", svm_c_grid::<F>()), ax("c_neg", svm_c_grid::<F>())]
    };
    axes.push(ax("target", choice(2)));
    run_plan(ctx, fam, svm_common::<F>(full_platt, axes), move |c, pt| {
        let b = if use_nu { "svm-nu-classification" } else { "svm-c-classification" };
        let exp = Expect::all(pt);
        start(c, b, pt, &exp);
        let n = 12;
        let mut x: Array2<F> = blobs2(&mut c.rng, n, 2);
        x[[0, 0]] = F::of(1.0);
        x[[1, 0]] = F::of(-1.0);
        let y: Array1<bool> = Array1::from_shape_fn(n, |i| i % 2 == 1);
        let ds = DatasetBase::new(x, y);
        let bad_ds = degenerate(&ds, c.idx);
        let (cs, nus) = if use_nu {
            (None, Some((pt.f("nu"), pt.f("nu"))))
        } else {
            (Some((pt.f("c_pos"), pt.f("c_neg"))), None)
        };
        let run_valid = pt.fit_ok();
        macro_rules! go {
            ($T:ty) => {{
                type P<F> = SvmParams<F, $T>;
                let make = || -> P<F> {
                    let p = svm_build::<F, $T>(pt);
                    if use_nu {
                        p.nu_weight(F::of(pt.f("nu")))
                    } else {
                        p.pos_neg_weights(F::of(pt.f("c_pos")), F::of(pt.f("c_neg")))
                    }
                };
                let make_t = || (make(), no_trip());
                let chk = tri!(judge_check(
                    c, b, &exp, &make,
                    &|p| format!("{p:?}"),
                    &|ch| format!("{ch:?}"),
                    true,
                    &|ch| svm_getters(ch, pt, cs, nus),
                ));
                tri!(judge_entry::<P<F>, Svm<F, $T>, SvmError>(
                    c, b, "fit", &chk, &make_t,
                    &|p| p.fit(&ds),
                    &|p| p.fit(&ds),
                    &eq_any, run_valid,
                ));
                if !chk.ok {
                    tri!(judge_invalid::<P<F>, Svm<F, $T>, SvmError>(
                        c, b, "fit", "-with-degenerate-data", &chk, &make_t,
                        &|p| p.fit(&bad_ds),
                    ));
                }
            }};
        }
        if pt.u("target") == 0 {
            go!(bool)
        } else {
            go!(Pr)
        }
        finish(c, b, pt, &exp)
    });
}

fn svm_oneclass<F: Fl>(ctx: &Ctx, fam: &'static str, full_platt: bool) {
    use linfa_svm::{Svm, SvmError, SvmParams};
    let axes = vec![ax("nu", svm_nu_grid::<F>())];
    run_plan(ctx, fam, svm_common::<F>(full_platt, axes), |c, pt| {
        let b = "svm-one-class";
        let exp = Expect::all(pt);
        start(c, b, pt, &exp);
        let n = 12;
        let x: Array2<F> = blobs2(&mut c.rng, n, 2);
        let ds = DatasetBase::new(x, Array1::from_elem(n, ()));
        let bad_ds = degenerate(&ds, c.idx);
        type P<F> = SvmParams<F, Pr>;
        let make = || -> P<F> { svm_build::<F, Pr>(pt).nu_weight(F::of(pt.f("nu"))) };
        let make_t = || (make(), no_trip());
        let nus = Some((pt.f("nu"), pt.f("nu")));
        let chk = tri!(judge_check(
            c, b, &exp, &make,
            &|p| format!("{p:?}"),
            &|ch| format!("{ch:?}"),
            true,
            &|ch| svm_getters(ch, pt, None, nus),
        ));
        let run_valid = pt.fit_ok();
        tri!(judge_entry::<P<F>, Svm<F, bool>, SvmError>(
            c, b, "fit", &chk, &make_t,
            &|p| p.fit(&ds),
            &|p| p.fit(&ds),
            &eq_any, run_valid,
        ));
        if !chk.ok {
            tri!(judge_invalid::<P<F>, Svm<F, bool>, SvmError>(
                c, b, "fit", "-with-degenerate-data", &chk, &make_t,
                &|p| p.fit(&bad_ds),
            ));
        }
        finish(c, b, pt, &exp)
    });
}

macro_rules! svm_regress_impl {
    ($name:ident, $F:ty) => {
        fn $name(ctx: &Ctx, fam: &'static str, use_nu: bool, full_platt: bool) {
            use linfa_svm::{Svm, SvmError, SvmParams};
            type F = $F;
            let mut axes = if use_nu {
                vec![ax("nu", svm_nu_grid::<F>()), ax("c", svm_c_grid::<F>())]
            } else {
                vec![ax("c", svm_c_grid::<F>()), ax("loss_eps", svm_loss_eps_grid::<F>())]
            };
            // 0: c_svr / nu_svr, 1: the deprecated c_eps / nu_eps (loss epsilon 0.1, C = 1 fixed)
            axes.push(ax("setter", choice(2)));
            run_plan(ctx, fam, svm_common::<F>(full_platt, axes), move |c, pt| {
                let b = if use_nu { "svm-nu-regression" } else { "svm-eps-regression" };
                let deprecated = pt.u("setter") == 1;
                let inactive = if !deprecated { "" } else if use_nu { "c" } else { "loss_eps" };
                let exp = Expect::of(pt, &|name| name != inactive);
                start(c, b, pt, &exp);
                let n = 12;
                let x: Array2<F> = blobs2(&mut c.rng, n, 2);
                let y: Array1<F> = Array1::from_shape_fn(n, |i| x[[i, 0]] * 0.5 + <F as Fl>::of(0.1 * crate::gen::normal(&mut c.rng)));
                let ds = DatasetBase::new(x, y);
                let bad_ds = degenerate(&ds, c.idx);
                type P = SvmParams<F, F>;
                #[allow(deprecated)]
                let make = || -> P {
                    let p = svm_build::<F, F>(pt);
                    match (use_nu, deprecated) {
                        (true, false) => p.nu_svr(<F as Fl>::of(pt.f("nu")), Some(<F as Fl>::of(pt.f("c")))),
                        (true, true) => p.nu_eps(<F as Fl>::of(pt.f("nu")), <F as Fl>::of(pt.f("eps"))),
                        (false, false) => p.c_svr(<F as Fl>::of(pt.f("c")), Some(<F as Fl>::of(pt.f("loss_eps")))),
                        (false, true) => p.c_eps(<F as Fl>::of(pt.f("c")), <F as Fl>::of(pt.f("eps"))),
                    }
                };
                let make_t = || (make(), no_trip());
                let (cs, nus) = match (use_nu, deprecated) {
                    (true, false) => (None, Some((pt.f("nu"), pt.f("c")))),
                    (true, true) => (None, Some((pt.f("nu"), 1.0))),
                    (false, false) => (Some((pt.f("c"), pt.f("loss_eps"))), None),
                    (false, true) => (Some((pt.f("c"), 0.1)), None),
                };
                let chk = tri!(judge_check(
                    c, b, &exp, &make,
                    &|p| format!("{p:?}"),
                    &|ch| format!("{ch:?}"),
                    true,
                    &|ch| svm_getters(ch, pt, cs, nus),
                ));
                let run_valid = pt.fit_ok();
                tri!(judge_entry::<P, Svm<F, F>, SvmError>(
                    c, b, "fit", &chk, &make_t,
                    &|p| p.fit(&ds),
                    &|p| p.fit(&ds),
                    &eq_any, run_valid,
                ));
                if !chk.ok {
                    tri!(judge_invalid::<P, Svm<F, F>, SvmError>(
                        c, b, "fit", "-with-degenerate-data", &chk, &make_t,
                        &|p| p.fit(&bad_ds),
                    ));
                }
                finish(c, b, pt, &exp)
            });
        }
    };
}
svm_regress_impl!(svm_regress_f64, f64);
svm_regress_impl!(svm_regress_f32, f32);


// ---- decision tree ----------------------------------------------------------------------------

/// documented through the error text only: "Minimum impurity decrease should be greater than
/// zero"; the guard rejects everything below the machine epsilon of F, so the open interval
/// (0, eps) is documented as valid yet rejected: treated as unspecified (reported in the notes).
/// max_depth / min_weight_split / min_weight_leaf have no documented range.
fn tree<F: Fl>(ctx: &Ctx, fam: &'static str) {
    use linfa_trees::{DecisionTree, DecisionTreeParams, SplitQuality};
    let e = F::eps();
    let axes = vec![
        ax(
            "min_impurity_decrease",
            vec![
                gf(-F::huge(), Rej, "far-below", false),
                gf(-1.0, Rej, "below", false),
                gf(F::down64(0.0), Rej, "just-below", false),
                gf(-0.0, Rej, "neg-zero-at-open-bound", false),
                gf(0.0, Rej, "at-open-bound", false),
                gf(F::up64(0.0), Unspec, "positive-below-epsilon", false),
                gf(e / 2.0, Unspec, "positive-below-epsilon", false),
                gf(F::down64(e), Unspec, "positive-below-epsilon", false),
                gf(e, Acc, "at-epsilon", true),
                gf(F::up64(e), Acc, "just-above-epsilon", true),
                gf(1e-5, Acc, "inside", true),
                gf(0.1, Acc, "inside", true),
                gf(F::huge(), Acc, "huge", true),
            ],
        ),
        ax("max_depth", free_u(&[0, 1, 5])),
        ax("min_weight_split", free_f(&[2.0, 5.0])),
        ax("min_weight_leaf", free_f(&[1.0, 2.0])),
        ax("split_quality", choice(2)),
    ];
    run_plan(ctx, fam, axes, |c, pt| {
        let b = "decision-tree";
        let exp = Expect::all(pt);
        start(c, b, pt, &exp);
        let (mid, md, ws, wl, sq) = (
            pt.f("min_impurity_decrease"), pt.uz("max_depth"), pt.f("min_weight_split") as f32,
            pt.f("min_weight_leaf") as f32, pt.u("split_quality"),
        );
        let md = if md == 0 { None } else { Some(md) };
        let sq = if sq == 0 { SplitQuality::Gini } else { SplitQuality::Entropy };
        // two classes (sums of two f32 terms are order independent), separable on feature 0,
        // unequal class sizes: the fitted tree does not depend on hash-map iteration order
        let n = 13;
        let x: Array2<F> = Array2::from_shape_fn((n, 2), |(i, j)| {
            let centre = if i % 2 == 0 { -2.0 } else { 2.0 };
            F::of(if j == 0 { centre + 0.3 * crate::gen::normal(&mut c.rng) } else { crate::gen::normal(&mut c.rng) })
        });
        let y: Array1<usize> = Array1::from_shape_fn(n, |i| i % 2);
        let ds = Dataset::new(x, y);
        let bad_ds = degenerate(&ds, c.idx);
        type P<F> = DecisionTreeParams<F, usize>;
        let make = || -> P<F> {
            DecisionTree::params()
                .min_impurity_decrease(F::of(mid))
                .max_depth(md)
                .min_weight_split(ws)
                .min_weight_leaf(wl)
                .split_quality(sq)
        };
        let make_t = || (make(), no_trip());
        let chk = tri!(judge_check(
            c, b, &exp, &make,
            &|p| format!("{p:?}"),
            &|ch| format!("{ch:?}"),
            true,
            &|ch| {
                feq("min_impurity_decrease", ch.min_impurity_decrease(), mid)?;
                ueq("max_depth", ch.max_depth(), md)?;
                ueq("min_weight_split", ch.min_weight_split(), ws)?;
                ueq("min_weight_leaf", ch.min_weight_leaf(), wl)?;
                ueq("split_quality", ch.split_quality(), sq)
            },
        ));
        tri!(judge_entry::<P<F>, DecisionTree<F, usize>, linfa::Error>(
            c, b, "fit", &chk, &make_t,
            &|p| p.fit(&ds),
            &|p| p.fit(&ds),
            &eq_any, pt.fit_ok(),
        ));
        if !chk.ok {
            tri!(judge_invalid::<P<F>, DecisionTree<F, usize>, linfa::Error>(
                c, b, "fit", "-with-degenerate-data", &chk, &make_t,
                &|p| p.fit(&bad_ds),
            ));
        }
        finish(c, b, pt, &exp)
    });
}

// ---- naive Bayes ------------------------------------------------------------------------------

/// parameter tables: var_smoothing `[0, inf)`, alpha `[0, inf)`; "InvalidSmoothing if the smoothing
/// parameter is negative"
fn gaussian_nb<F: Fl>(ctx: &Ctx, fam: &'static str) {
    use linfa_bayes::{GaussianNb, GaussianNbParams, NaiveBayesError};
    let axes = vec![ax("var_smoothing", lo_closed::<F>(0.0, Acc, &[1e-9, 1e-2, 10.0], true))];
    run_plan(ctx, fam, axes, |c, pt| {
        let b = "gaussian-nb";
        let exp = Expect::all(pt);
        start(c, b, pt, &exp);
        let vs = pt.f("var_smoothing");
        let n = 12;
        let x: Array2<F> = blobs2(&mut c.rng, n, 2);
        let y: Array1<usize> = Array1::from_shape_fn(n, |i| i % 2);
        let ds = Dataset::new(x, y);
        let bad_ds = degenerate(&ds, c.idx);
        type P<F> = GaussianNbParams<F, usize>;
        let make = || -> P<F> { GaussianNb::params().var_smoothing(F::of(vs)) };
        let make_t = || (make(), no_trip());
        let chk = tri!(judge_check(
            c, b, &exp, &make,
            &|p| format!("{p:?}"),
            &|ch| format!("{ch:?}"),
            true,
            &|ch| feq("var_smoothing", ch.var_smoothing(), vs),
        ));
        tri!(judge_entry::<P<F>, GaussianNb<F, usize>, NaiveBayesError>(
            c, b, "fit", &chk, &make_t,
            &|p| p.fit(&ds),
            &|p| p.fit(&ds),
            &eq_any, true,
        ));
        if !chk.ok {
            tri!(judge_invalid::<P<F>, GaussianNb<F, usize>, NaiveBayesError>(
                c, b, "fit", "-with-degenerate-data", &chk, &make_t,
                &|p| p.fit(&bad_ds),
            ));
        }
        tri!(judge_entry::<P<F>, Option<GaussianNb<F, usize>>, NaiveBayesError>(
            c, b, "fit_with", &chk, &make_t,
            &|p| p.fit_with(None, &ds),
            &|p| p.fit_with(None, &ds),
            &eq_any, true,
        ));
        if !chk.ok {
            tri!(judge_invalid::<P<F>, Option<GaussianNb<F, usize>>, NaiveBayesError>(
                c, b, "fit_with", "-with-degenerate-data", &chk, &make_t,
                &|p| p.fit_with(None, &bad_ds),
            ));
        }
        finish(c, b, pt, &exp)
    });
}

fn multinomial_nb<F: Fl>(ctx: &Ctx, fam: &'static str) {
    use linfa_bayes::{MultinomialNb, MultinomialNbParams, NaiveBayesError};
    let axes = vec![ax("alpha", lo_closed::<F>(0.0, Acc, &[1e-3, 1.0, 10.0], true))];
    run_plan(ctx, fam, axes, |c, pt| {
        let b = "multinomial-nb";
        let exp = Expect::all(pt);
        start(c, b, pt, &exp);
        let alpha = pt.f("alpha");
        let n = 12;
        let x: Array2<F> = Array2::from_shape_fn((n, 3), |(i, j)| {
            F::of(((i * 7 + j * 3) % 5) as f64 + if (i + j) % 2 == 0 { 2.0 } else { 0.0 } + c.rng.gen_range(0..3) as f64)
        });
        let y: Array1<usize> = Array1::from_shape_fn(n, |i| i % 2);
        let ds = Dataset::new(x, y);
        let bad_ds = degenerate(&ds, c.idx);
        type P<F> = MultinomialNbParams<F, usize>;
        let make = || -> P<F> { MultinomialNb::params().alpha(F::of(alpha)) };
        let make_t = || (make(), no_trip());
        let chk = tri!(judge_check(
            c, b, &exp, &make,
            &|p| format!("{p:?}"),
            &|ch| format!("{ch:?}"),
            true,
            &|ch| feq("alpha", ch.alpha(), alpha),
        ));
        tri!(judge_entry::<P<F>, MultinomialNb<F, usize>, NaiveBayesError>(
            c, b, "fit", &chk, &make_t,
            &|p| p.fit(&ds),
            &|p| p.fit(&ds),
            &eq_any, true,
        ));
        if !chk.ok {
            tri!(judge_invalid::<P<F>, MultinomialNb<F, usize>, NaiveBayesError>(
                c, b, "fit", "-with-degenerate-data", &chk, &make_t,
                &|p| p.fit(&bad_ds),
            ));
        }
        tri!(judge_entry::<P<F>, Option<MultinomialNb<F, usize>>, NaiveBayesError>(
            c, b, "fit_with", &chk, &make_t,
            &|p| p.fit_with(None, &ds),
            &|p| p.fit_with(None, &ds),
            &eq_any, true,
        ));
        if !chk.ok {
            tri!(judge_invalid::<P<F>, Option<MultinomialNb<F, usize>>, NaiveBayesError>(
                c, b, "fit_with", "-with-degenerate-data", &chk, &make_t,
                &|p| p.fit_with(None, &bad_ds),
            ));
        }
        finish(c, b, pt, &exp)
    });
}

// ---- FTRL -----------------------------------------------------------------------------------

/// documented: "`alpha` must be positive and finite", "`beta` must be positive and finite" (but
/// the documented default of beta is 0.0 and the guards accept 0: boundary unspecified),
/// l1_ratio / l2_ratio "must be between `0.0` and `1.0`", errors "should be in range [0, 1]"
fn ftrl<F: Fl>(ctx: &Ctx, fam: &'static str) {
    use linfa_ftrl::{Ftrl, FtrlError, FtrlParams};
    let axes = vec![
        ax("alpha", lo_closed::<F>(0.0, Unspec, &[5e-3, 1.0], false)),
        ax("beta", lo_closed::<F>(0.0, Unspec, &[0.5], false)),
        ax("l1_ratio", unit_closed::<F>(&[0.5])),
        ax("l2_ratio", unit_closed::<F>(&[0.5])),
        ax("constructor", choice(2)),
    ];
    run_plan(ctx, fam, axes, |c, pt| {
        let b = "ftrl";
        let exp = Expect::all(pt);
        start(c, b, pt, &exp);
        let (alpha, beta, l1, l2, ctor) =
            (pt.f("alpha"), pt.f("beta"), pt.f("l1_ratio"), pt.f("l2_ratio"), pt.u("constructor"));
        let n = 12;
        let x: Array2<F> = blobs2(&mut c.rng, n, 3);
        let y: Array1<bool> = Array1::from_shape_fn(n, |i| i % 2 == 1);
        let ds = Dataset::new(x, y);
        let bad_ds = degenerate(&ds, c.idx);
        let seed = c.rng.gen::<u64>();
        type P<F> = FtrlParams<F, TripRng>;
        let make_t = || -> (P<F>, Box<dyn Fn() -> u64>) {
            let r = TripRng::new(seed);
            let r2 = r.clone();
            let p = if ctor == 0 {
                FtrlParams::new(F::of(alpha), F::of(beta), F::of(l1), F::of(l2), r)
            } else {
                Ftrl::params_with_rng(r)
                    .alpha(F::of(alpha))
                    .beta(F::of(beta))
                    .l1_ratio(F::of(l1))
                    .l2_ratio(F::of(l2))
            };
            (p, Box::new(move || r2.hits()))
        };
        let make = || make_t().0;
        let chk = tri!(judge_check(
            c, b, &exp, &make,
            &|p| format!("{p:?}"),
            &|ch| format!("{ch:?}"),
            true,
            &|ch| {
                feq("alpha", ch.alpha(), alpha)?;
                feq("beta", ch.beta(), beta)?;
                feq("l1_ratio", ch.l1_ratio(), l1)?;
                feq("l2_ratio", ch.l2_ratio(), l2)
            },
        ));
        tri!(judge_entry::<P<F>, Ftrl<F>, FtrlError>(
            c, b, "fit_with", &chk, &make_t,
            &|p| p.fit_with(None, &ds),
            &|p| p.fit_with(None, &ds),
            &eq_dbg, pt.fit_ok(),
        ));
        if !chk.ok {
            tri!(judge_invalid::<P<F>, Ftrl<F>, FtrlError>(
                c, b, "fit_with", "-with-degenerate-data", &chk, &make_t,
                &|p| p.fit_with(None, &bad_ds),
            ));
        }
        finish(c, b, pt, &exp)
    });
}

// ---- PLS (regression, canonical, CCA) -------------------------------------------------------

/// documented through the error texts: "The tolerance is should not be negative, NaN or inf",
/// "The maximal number of iterations should be positive"; "Number of components should be in
/// [1, upperbound]" is data dependent and enforced by fit (0 components: unspecified for check).
/// The builders implement neither Debug nor Clone nor getters: only verdicts and fits are observable.
fn pls_axes<F: Fl>() -> Vec<Ax> {
    vec![
        ax("n_components", vec![gu(0, Unspec, "zero-components", true), gu(1, Acc, "at-min", true), gu(2, Acc, "inside", true)]),
        ax("tolerance", lo_closed::<F>(0.0, Acc, &[1e-6, 1e-2], true)),
        ax("max_iter", count_min(1, &[500], Some(usize::MAX as u64))),
        ax("scale", choice(2)),
        ax("algorithm", choice(2)),
    ]
}

macro_rules! pls_impl {
    ($name:ident, $Model:ident, $Params:ident, $label:expr) => {
        fn $name<F: Fl>(ctx: &Ctx, fam: &'static str) {
            use linfa_pls::{Algorithm, PlsError, $Model, $Params};
            run_plan(ctx, fam, pls_axes::<F>(), |c, pt| {
                let b = $label;
                let exp = Expect::all(pt);
                start(c, b, pt, &exp);
                let (k, tol, it, scale, algo) = (
                    pt.uz("n_components"), pt.f("tolerance"), pt.uz("max_iter"),
                    pt.u("scale") == 1, pt.u("algorithm"),
                );
                let algo = if algo == 0 { Algorithm::Nipals } else { Algorithm::Svd };
                let n = 12;
                let x: Array2<F> = Array2::from_shape_fn((n, 3), |_| F::of(crate::gen::normal(&mut c.rng)));
                let y: Array2<F> = Array2::from_shape_fn((n, 2), |(i, t)| {
                    x[[i, t]] * F::of(2.0) - x[[i, 2]] + F::of(0.1 * crate::gen::normal(&mut c.rng))
                });
                let ds = Dataset::new(x, y);
                let bad_ds = degenerate(&ds, c.idx);
                type P<F> = $Params<F>;
                let make = || -> P<F> {
                    $Model::params(k).tolerance(F::of(tol)).max_iterations(it).scale(scale).algorithm(algo)
                };
                let make_t = || (make(), no_trip());
                let chk = tri!(judge_check(
                    c, b, &exp, &make,
                    &|_| String::new(),
                    &|_| String::new(),
                    false,
                    &|_| Ok(()),
                ));
                let run_valid = pt.fit_ok();
                tri!(judge_entry::<P<F>, $Model<F>, PlsError>(
                    c, b, "fit", &chk, &make_t,
                    &|p| p.fit(&ds),
                    &|p| p.fit(&ds),
                    &eq_any, run_valid,
                ));
                if !chk.ok {
                    tri!(judge_invalid::<P<F>, $Model<F>, PlsError>(
                        c, b, "fit", "-with-degenerate-data", &chk, &make_t,
                        &|p| p.fit(&bad_ds),
                    ));
                }
                finish(c, b, pt, &exp)
            });
        }
    };
}
pls_impl!(pls_regression, PlsRegression, PlsRegressionParams, "pls-regression");
pls_impl!(pls_canonical, PlsCanonical, PlsCanonicalParams, "pls-canonical");
pls_impl!(pls_cca, PlsCca, PlsCcaParams, "pls-cca");

// ---- t-SNE ----------------------------------------------------------------------------------

/// documented: errors "negative perplexity", "negative approximation threshold"; approx_threshold
/// "lies in range (0, inf) where a value of 0 disables approximation" (0 unspecified); perplexity 0
/// is not mentioned (unspecified). Other parameters have no documented range.
fn tsne<F: Fl>(ctx: &Ctx, fam: &'static str) {
    use linfa_tsne::{TSneError, TSneParams};
    let nonneg = |inside: &[f64]| -> Vec<G> {
        let mut v = vec![
            gf(-F::huge(), Rej, "far-below", false),
            gf(-1.0, Rej, "below", false),
            gf(F::down64(0.0), Rej, "just-below", false),
            gf(-0.0, Unspec, "neg-zero", false),
            gf(0.0, Unspec, "at-zero", false),
            gf(F::up64(0.0), Acc, "just-inside", false),
        ];
        for x in inside {
            v.push(gf(*x, Acc, "inside", true));
        }
        v.push(gf(F::huge(), Acc, "huge", false));
        v
    };
    let axes = vec![
        ax("perplexity", nonneg(&[1.0, 2.0])),
        ax("approx_threshold", nonneg(&[0.5])),
        ax("embedding_size", free_u(&[1, 2])),
        ax("max_iter", free_u(&[20])),
        ax("preliminary_iter", free_u(&[0, 5])),
    ];
    run_plan(ctx, fam, axes, |c, pt| {
        let b = "tsne";
        let exp = Expect::all(pt);
        start(c, b, pt, &exp);
        let (perp, thr, es, mi, pi) = (
            pt.f("perplexity"), pt.f("approx_threshold"), pt.uz("embedding_size"), pt.uz("max_iter"),
            pt.uz("preliminary_iter"),
        );
        let n = 12;
        let x: Array2<F> = blobs2(&mut c.rng, n, 3);
        let bad_x: Array2<F> = degenerate_x(&x, c.idx);
        let seed = c.rng.gen::<u64>();
        type P<F> = TSneParams<F, TripRng>;
        let make_t = || -> (P<F>, Box<dyn Fn() -> u64>) {
            let r = TripRng::new(seed);
            let r2 = r.clone();
            let mut p = TSneParams::embedding_size_with_rng(es, r)
                .perplexity(F::of(perp))
                .approx_threshold(F::of(thr))
                .max_iter(mi);
            if pi > 0 {
                p = p.preliminary_iter(pi);
            }
            (p, Box::new(move || r2.hits()))
        };
        let make = || make_t().0;
        let chk = tri!(judge_check(
            c, b, &exp, &make,
            &|p| format!("{p:?}"),
            &|ch| format!("{ch:?}"),
            true,
            &|ch| {
                feq("perplexity", ch.perplexity(), perp)?;
                feq("approx_threshold", ch.approx_threshold(), thr)?;
                ueq("embedding_size", ch.embedding_size(), es)?;
                ueq("max_iter", ch.max_iter(), mi)?;
                ueq("preliminary_iter", *ch.preliminary_iter(), if pi > 0 { Some(pi) } else { None })
            },
        ));
        let run_valid = pt.fit_ok();
        tri!(judge_entry::<P<F>, Array2<F>, TSneError>(
            c, b, "transform", &chk, &make_t,
            &|p| p.transform(x.clone()),
            &|p| p.transform(x.clone()),
            &eq_any, run_valid,
        ));
        if !chk.ok {
            tri!(judge_invalid::<P<F>, Array2<F>, TSneError>(
                c, b, "transform", "-with-degenerate-data", &chk, &make_t,
                &|p| p.transform(bad_x.clone()),
            ));
        }
        // the dataset entry point: a valid builder has to behave like its checked form in everything
        // the resulting dataset carries (embedding, sample weights)
        let wts = ndarray::Array1::<f32>::from_shape_fn(n, |i| 0.5 + (i % 3) as f32);
        tri!(judge_entry::<P<F>, (Array2<F>, Vec<f32>), TSneError>(
            c, b, "transform-dataset", &chk, &make_t,
            &|p| p.transform(DatasetBase::from(x.clone()).with_weights(wts.clone())).map(|d| (d.records, d.weights.to_vec())),
            &|p| p.transform(DatasetBase::from(x.clone()).with_weights(wts.clone())).map(|d| (d.records, d.weights.to_vec())),
            &eq_any, run_valid,
        ));
        if !chk.ok {
            tri!(judge_invalid::<P<F>, Array2<F>, TSneError>(
                c, b, "transform-dataset", "-with-degenerate-data", &chk, &make_t,
                &|p| p.transform(DatasetBase::from(bad_x.clone())).map(|d| d.records),
            ));
        }
        finish(c, b, pt, &exp)
    });
}

// ---- FastICA --------------------------------------------------------------------------------

/// documented: error "tolerance should be positive" (guard accepts 0: unspecified); `Fit` docs and
/// error text: the `alpha` of `GFunc::Logcosh` must be "between 1 and 2 inclusive" (f64 always).
fn ica<F: Fl>(ctx: &Ctx, fam: &'static str) {
    use linfa_ica::error::FastIcaError;
    use linfa_ica::fast_ica::{FastIca, GFunc};
    use linfa_ica::hyperparams::FastIcaParams;
    let axes = vec![
        ax("tol", vec![
            gf(-F::huge(), Rej, "far-below", false),
            gf(-1.0, Rej, "below", false),
            gf(F::down64(0.0), Rej, "just-below", false),
            gf(-0.0, Unspec, "neg-zero", false),
            gf(0.0, Unspec, "at-zero", false),
            gf(F::up64(0.0), Acc, "just-inside", false),
            gf(1e-4, Acc, "inside", true),
            gf(F::huge(), Acc, "huge", true),
        ]),
        ax("gfunc", choice(3)),
        ax("logcosh_alpha", vec![
            gf(-1e300, Rej, "far-below", false),
            gf(0.0, Rej, "below", false),
            gf(f64::down64(1.0), Rej, "just-below", false),
            gf(1.0, Acc, "at-lower", true),
            gf(f64::up64(1.0), Acc, "just-inside-lower", true),
            gf(1.5, Acc, "inside", true),
            gf(f64::down64(2.0), Acc, "just-inside-upper", true),
            gf(2.0, Acc, "at-upper", true),
            gf(f64::up64(2.0), Rej, "just-above", false),
            gf(10.0, Rej, "above", false),
            gf(1e300, Rej, "far-above", false),
        ]),
        ax("ncomponents", free_u(&[0, 2])),
        ax("max_iter", free_u(&[1, 50])),
    ];
    run_plan(ctx, fam, axes, |c, pt| {
        let b = "fast-ica";
        let g = pt.u("gfunc");
        // the alpha axis reaches the builder only through GFunc::Logcosh
        let exp = Expect::of(pt, &|name| name != "logcosh_alpha" || g == 0);
        start(c, b, pt, &exp);
        let (tol, alpha, nc, mi) = (pt.f("tol"), pt.f("logcosh_alpha"), pt.uz("ncomponents"), pt.uz("max_iter"));
        let gfunc = match g {
            0 => GFunc::Logcosh(alpha),
            1 => GFunc::Exp,
            _ => GFunc::Cube,
        };
        let n = 30;
        // three independent non-gaussian sources mixed into three channels (full rank)
        let x: Array2<F> = {
            let s: Vec<(f64, f64, f64)> = (0..n)
                .map(|i| {
                    (
                        ((i as f64) * 0.7).sin(),
                        (c.rng.gen::<f64>() - 0.5) * 2.0,
                        ((i * 7 % 11) as f64) / 5.0 - 1.0 + 0.05 * c.rng.gen::<f64>(),
                    )
                })
                .collect();
            Array2::from_shape_fn((n, 3), |(i, j)| {
                let (a, bb, cc) = s[i];
                F::of(match j {
                    0 => a + 0.5 * bb + 0.1 * cc,
                    1 => 0.3 * a - bb + 0.4 * cc,
                    _ => a - 0.2 * bb - cc,
                })
            })
        };
        let ds = DatasetBase::from(x);
        let bad_ds = degenerate(&ds, c.idx);
        let seed = c.rng.gen_range(0..1000usize);
        type P<F> = FastIcaParams<F>;
        let make = || -> P<F> {
            let mut p = FastIca::params().tol(F::of(tol)).gfunc(gfunc).max_iter(mi).random_state(seed);
            if nc > 0 {
                p = p.ncomponents(nc);
            }
            p
        };
        let make_t = || (make(), no_trip());
        let chk = tri!(judge_check(
            c, b, &exp, &make,
            &|p| format!("{p:?}"),
            &|ch| format!("{ch:?}"),
            true,
            &|ch| {
                feq("tol", ch.tol(), tol)?;
                ueq("gfunc", format!("{:?}", ch.gfunc()), format!("{gfunc:?}"))?;
                ueq("max_iter", ch.max_iter(), mi)?;
                ueq("ncomponents", *ch.ncomponents(), if nc > 0 { Some(nc) } else { None })?;
                ueq("random_state", *ch.random_state(), Some(seed))
            },
        ));
        let run_valid = pt.fit_ok();
        tri!(judge_entry::<P<F>, FastIca<F>, FastIcaError>(
            c, b, "fit", &chk, &make_t,
            &|p| p.fit(&ds),
            &|p| p.fit(&ds),
            &eq_any, run_valid,
        ));
        if !chk.ok {
            tri!(judge_invalid::<P<F>, FastIca<F>, FastIcaError>(
                c, b, "fit", "-with-degenerate-data", &chk, &make_t,
                &|p| p.fit(&bad_ds),
            ));
        }
        finish(c, b, pt, &exp)
    });
}

// ---- diffusion map ----------------------------------------------------------------------------

/// documented through the errors: "Number of steps zero in diffusion map operator",
/// `EmbeddingTooSmall` for an embedding size of 0
fn diffusion_map<F: Fl>(ctx: &Ctx, fam: &'static str) {
    use linfa_kernel::{Kernel, KernelMethod};
    use linfa_reduction::{DiffusionMap, DiffusionMapParams, ReductionError};
    let axes = vec![
        ax("steps", count_min(1, &[3], Some(usize::MAX as u64))),
        ax("embedding_size", count_min(1, &[3], Some(usize::MAX as u64))),
        ax("constructor", choice(2)),
    ];
    run_plan(ctx, fam, axes, |c, pt| {
        let b = "diffusion-map";
        let exp = Expect::all(pt);
        start(c, b, pt, &exp);
        let (steps, es, ctor) = (pt.uz("steps"), pt.uz("embedding_size"), pt.u("constructor"));
        // 5 samples: the dense eigen-solver path (the LOBPCG path used for larger inputs panics on
        // NaN for some random inputs, for checked and unchecked parameters alike)
        let x: Array2<F> = cloud(&mut c.rng, 5, 2);
        let kernel: Kernel<F> = Kernel::params().method(KernelMethod::Gaussian(F::of(2.0))).transform(&x);
        type P = DiffusionMapParams;
        let make = || -> P {
            if ctor == 0 {
                DiffusionMap::<F>::params(es).steps(steps)
            } else {
                DiffusionMapParams::default().embedding_size(es).steps(steps)
            }
        };
        let make_t = || (make(), no_trip());
        let chk = tri!(judge_check(
            c, b, &exp, &make,
            &|p| format!("{p:?}"),
            &|ch| format!("{ch:?}"),
            true,
            &|ch| {
                ueq("steps", ch.steps(), steps)?;
                ueq("embedding_size", ch.embedding_size(), es)
            },
        ));
        tri!(judge_entry::<P, DiffusionMap<F>, ReductionError>(
            c, b, "transform", &chk, &make_t,
            &|p| p.transform(&kernel),
            &|p| Ok(p.transform(&kernel)),
            &eq_any, pt.fit_ok(),
        ));
        finish(c, b, pt, &exp)
    });
}

// ---- random projection (Gaussian / sparse; dimension and eps forms) -------------------------

/// documented through the errors: "Precision parameter must be in the interval (0; 1)", "Target
/// dimension of the projection must be positive". The builder has no Debug / Clone; the checked
/// value has Debug and getters.
macro_rules! random_projection_impl {
    ($name:ident, $Alias:ident, $ParamsAlias:ident, $F:ty, $label:expr) => {
        fn $name(ctx: &Ctx, fam: &'static str) {
            use linfa_reduction::random_projection::{$Alias, $ParamsAlias};
            use linfa_reduction::ReductionError;
            type F = $F;
            let axes = vec![
                ax("form", choice(2)),
                ax("target_dim", count_min(1, &[10], Some(usize::MAX as u64))),
                ax("eps", vec![
                    gf(-1e300, Rej, "far-below", false),
                    gf(-1.0, Rej, "below", false),
                    gf(f64::down64(0.0), Rej, "just-below", false),
                    gf(-0.0, Rej, "neg-zero-at-open-bound", false),
                    gf(0.0, Rej, "at-open-lower", false),
                    gf(f64::up64(0.0), Acc, "just-inside-lower", false),
                    gf(0.5, Acc, "inside", true),
                    gf(0.9, Acc, "inside", true),
                    gf(f64::down64(1.0), Acc, "just-inside-upper", true),
                    gf(1.0, Rej, "at-open-upper", false),
                    gf(f64::up64(1.0), Rej, "just-above", false),
                    gf(2.0, Rej, "above", false),
                    gf(1e300, Rej, "far-above", false),
                ]),
                ax("order", choice(2)),
            ];
            run_plan(ctx, fam, axes, |c, pt| {
                let b = $label;
                let form = pt.u("form");
                let order = pt.u("order");
                // the later setter discards the earlier one: only the last one reaches the check.
                // order 0: the setter of `form` is called last; order 1: only that setter is called
                let active = if form == 0 { "target_dim" } else { "eps" };
                let exp = Expect::of(pt, &|name| name == active || name == "form" || name == "order");
                start(c, b, pt, &exp);
                c.note("active_parameter", json!(active));
                let (dim, eps) = (pt.uz("target_dim"), pt.f("eps"));
                let x: Array2<F> = Array2::from_shape_fn((6, 200), |_| <F as Fl>::of(crate::gen::normal(&mut c.rng)));
                let ds = DatasetBase::from(x.clone());
                let bad_ds = degenerate(&ds, c.idx);
                let seed = c.rng.gen::<u64>();
                let c_idx = c.idx;
                type P = $ParamsAlias<TripRng>;
                let make_t = || -> (P, Box<dyn Fn() -> u64>) {
                    let r = TripRng::new(seed);
                    let r2 = r.clone();
                    let p = if c_idx % 2 == 0 {
                        let p = $Alias::<F>::params_with_rng(r);
                        match (form, order) {
                            (0, 0) => p.eps(eps).target_dim(dim),
                            (0, _) => p.target_dim(dim),
                            (_, 0) => p.target_dim(dim).eps(eps),
                            (_, _) => p.eps(eps),
                        }
                    } else {
                        // setters first, generator swapped in last
                        let p = $Alias::<F>::params();
                        match (form, order) {
                            (0, 0) => p.eps(eps).target_dim(dim),
                            (0, _) => p.target_dim(dim),
                            (_, 0) => p.target_dim(dim).eps(eps),
                            (_, _) => p.eps(eps),
                        }
                        .with_rng(r)
                    };
                    (p, Box::new(move || r2.hits()))
                };
                let make = || make_t().0;
                let chk = tri!(judge_check(
                    c, b, &exp, &make,
                    &|_| String::new(),
                    &|ch| format!("target_dim={:?} eps={:?} rng={:?}", ch.target_dim(), ch.eps(), ch.rng()),
                    false,
                    &|ch| {
                        if active == "target_dim" {
                            ueq("target_dim", ch.target_dim(), Some(dim))?;
                            ueq("eps", ch.eps(), None)
                        } else {
                            ueq("target_dim", ch.target_dim(), None)?;
                            ueq("eps", ch.eps().map(f64::to_bits), Some(eps.to_bits()))
                        }
                    },
                ));
                let g = pt.g(active);
                tri!(judge_entry::<P, Array2<F>, ReductionError>(
                    c, b, "fit", &chk, &make_t,
                    &|p| p.fit(&ds).map(|m| m.transform(&x)),
                    &|p| p.fit(&ds).map(|m| m.transform(&x)),
                    &eq_any, g.fit,
                ));
                if !chk.ok {
                    tri!(judge_invalid::<P, Array2<F>, ReductionError>(
                        c, b, "fit", "-with-degenerate-data", &chk, &make_t,
                        &|p| p.fit(&bad_ds).map(|m| m.transform(&x)),
                    ));
                }
                finish(c, b, pt, &exp)
            });
        }
    };
}
random_projection_impl!(rp_gaussian_f64, GaussianRandomProjection, GaussianRandomProjectionParams, f64, "random-projection-gaussian");
random_projection_impl!(rp_gaussian_f32, GaussianRandomProjection, GaussianRandomProjectionParams, f32, "random-projection-gaussian");
random_projection_impl!(rp_sparse_f64, SparseRandomProjection, SparseRandomProjectionParams, f64, "random-projection-sparse");
random_projection_impl!(rp_sparse_f32, SparseRandomProjection, SparseRandomProjectionParams, f32, "random-projection-sparse");

// ---- hierarchical clustering ------------------------------------------------------------------

/// documented through the guard's error only (`InvalidStoppingCondition`): zero clusters and
/// negative / non-finite distances are invalid; distance 0 is not mentioned (unspecified).
fn hierarchical<F: Fl>(ctx: &Ctx, fam: &'static str) {
    use linfa_hierarchical::{HierarchicalCluster, HierarchicalError, Method};
    use linfa_kernel::{Kernel, KernelMethod};
    let axes = vec![
        ax("criterion", choice(2)),
        ax("num_clusters", count_min(1, &[3, 100], Some(usize::MAX as u64))),
        ax("max_distance", vec![
            gf(-F::huge(), Rej, "far-below", false),
            gf(-1.0, Rej, "below", false),
            gf(F::down64(0.0), Rej, "just-below", false),
            gf(-0.0, Unspec, "neg-zero", false),
            gf(0.0, Unspec, "at-zero", true),
            gf(F::up64(0.0), Acc, "just-inside", true),
            gf(0.5, Acc, "inside", true),
            gf(F::huge(), Acc, "huge", true),
        ]),
        ax("method", choice(3)),
    ];
    run_plan(ctx, fam, axes, |c, pt| {
        let b = "hierarchical";
        let crit = pt.u("criterion");
        let active = if crit == 0 { "num_clusters" } else { "max_distance" };
        let exp = Expect::of(pt, &|name| name == active || name == "criterion" || name == "method");
        start(c, b, pt, &exp);
        c.note("active_parameter", json!(active));
        let (k, dist) = (pt.uz("num_clusters"), pt.f("max_distance"));
        let method = || match pt.u("method") {
            0 => Method::Average,
            1 => Method::Single,
            _ => Method::Ward,
        };
        let x: Array2<F> = cloud(&mut c.rng, 12, 2);
        let kernel = || -> Kernel<F> { Kernel::params().method(KernelMethod::Gaussian(F::of(5.0))).transform(&x) };
        type P<F> = HierarchicalCluster<F>;
        let make = || -> P<F> {
            let p = HierarchicalCluster::default().with_method(method());
            if crit == 0 {
                p.max_distance(F::of(dist)).num_clusters(k)
            } else {
                p.num_clusters(k).max_distance(F::of(dist))
            }
        };
        let make_t = || (make(), no_trip());
        let chk = tri!(judge_check(
            c, b, &exp, &make,
            &|p| format!("{p:?}"),
            &|ch| format!("{ch:?}"),
            true,
            &|_| Ok(()),
        ));
        // cluster ids are numbered in hash-map order: compare the partitions
        let canon = |v: &Vec<usize>| -> Vec<usize> {
            let mut map = std::collections::HashMap::new();
            v.iter()
                .map(|id| {
                    let n = map.len();
                    *map.entry(*id).or_insert(n)
                })
                .collect()
        };
        let same = |a: &Vec<usize>, b: &Vec<usize>| eq_pe(&canon(a), &canon(b));
        let g = pt.g(active);
        tri!(judge_entry::<P<F>, Vec<usize>, HierarchicalError<F>>(
            c, b, "transform", &chk, &make_t,
            &|p| {
                let r: Result<DatasetBase<Kernel<F>, Vec<usize>>, _> = p.transform(kernel());
                r.map(|d| d.targets)
            },
            &|p| Ok(p.transform(kernel()).targets),
            &same, g.fit,
        ));
        tri!(judge_entry::<P<F>, Vec<usize>, HierarchicalError<F>>(
            c, b, "transform-dataset", &chk, &make_t,
            &|p| {
                let r: Result<DatasetBase<Kernel<F>, Vec<usize>>, _> =
                    p.transform(DatasetBase::new(kernel(), ()));
                r.map(|d| d.targets)
            },
            &|p| Ok(p.transform(DatasetBase::new(kernel(), ())).targets),
            &same, g.fit,
        ));
        finish(c, b, pt, &exp)
    });
}

// ---- count vectoriser (also through the tf-idf builder) -------------------------------------

/// documented: n_gram_range "`min_n` should not be greater than `max_n`", error "n_gram boundaries
/// cannot be zero"; document_frequency "`min_freq` and `max_freq` must lie in `0..=1` and
/// `min_freq` should not be greater than `max_freq`", error "document frequencies have to be between
/// 0 and 1"; fit docs: error "if the regex expression for the split is invalid".
fn count_vectorizer(ctx: &Ctx, fam: &'static str) {
    use linfa_preprocessing::tf_idf_vectorization::TfIdfVectorizer;
    use linfa_preprocessing::{CountVectorizer, CountVectorizerParams, PreprocessingError};
    type F = f32;
    let freq = || -> Vec<G> {
        vec![
            gf(-1e30, Rej, "far-below", false),
            gf(-1.0, Rej, "below", false),
            gf(f32::down64(0.0), Rej, "just-below", false),
            gf(-0.0, Unspec, "neg-zero-at-closed-bound", false),
            gf(0.0, Acc, "at-lower", true),
            gf(f32::up64(0.0), Acc, "just-inside-lower", true),
            gf(0.25, Acc, "inside", true),
            gf(0.75, Acc, "inside", true),
            gf(f32::down64(1.0), Acc, "just-inside-upper", true),
            gf(1.0, Acc, "at-upper", true),
            gf(f32::up64(1.0), Rej, "just-above", false),
            gf(2.0, Rej, "above", false),
            gf(1e30, Rej, "far-above", false),
        ]
    };
    let ngram = || -> Vec<G> {
        vec![
            gu(0, Rej, "just-below-min", false),
            gu(1, Acc, "at-min", true),
            gu(2, Acc, "just-inside", true),
            gu(3, Acc, "inside", true),
            gu(usize::MAX as u64, Acc, "huge", false),
        ]
    };
    let axes = vec![
        ax("n_gram_min", ngram()),
        ax("n_gram_max", ngram()),
        ax("min_freq", freq()),
        ax("max_freq", freq()),
        ax("split_regex", vec![gu(0, Acc, "default", true), gu(1, Acc, "valid-custom", true), gu(2, Rej, "invalid-regex", false)]),
        ax("max_features", free_u(ctx.tier.pick(&[3], &[0, 3]))),
    ];
    run_plan(ctx, fam, axes, |c, pt| {
        let b = "count-vectorizer";
        let mut exp = Expect::all(pt);
        let (gmin, gmax, fmin, fmax, re, mf) = (
            pt.uz("n_gram_min"), pt.uz("n_gram_max"), pt.f("min_freq") as f32, pt.f("max_freq") as f32,
            pt.u("split_regex"), pt.uz("max_features"),
        );
        // cross-parameter constraints
        if gmin > gmax {
            exp.add_invalid("n_gram_min>n_gram_max");
        }
        if fmin > fmax {
            exp.add_invalid("min_freq>max_freq");
        }
        start(c, b, pt, &exp);
        let regex = match re {
            0 => None,
            1 => Some(r"[a-z]+"),
            _ => Some(r"(unclosed"),
        };
        let docs: Array1<String> = Array1::from_vec(
            ["one two three four", "one two three", "one two", "one", "five six one two"]
                .iter()
                .map(|s| s.to_string())
                .collect(),
        );
        let words = ["one", "two", "seven"];
        type P = CountVectorizerParams;
        // every third case applies the setters to a builder on which check_ref() has already
        // succeeded (its interior regex cache is filled): a guard that trusts stale state would
        // accept anything. The pre-checked base is built once per case and cloned.
        let prechecked = c.idx % 3 == 0;
        c.note("prechecked_base_builder", json!(prechecked));
        let base = CountVectorizer::params();
        if prechecked {
            let _ = base.check_ref();
        }
        let make = || -> P {
            let mut p = base
                .clone()
                .n_gram_range(gmin, gmax)
                .document_frequency(fmin, fmax)
                .max_features(if mf > 0 { Some(mf) } else { None });
            if let Some(r) = regex {
                p = p.tokenizer(linfa_preprocessing::Tokenizer::Regex(r.to_string()));
            }
            p
        };
        let make_t = || (make(), no_trip());
        // check_ref() compiles the regex into an interior cache (`split_regex`): that cache is
        // not a parameter; it is cut out of the Debug text before comparing
        let strip = |s: String| -> String {
            match (s.find("split_regex: RefCell"), s.find("n_gram_range:")) {
                (Some(a), Some(z)) if a < z => format!("{}{}", &s[..a], &s[z..]),
                _ => s,
            }
        };
        let chk = tri!(judge_check(
            c, b, &exp, &make,
            &|p| strip(format!("{p:?}")),
            &|ch| strip(format!("{ch:?}")),
            true,
            &|ch| {
                ueq("n_gram_range", ch.n_gram_range(), (gmin, gmax))?;
                let df = ch.document_frequency();
                ueq("document_frequency", (df.0.to_bits(), df.1.to_bits()), (fmin.to_bits(), fmax.to_bits()))?;
                ueq("max_features", ch.max_features(), if mf > 0 { Some(mf) } else { None })?;
                ueq("split_regex", ch.split_regex().as_str().to_string(), regex.unwrap_or(r"\b\w\w+\b").to_string())
            },
        ));
        let digest = |v: &CountVectorizer| -> (Vec<String>, String) {
            let mut voc = v.vocabulary().clone();
            voc.sort();
            let counts = match v.transform(&docs) {
                Ok(m) => m,
                Err(e) => return (voc, format!("transform-error: {e}")),
            };
            // columns are in hash order: describe every column by (word, counts)
            let mut cols: Vec<String> = v
                .vocabulary()
                .iter()
                .enumerate()
                .map(|(j, w)| {
                    let col: Vec<usize> = (0..docs.len()).map(|i| *counts.get(i, j).unwrap_or(&0)).collect();
                    format!("{w}:{col:?}")
                })
                .collect();
            cols.sort();
            (voc, cols.join(";"))
        };
        let same = |a: &(Vec<String>, String), bb: &(Vec<String>, String)| eq_pe(a, bb);
        let run_valid = pt.fit_ok();
        tri!(judge_entry::<P, (Vec<String>, String), PreprocessingError>(
            c, b, "fit", &chk, &make_t,
            &|p| p.fit(&docs).map(|v| digest(&v)),
            &|p| p.fit(&docs).map(|v| digest(&v)),
            &same, run_valid,
        ));
        tri!(judge_entry::<P, (Vec<String>, String), PreprocessingError>(
            c, b, "fit_vocabulary", &chk, &make_t,
            &|p| p.fit_vocabulary(&words).map(|v| digest(&v)),
            &|p| p.fit_vocabulary(&words).map(|v| digest(&v)),
            &same, run_valid,
        ));
        // (fit_files needs the `encoding` crate, which the harness does not link: not exercised)
        // the tf-idf builder wraps the same parameters; its fit must reject them identically
        if !chk.ok {
            let mut t = TfIdfVectorizer::default()
                .n_gram_range(gmin, gmax)
                .document_frequency(fmin, fmax)
                .max_features(if mf > 0 { Some(mf) } else { None });
            if let Some(r) = regex {
                t = t.tokenizer(linfa_preprocessing::Tokenizer::Regex(r.to_string()));
            }
            let r = guarded(|| t.fit(&docs).map(|_| ()).map_err(|e| e.to_string()));
            match r {
                Err(panic) => bail!(sig(b, "tfidf-fit-panics-on-invalid"), {"panic": panic}),
                Ok(Ok(())) => bail!(sig(b, "tfidf-fit-succeeds-on-invalid"), {"check_error": chk.err_disp}),
                Ok(Err(e)) => {
                    ensure!(e == chk.err_disp, sig(b, "tfidf-fit-returns-different-error"), {"got": e, "expected": chk.err_disp})
                }
            }
            c.evals += 1;
        }
        finish(c, b, pt, &exp)
    });
}

pub fn run(ctx: &Ctx) {
    ctx.set_rule(
        "one case = one point of the cross product of the per-parameter boundary grids of one \
         parameter builder (exhaustive where the product is below the cap, else all points that \
         deviate from a valid base point in <= 2 parameters plus a random sample); a case is \
         non-trivial when the table decides it strictly (every value documented as inside, or at \
         least one documented as outside its range); cases whose only doubtful value sits on a \
         boundary that the documentation words inconsistently are counted as unspecified and only \
         checked for the agreement of check / check_ref / fit",
    );
    ctx.assume("the documented ranges were transcribed by hand from doc comments, parameter tables, crate docs and error texts of the pinned commit (see the table in c04.rs)");
    ctx.assume("error identity is compared through the Display and Debug texts (the error types do not implement PartialEq)");
    ctx.assume("'does not train' is observed through the returned error and, where the builder carries an rng or a distance function, through use counters; builders without such a hook are observed through the result only");
    ctx.assume("degenerate data (no rows / all NaN) is used only together with rejected parameter sets, as a trip-wire: a guard that runs first never looks at the data");
    ctx.extra(
        "unspecified_boundaries",
        json!([
            "every closed lower bound 0: the value -0.0 (numerically inside, but several guards test the sign bit)",
            "elastic net tolerance = 0: parameter table says (0, inf), error section says 'if the tolerance is negative' (accepted)",
            "logistic alpha = 0: error text 'must be a positive, finite number', 0 = no regularisation is accepted",
            "Platt minstep = 0, sigma = 0: error texts 'should be positive', 0 is accepted",
            "SVM nu = 0: nu_weight says [0, 1], crate docs say (0, 1] (rejected); solver eps = 0 and the c_svr loss epsilon <= 0: no documented range",
            "FTRL alpha = 0, beta = 0: 'must be positive and finite' next to the documented default beta = 0.0 (accepted)",
            "decision tree min_impurity_decrease in (0, machine epsilon): 'should be greater than zero' yet rejected by the guard",
            "PLS n_components = 0: 'should be in [1, upperbound]' is data dependent and enforced by fit, not by check",
            "t-SNE perplexity = 0 (not mentioned) and approx_threshold = 0 ('range (0, inf) where a value of 0 disables approximation')",
            "FastICA tol = 0: 'tolerance should be positive', 0 is accepted",
            "hierarchical max_distance = 0: not mentioned (accepted)",
            "OPTICS tolerance = +inf (the default): not a finite value, outside the property's quantifier"
        ]),
    );
    ctx.extra("tolerances", json!("none: every comparison of this monitor is exact (verdicts, texts, bit patterns of getters, PartialEq / Debug equality of fitted models)"));
    kmeans::<f64>(ctx, "kmeans-f64");
    kmeans::<f32>(ctx, "kmeans-f32");
    dbscan::<f64>(ctx, "dbscan-f64");
    dbscan::<f32>(ctx, "dbscan-f32");
    optics::<f64>(ctx, "optics-f64");
    optics::<f32>(ctx, "optics-f32");
    gmm::<f64>(ctx, "gmm-f64");
    gmm::<f32>(ctx, "gmm-f32");
    enet::<f64>(ctx, "elasticnet-f64");
    enet::<f32>(ctx, "elasticnet-f32");
    enet_multi::<f64>(ctx, "elasticnet-multitask-f64");
    enet_multi::<f32>(ctx, "elasticnet-multitask-f32");
    logistic_f64(ctx, "logistic-f64");
    logistic_f32(ctx, "logistic-f32");
    logistic_multi_f64(ctx, "logistic-multinomial-f64");
    logistic_multi_f32(ctx, "logistic-multinomial-f32");
    tweedie_f64(ctx, "tweedie-f64");
    tweedie_f32(ctx, "tweedie-f32");
    platt::<f64>(ctx, "platt-f64");
    platt::<f32>(ctx, "platt-f32");
    // the nested Platt parameters use a reduced grid (3 x 4 x 4); the thorough tier additionally
    // samples the cross product with the full Platt grid (5 x 9 x 9)
    svm_classify::<f64>(ctx, "svm-c-classification-f64", false, false);
    svm_classify::<f32>(ctx, "svm-c-classification-f32", false, false);
    svm_classify::<f64>(ctx, "svm-nu-classification-f64", true, false);
    svm_classify::<f32>(ctx, "svm-nu-classification-f32", true, false);
    svm_oneclass::<f64>(ctx, "svm-one-class-f64", false);
    svm_oneclass::<f32>(ctx, "svm-one-class-f32", false);
    svm_regress_f64(ctx, "svm-eps-regression-f64", false, false);
    svm_regress_f32(ctx, "svm-eps-regression-f32", false, false);
    svm_regress_f64(ctx, "svm-nu-regression-f64", true, false);
    svm_regress_f32(ctx, "svm-nu-regression-f32", true, false);
    if ctx.tier == Tier::Thorough {
        svm_classify::<f64>(ctx, "svm-c-classification-fullplatt-f64", false, true);
        svm_classify::<f32>(ctx, "svm-c-classification-fullplatt-f32", false, true);
        svm_classify::<f64>(ctx, "svm-nu-classification-fullplatt-f64", true, true);
        svm_classify::<f32>(ctx, "svm-nu-classification-fullplatt-f32", true, true);
        svm_oneclass::<f64>(ctx, "svm-one-class-fullplatt-f64", true);
        svm_oneclass::<f32>(ctx, "svm-one-class-fullplatt-f32", true);
        svm_regress_f64(ctx, "svm-eps-regression-fullplatt-f64", false, true);
        svm_regress_f32(ctx, "svm-eps-regression-fullplatt-f32", false, true);
        svm_regress_f64(ctx, "svm-nu-regression-fullplatt-f64", true, true);
        svm_regress_f32(ctx, "svm-nu-regression-fullplatt-f32", true, true);
    }
    tree::<f64>(ctx, "decision-tree-f64");
    tree::<f32>(ctx, "decision-tree-f32");
    gaussian_nb::<f64>(ctx, "gaussian-nb-f64");
    gaussian_nb::<f32>(ctx, "gaussian-nb-f32");
    multinomial_nb::<f64>(ctx, "multinomial-nb-f64");
    multinomial_nb::<f32>(ctx, "multinomial-nb-f32");
    ftrl::<f64>(ctx, "ftrl-f64");
    ftrl::<f32>(ctx, "ftrl-f32");
    pls_regression::<f64>(ctx, "pls-regression-f64");
    pls_regression::<f32>(ctx, "pls-regression-f32");
    pls_canonical::<f64>(ctx, "pls-canonical-f64");
    pls_canonical::<f32>(ctx, "pls-canonical-f32");
    pls_cca::<f64>(ctx, "pls-cca-f64");
    pls_cca::<f32>(ctx, "pls-cca-f32");
    tsne::<f64>(ctx, "tsne-f64");
    tsne::<f32>(ctx, "tsne-f32");
    ica::<f64>(ctx, "fast-ica-f64");
    ica::<f32>(ctx, "fast-ica-f32");
    diffusion_map::<f64>(ctx, "diffusion-map-f64");
    diffusion_map::<f32>(ctx, "diffusion-map-f32");
    rp_gaussian_f64(ctx, "random-projection-gaussian-f64");
    rp_gaussian_f32(ctx, "random-projection-gaussian-f32");
    rp_sparse_f64(ctx, "random-projection-sparse-f64");
    rp_sparse_f32(ctx, "random-projection-sparse-f32");
    hierarchical::<f64>(ctx, "hierarchical-f64");
    hierarchical::<f32>(ctx, "hierarchical-f32");
    count_vectorizer(ctx, "count-vectorizer");
}
