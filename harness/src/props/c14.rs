//! C14 — decision trees are well-formed, honour their limits and predict leaf majorities.
//!
//! The monitor fits real `linfa_trees::DecisionTree`s, copies the fitted tree through the public
//! observers (`root_node`, `children`, `split`, `prediction`, `depth`, `is_leaf`) into a plain
//! structure and judges it with an oracle that only knows the *definition* of the property:
//!
//! * the training set is routed through the published tree by the prediction rule;
//! * per split node: sample count >= min_weight_split, training weight on both sides >=
//!   min_weight_leaf, reported impurity decrease == impurity(node) - sum_side w_side/w *
//!   impurity(side) recomputed in f64 from the routed samples, and >= min_impurity_decrease;
//! * per leaf: prediction is a weighted most frequent label of the samples routed to it;
//! * `predict` on the training set and on fresh queries agrees with the routed leaf;
//! * `max_depth`, `num_leaves`, `features`, `iter_nodes` agree with the walk; importances are
//!   non-negative and sum to one whenever a split exists.
//!
//! Fit-time routing is not observable, but it determines every statistic above. The only
//! situation in which "go left" can mean two things is a training value exactly equal to a
//! threshold on its path (`<` versus `<=`): there the oracle evaluates both readings and demands
//! that ONE reading explains the statistics *and* the predictions at once.
//!
//! All cases run in worker processes (see "families; process isolation" below): a fit that recurses
//! without end dies of a stack overflow, which would otherwise take the whole run with it.
use crate::fw::*;
use linfa::traits::{Fit, Predict};
use linfa::{DatasetBase, Float, Label};
use linfa_trees::{DecisionTree, SplitQuality, TreeNode};
use ndarray::{s, Array1, Array2, ArrayBase, Data as NdData, Ix2, ShapeBuilder};
use num_traits::ToPrimitive;
use rand::Rng as _;
use serde_json::{json, Value};
use std::collections::BTreeSet;

const EPS32: f64 = f32::EPSILON as f64;
/// constant of the noise floor of the impurity-decrease comparison
const DEC_C: f64 = 256.0;

// ------------------------------------------------------------------------------------------
// type-erased description of one execution
// ------------------------------------------------------------------------------------------

#[derive(Clone, Copy, Debug, PartialEq)]
enum FT {
    F32,
    F64,
}
#[derive(Clone, Copy, Debug, PartialEq)]
enum LT {
    Usize,
    Bool,
    Str,
}
#[derive(Clone, Copy, Debug, PartialEq)]
enum Lay {
    C,
    F,
    Strided,
    Reversed,
}

#[derive(Clone, Debug)]
struct Data {
    n: usize,
    p: usize,
    /// row-major, every value exactly representable in the element type of the run
    x: Vec<f64>,
    /// class ids 0..k
    y: Vec<usize>,
    k: usize,
    w: Option<Vec<f32>>,
    /// all weights are small multiples of 1/4: every f32 sum linfa forms is exact
    exact_w: bool,
}

impl Data {
    fn weight(&self, i: usize) -> f64 {
        self.w.as_ref().map(|w| w[i] as f64).unwrap_or(1.0)
    }
    fn digest(&self) -> u64 {
        let mut h: u64 = 0xcbf29ce484222325;
        let mut eat = |v: u64| {
            h ^= v;
            h = h.wrapping_mul(0x100000001b3);
        };
        for v in &self.x {
            eat(v.to_bits());
        }
        for v in &self.y {
            eat(*v as u64);
        }
        if let Some(w) = &self.w {
            for v in w {
                eat(v.to_bits() as u64);
            }
        }
        h
    }
}

#[derive(Clone, Copy, Debug)]
struct Params {
    entropy: bool,
    max_depth: Option<usize>,
    mws: f32,
    mwl: f32,
    mid: f64,
}

impl Params {
    fn describe(&self) -> String {
        format!(
            "{}/d{:?}/s{}/l{}/i{:e}",
            if self.entropy { "ent" } else { "gini" },
            self.max_depth,
            self.mws,
            self.mwl,
            self.mid
        )
    }
    fn to_json(&self) -> Value {
        json!({"criterion": if self.entropy {"entropy"} else {"gini"}, "max_depth": self.max_depth,
               "min_weight_split": self.mws, "min_weight_leaf": self.mwl, "min_impurity_decrease": self.mid})
    }
}

/// plain copy of a `TreeNode` taken through its public observers
struct PNode {
    leaf: bool,
    depth: usize,
    /// None: `prediction()` returned None; Some(Err(dbg)): label not among the training labels
    pred: Option<Result<usize, String>>,
    feat: usize,
    thr: f64,
    dec: f64,
    arity: usize,
    kids: [Option<Box<PNode>>; 2],
}

struct Obs {
    root: PNode,
    max_depth: usize,
    num_leaves: usize,
    features: Vec<usize>,
    importance: Vec<f64>,
    iter_nodes: usize,
    iter_leaves: usize,
    pred_train: Vec<Result<usize, String>>,
    pred_query: Vec<Result<usize, String>>,
    /// machine epsilon of the element type
    eps: f64,
    /// min_impurity_decrease as the element type holds it
    mid_f: f64,
}

enum FitFail {
    Panic(&'static str, String),
    Err(String),
}

fn lookup<L: Label>(l: &L, labels: &[L]) -> Result<usize, String> {
    labels
        .iter()
        .position(|x| x == l)
        .ok_or_else(|| format!("{l:?}"))
}

fn extract<F: Float, L: Label>(node: &TreeNode<F, L>, labels: &[L]) -> PNode {
    let kids = node.children();
    let (feat, thr, dec) = node.split();
    let mut out = PNode {
        leaf: node.is_leaf(),
        depth: node.depth(),
        pred: node.prediction().map(|l| lookup(&l, labels)),
        feat,
        thr: thr.to_f64().unwrap_or(f64::NAN),
        dec: dec.to_f64().unwrap_or(f64::NAN),
        arity: kids.len(),
        kids: [None, None],
    };
    for (i, k) in kids.iter().take(2).enumerate() {
        if let Some(b) = k {
            out.kids[i] = Some(Box::new(extract(b, labels)));
        }
    }
    out
}

fn go<F: Float, L: Label, D: NdData<Elem = F>>(
    x: ArrayBase<D, Ix2>,
    d: &Data,
    pr: &Params,
    labels: &[L],
    queries: &[f64],
) -> Result<Obs, FitFail> {
    let y = Array1::from_iter(d.y.iter().map(|&c| labels[c].clone()));
    let mut ds = DatasetBase::new(x, y);
    if let Some(w) = &d.w {
        ds = ds.with_weights(Array1::from(w.clone()));
    }
    let mid = F::cast(pr.mid);
    let params = DecisionTree::<F, L>::params()
        .split_quality(if pr.entropy {
            SplitQuality::Entropy
        } else {
            SplitQuality::Gini
        })
        .max_depth(pr.max_depth)
        .min_weight_split(pr.mws)
        .min_weight_leaf(pr.mwl)
        .min_impurity_decrease(mid);
    let tree = match guarded(|| params.fit(&ds)) {
        Err(p) => return Err(FitFail::Panic("fit", p)),
        Ok(Err(e)) => return Err(FitFail::Err(e.to_string())),
        Ok(Ok(t)) => t,
    };
    let obs = guarded(|| {
        let root = extract(tree.root_node(), labels);
        let (mut iter_nodes, mut iter_leaves) = (0, 0);
        for nd in tree.iter_nodes() {
            iter_nodes += 1;
            if nd.is_leaf() {
                iter_leaves += 1;
            }
        }
        (
            root,
            tree.max_depth(),
            tree.num_leaves(),
            tree.features(),
            tree.feature_importance()
                .iter()
                .map(|v| v.to_f64().unwrap_or(f64::NAN))
                .collect::<Vec<f64>>(),
            iter_nodes,
            iter_leaves,
        )
    });
    let (root, max_depth, num_leaves, features, importance, iter_nodes, iter_leaves) = match obs {
        Ok(o) => o,
        Err(p) => return Err(FitFail::Panic("observers", p)),
    };
    let pred_train = match guarded(|| tree.predict(ds.records())) {
        Ok(a) => a.iter().map(|l| lookup(l, labels)).collect(),
        Err(p) => return Err(FitFail::Panic("predict", p)),
    };
    let nq = if d.p == 0 { 0 } else { queries.len() / d.p };
    let pred_query = if nq > 0 {
        let q = Array2::from_shape_fn((nq, d.p), |(i, j)| F::cast(queries[i * d.p + j]));
        match guarded(|| tree.predict(&q)) {
            Ok(a) => a.iter().map(|l| lookup(l, labels)).collect(),
            Err(p) => return Err(FitFail::Panic("predict", p)),
        }
    } else {
        vec![]
    };
    Ok(Obs {
        root,
        max_depth,
        num_leaves,
        features,
        importance,
        iter_nodes,
        iter_leaves,
        pred_train,
        pred_query,
        eps: F::epsilon().to_f64().unwrap(),
        mid_f: mid.to_f64().unwrap(),
    })
}

fn fit_observe<F: Float, L: Label>(
    d: &Data,
    pr: &Params,
    lay: Lay,
    labels: &[L],
    queries: &[f64],
) -> Result<Obs, FitFail> {
    let (n, p) = (d.n, d.p);
    let val = |i: usize, j: usize| F::cast(d.x[i * p + j]);
    match lay {
        Lay::C => go(Array2::from_shape_fn((n, p), |(i, j)| val(i, j)), d, pr, labels, queries),
        Lay::F => {
            let mut x = Array2::<F>::zeros((n, p).f());
            for i in 0..n {
                for j in 0..p {
                    x[[i, j]] = val(i, j);
                }
            }
            go(x, d, pr, labels, queries)
        }
        Lay::Strided => {
            let big = Array2::from_shape_fn((2 * n + 1, 2 * p + 1), |(i, j)| {
                if i % 2 == 1 && j % 2 == 1 {
                    val(i / 2, j / 2)
                } else {
                    F::cast(-777.0 + (i + 3 * j) as f64)
                }
            });
            let v = big.slice(s![1..;2, 1..;2]);
            go(v, d, pr, labels, queries)
        }
        Lay::Reversed => {
            let big = Array2::from_shape_fn((n, p), |(i, j)| val(n - 1 - i, p - 1 - j));
            let v = big.slice(s![..;-1, ..;-1]);
            go(v, d, pr, labels, queries)
        }
    }
}

fn observe(
    d: &Data,
    pr: &Params,
    ft: FT,
    lt: LT,
    lay: Lay,
    queries: &[f64],
) -> Result<Obs, FitFail> {
    match lt {
        LT::Usize => {
            // non-contiguous label values
            let labels: Vec<usize> = (0..d.k).map(|c| 3 + 7 * c).collect();
            match ft {
                FT::F32 => fit_observe::<f32, usize>(d, pr, lay, &labels, queries),
                FT::F64 => fit_observe::<f64, usize>(d, pr, lay, &labels, queries),
            }
        }
        LT::Bool => {
            let labels = [false, true];
            match ft {
                FT::F32 => fit_observe::<f32, bool>(d, pr, lay, &labels[..d.k.min(2)], queries),
                FT::F64 => fit_observe::<f64, bool>(d, pr, lay, &labels[..d.k.min(2)], queries),
            }
        }
        LT::Str => {
            let names = ["setosa", "", "Versicolor", "virginica ", "ünï", "z"];
            let labels: Vec<String> = (0..d.k)
                .map(|c| {
                    if c < names.len() {
                        names[c].to_string()
                    } else {
                        format!("class-{c}")
                    }
                })
                .collect();
            match ft {
                FT::F32 => fit_observe::<f32, String>(d, pr, lay, &labels, queries),
                FT::F64 => fit_observe::<f64, String>(d, pr, lay, &labels, queries),
            }
        }
    }
}

// ------------------------------------------------------------------------------------------
// the oracle
// ------------------------------------------------------------------------------------------

struct Viol {
    sig: String,
    detail: Value,
}
type VR<T> = Result<T, Viol>;

macro_rules! vbail {
    ($sig:expr, $($j:tt)+) => {
        return Err(Viol { sig: $sig.to_string(), detail: json!($($j)+) })
    };
}

#[derive(Default)]
struct Shape {
    nodes: usize,
    leaves: usize,
    splits: usize,
    maxdepth: usize,
    feats: BTreeSet<usize>,
}

/// rule-independent well-formedness
fn structure(node: &PNode, depth: usize, p: usize, pr: &Params, sh: &mut Shape) -> VR<()> {
    sh.nodes += 1;
    sh.maxdepth = sh.maxdepth.max(depth);
    if node.arity != 2 {
        vbail!("C14/structure/children-arity", {"depth": depth, "children_len": node.arity});
    }
    if node.depth != depth {
        vbail!("C14/structure/depth-field", {"walk_depth": depth, "node_depth": node.depth});
    }
    if let Some(m) = pr.max_depth {
        if depth > m {
            vbail!("C14/limits/max-depth", {"max_depth": m, "node_depth": depth});
        }
    }
    if node.leaf {
        if node.kids.iter().any(|k| k.is_some()) {
            vbail!("C14/structure/leaf-with-child", {"depth": depth,
                "left": node.kids[0].is_some(), "right": node.kids[1].is_some(),
                "feature": node.feat, "threshold": node.thr});
        }
        match &node.pred {
            None => vbail!("C14/leaf/no-prediction", {"depth": depth}),
            Some(Err(l)) => vbail!("C14/leaf/unseen-label", {"depth": depth, "label": l}),
            Some(Ok(_)) => {}
        }
        sh.leaves += 1;
    } else {
        if node.kids.iter().any(|k| k.is_none()) {
            vbail!("C14/structure/split-missing-child", {"depth": depth,
                "left": node.kids[0].is_some(), "right": node.kids[1].is_some()});
        }
        if node.pred.is_some() {
            vbail!("C14/structure/split-has-prediction", {"depth": depth});
        }
        if node.feat >= p {
            vbail!("C14/structure/feature-index", {"depth": depth, "feature": node.feat, "nfeatures": p});
        }
        if !node.thr.is_finite() {
            vbail!("C14/structure/split-not-finite", {"depth": depth, "feature": node.feat,
                "threshold": format!("{}", node.thr)});
        }
        if !node.dec.is_finite() {
            vbail!("C14/decrease/not-finite", {"depth": depth, "reported": format!("{}", node.dec)});
        }
        sh.splits += 1;
        sh.feats.insert(node.feat);
        for k in node.kids.iter().flatten() {
            structure(k, depth + 1, p, pr, sh)?;
        }
    }
    Ok(())
}

#[derive(Clone, Copy, PartialEq, Debug)]
enum Rule {
    Lt,
    Le,
}

struct WalkOut {
    /// label predicted by the leaf each training sample is routed to
    leaf_label: Vec<Option<usize>>,
    /// first violated statistic, if any
    first: Option<Viol>,
    contacts: usize,
    ties: usize,
    res_dec_exact: f64,
    res_dec_float: f64,
    /// residual in units of the tolerance's scale (eps32*S resp. eps32*S*(1+n))
    res_dec_units: f64,
    /// over nodes whose decrease was refuted: largest tolerance/residual (how close a refuted
    /// node came to being accepted; reported for the mutation margins)
    refuted_closest: f64,
    evals: u64,
}

fn impurity(freq: &[f64], entropy: bool) -> f64 {
    let tot: f64 = freq.iter().sum();
    if !(tot > 0.0) {
        return 0.0;
    }
    if entropy {
        freq.iter()
            .map(|f| {
                let q = f / tot;
                if q > 0.0 {
                    -q * q.log2()
                } else {
                    0.0
                }
            })
            .sum()
    } else {
        1.0 - freq.iter().map(|f| (f / tot) * (f / tot)).sum::<f64>()
    }
}

fn class_freq(d: &Data, idx: &[usize]) -> Vec<f64> {
    let mut f = vec![0.0; d.k];
    for &i in idx {
        f[d.y[i]] += d.weight(i);
    }
    f
}

/// tolerance of the comparison "reported decrease vs recomputed decrease". linfa evaluates the
/// criterion in f32 whatever the element type is.
fn dec_tol(d: &Data, pr: &Params, n_node: usize) -> f64 {
    let scale = if pr.entropy {
        (d.k as f64).log2().max(1.0)
    } else {
        1.0
    };
    if d.exact_w {
        // class weights are exact; only p = f/n, p*p (or p*log2 p), k-term sums, the convex
        // combination and one final subtraction round: a few eps32 each
        DEC_C * EPS32 * scale
    } else {
        // class weights are running f32 sums over up to n_node samples (right side obtained by
        // subtraction from the node totals): absolute error <= n_node * eps32 * W on a frequency
        // of scale W, entering the score with weight w_side / W
        DEC_C * EPS32 * scale * (1.0 + n_node as f64)
    }
}

fn walk(node: &PNode, samples: Vec<usize>, depth: usize, d: &Data, pr: &Params, mid_f: f64, rule: Rule, out: &mut WalkOut) {
    let n_s = samples.len();
    let wsum = |idx: &[usize]| idx.iter().map(|&i| d.weight(i)).sum::<f64>();
    out.evals += 1;
    macro_rules! flag {
        ($sig:expr, $($j:tt)+) => {
            if out.first.is_none() {
                out.first = Some(Viol { sig: $sig.to_string(), detail: json!($($j)+) });
            }
        };
    }
    if node.leaf {
        let pred = match &node.pred {
            Some(Ok(c)) => *c,
            _ => return, // reported by `structure`
        };
        for &i in &samples {
            out.leaf_label[i] = Some(pred);
        }
        if n_s == 0 {
            flag!("C14/routing/empty-leaf", {"depth": depth, "rule": format!("{rule:?}")});
            return;
        }
        let f = class_freq(d, &samples);
        let w: f64 = f.iter().sum();
        let floor = if d.exact_w { 0.0 } else { 8.0 * EPS32 * n_s as f64 * w };
        let maxf = f.iter().cloned().fold(f64::NEG_INFINITY, f64::max);
        if f[pred] < maxf - floor {
            flag!("C14/leaf/not-majority", {"depth": depth, "rule": format!("{rule:?}"),
                "predicted_class": pred, "class_weights": f, "samples": n_s});
        }
        if f.iter().filter(|v| **v >= maxf - floor).count() > 1 {
            out.ties += 1;
        }
        return;
    }
    // split node
    let (feat, thr) = (node.feat, node.thr);
    if (n_s as f64) < pr.mws as f64 {
        flag!("C14/limits/min-weight-split", {"depth": depth, "rule": format!("{rule:?}"),
            "samples_reaching": n_s, "min_weight_split": pr.mws});
    }
    let (mut left, mut right) = (vec![], vec![]);
    for &i in &samples {
        let v = d.x[i * d.p + feat];
        if v == thr {
            out.contacts += 1;
        }
        let go_left = match rule {
            Rule::Lt => v < thr,
            Rule::Le => v <= thr,
        };
        if go_left {
            left.push(i);
        } else {
            right.push(i);
        }
    }
    let (wl, wr) = (wsum(&left), wsum(&right));
    let w = wl + wr;
    let floor_w = if d.exact_w { 0.0 } else { 8.0 * EPS32 * n_s as f64 * w };
    let mwl = pr.mwl as f64;
    if wl < mwl - floor_w || wr < mwl - floor_w {
        flag!("C14/limits/min-weight-leaf", {"depth": depth, "rule": format!("{rule:?}"),
            "feature": feat, "threshold": thr, "weight_left": wl, "weight_right": wr,
            "n_left": left.len(), "n_right": right.len(), "min_weight_leaf": pr.mwl});
    }
    if w > 0.0 {
        let truth = impurity(&class_freq(d, &samples), pr.entropy)
            - (wl / w) * impurity(&class_freq(d, &left), pr.entropy)
            - (wr / w) * impurity(&class_freq(d, &right), pr.entropy);
        let r = (node.dec - truth).abs();
        let tol = dec_tol(d, pr, n_s);
        if !(r <= tol) {
            out.refuted_closest = out.refuted_closest.max(tol / r);
            flag!("C14/decrease/mismatch", {"depth": depth, "rule": format!("{rule:?}"),
                "feature": feat, "threshold": thr, "reported": node.dec, "recomputed": truth,
                "tolerance": tol, "n_left": left.len(), "n_right": right.len()});
        } else {
            if d.exact_w {
                out.res_dec_exact = out.res_dec_exact.max(r);
            } else {
                out.res_dec_float = out.res_dec_float.max(r);
            }
            out.res_dec_units = out.res_dec_units.max(r / tol * DEC_C);
        }
        if !(node.dec >= mid_f) {
            flag!("C14/limits/min-impurity-decrease", {"depth": depth,
                "reported": node.dec, "min_impurity_decrease": mid_f});
        }
        if truth < mid_f - tol {
            flag!("C14/limits/min-impurity-decrease-actual", {"depth": depth, "rule": format!("{rule:?}"),
                "recomputed": truth, "min_impurity_decrease": mid_f});
        }
    } else if !(node.dec >= mid_f) {
        flag!("C14/limits/min-impurity-decrease", {"depth": depth,
            "reported": node.dec, "min_impurity_decrease": mid_f});
    }
    if let (Some(l), Some(r)) = (&node.kids[0], &node.kids[1]) {
        walk(l, left, depth + 1, d, pr, mid_f, rule, out);
        walk(r, right, depth + 1, d, pr, mid_f, rule, out);
    }
}

fn run_walk(o: &Obs, d: &Data, pr: &Params, rule: Rule) -> WalkOut {
    let mut out = WalkOut {
        leaf_label: vec![None; d.n],
        first: None,
        contacts: 0,
        ties: 0,
        res_dec_exact: 0.0,
        res_dec_float: 0.0,
        res_dec_units: 0.0,
        refuted_closest: 0.0,
        evals: 0,
    };
    walk(&o.root, (0..d.n).collect(), 0, d, pr, o.mid_f, rule, &mut out);
    out
}

struct Info {
    splits: usize,
    leaves: usize,
    depth: usize,
    contact: bool,
}

fn labels_match(w: &WalkOut, o: &Obs) -> Result<(), (usize, Option<usize>, String)> {
    for (i, (a, b)) in w.leaf_label.iter().zip(o.pred_train.iter()).enumerate() {
        match (a, b) {
            (Some(x), Ok(y)) if x == y => {}
            _ => return Err((i, *a, format!("{b:?}"))),
        }
    }
    Ok(())
}

fn judge(c: &mut Case, d: &Data, pr: &Params, o: &Obs, queries: &[f64]) -> VR<Info> {
    // ---- S1 structure
    let mut sh = Shape::default();
    structure(&o.root, 0, d.p, pr, &mut sh)?;
    // ---- S2 observers agree with the walk
    if o.max_depth != sh.maxdepth {
        vbail!("C14/observers/max-depth", {"reported": o.max_depth, "walk": sh.maxdepth});
    }
    if o.num_leaves != sh.leaves || o.iter_leaves != sh.leaves {
        vbail!("C14/observers/num-leaves", {"num_leaves": o.num_leaves, "iter_leaves": o.iter_leaves, "walk": sh.leaves});
    }
    if o.iter_nodes != sh.nodes {
        vbail!("C14/observers/iter-nodes", {"iterated": o.iter_nodes, "walk": sh.nodes});
    }
    if sh.leaves != sh.splits + 1 {
        vbail!("C14/structure/leaf-count", {"leaves": sh.leaves, "splits": sh.splits});
    }
    {
        let got: BTreeSet<usize> = o.features.iter().cloned().collect();
        if got != sh.feats || got.len() != o.features.len() {
            vbail!("C14/observers/features", {"reported": o.features, "walk": sh.feats});
        }
    }
    // ---- predictions only name training labels
    if o.pred_train.len() != d.n {
        vbail!("C14/predict/length", {"n": d.n, "got": o.pred_train.len()});
    }
    for (i, l) in o.pred_train.iter().enumerate() {
        if let Err(l) = l {
            vbail!("C14/predict/unseen-label", {"row": i, "label": l, "set": "training"});
        }
    }
    for (i, l) in o.pred_query.iter().enumerate() {
        if let Err(l) = l {
            vbail!("C14/predict/unseen-label", {"row": i, "label": l, "set": "query"});
        }
    }
    // ---- S3 statistics and routing
    let lt = run_walk(o, d, pr, Rule::Lt);
    c.evals += lt.evals;
    if lt.refuted_closest > 0.0 {
        c.resid("diagnostic: decrease readings refuted under `<` (incl. threshold-contact cases later accepted under `<=`), largest tolerance/residual", lt.refuted_closest);
    }
    let contact = lt.contacts > 0;
    let accepted: &WalkOut;
    let le;
    if !contact {
        if let Some(v) = lt.first {
            return Err(v);
        }
        if let Err((row, walk_label, pred)) = labels_match(&lt, o) {
            vbail!("C14/predict/disagrees-with-tree", {"row": row, "leaf_class": walk_label, "predicted": pred});
        }
        accepted = &lt;
    } else {
        // a training value sits exactly on a threshold of its path: "left" is `<` or `<=`.
        // One reading must explain the statistics and the predictions at once.
        le = run_walk(o, d, pr, Rule::Le);
        c.evals += le.evals;
        let (s_lt, s_le) = (lt.first.is_none(), le.first.is_none());
        let (l_lt, l_le) = (labels_match(&lt, o).is_ok(), labels_match(&le, o).is_ok());
        if s_le && l_le {
            accepted = &le;
        } else if s_lt && l_lt {
            accepted = &lt;
        } else if (s_le && l_lt) || (s_lt && l_le) {
            let (fit_rule, pred_rule) = if s_le { ("<=", "<") } else { ("<", "<=") };
            // first training row whose fit-time leaf and predict-time leaf differ
            let (stat, lab) = if s_le { (&le, &lt) } else { (&lt, &le) };
            let row = (0..d.n).find(|&i| stat.leaf_label[i] != lab.leaf_label[i]);
            vbail!("C14/routing/fit-predict-differ", {
                "statistics_explained_by": fit_rule, "predictions_explained_by": pred_rule,
                "contacts": lt.contacts, "example_row": row,
                "fit_leaf_class": row.map(|i| stat.leaf_label[i]),
                "predicted": row.map(|i| format!("{:?}", o.pred_train[i])),
                "row_values": row.map(|i| d.x[i * d.p..(i + 1) * d.p].to_vec())});
        } else if l_lt {
            return Err(lt.first.unwrap());
        } else if l_le {
            return Err(le.first.unwrap());
        } else {
            let (row, walk_label, pred) = labels_match(&lt, o).unwrap_err();
            vbail!("C14/predict/disagrees-with-tree", {"row": row, "leaf_class": walk_label,
                "predicted": pred, "threshold_contact": true});
        }
    }
    if accepted.ties > 0 {
        c.count_n("tie-class-leaves", accepted.ties as u64);
    }
    if d.exact_w {
        c.resid("decrease |reported-recomputed|, exact weights (abs)", accepted.res_dec_exact);
        c.resid("decrease residual in units of eps32*S, exact weights (threshold 256)", accepted.res_dec_units);
    } else {
        c.resid("decrease |reported-recomputed|, float weights (abs)", accepted.res_dec_float);
        c.resid("decrease residual in units of eps32*S*(1+n), float weights (threshold 256)", accepted.res_dec_units);
    }
    // ---- S4 importances
    if sh.splits > 0 {
        if o.importance.len() != d.p {
            vbail!("C14/importance/length", {"got": o.importance.len(), "nfeatures": d.p});
        }
        if let Some((j, v)) = o.importance.iter().enumerate().find(|(_, v)| !(**v >= 0.0) || !v.is_finite()) {
            vbail!("C14/importance/negative", {"feature": j, "value": format!("{v}"), "all": format!("{:?}", o.importance)});
        }
        let s: f64 = o.importance.iter().sum();
        let r = (s - 1.0).abs();
        let tol = 64.0 * o.eps * d.p as f64;
        if !(r <= tol) {
            vbail!("C14/importance/sum", {"sum": s, "importances": o.importance, "tolerance": tol});
        }
        c.resid("importance |sum-1| / eps_F", r / o.eps);
    } else {
        c.count("trees-without-split");
    }
    // ---- S5 fresh queries end in the leaf the published tree sends them to
    if d.p > 0 {
        for (qi, pl) in o.pred_query.iter().enumerate() {
            let q = &queries[qi * d.p..(qi + 1) * d.p];
            let mut node = &o.root;
            let mut on_threshold = false;
            while !node.leaf {
                let v = q[node.feat];
                if v == node.thr || v.is_nan() {
                    on_threshold = true;
                    break;
                }
                let k = if v < node.thr { 0 } else { 1 };
                node = node.kids[k].as_ref().unwrap();
            }
            if on_threshold {
                c.count("queries-on-threshold (label set only)");
                continue;
            }
            if let (Some(Ok(a)), Ok(b)) = (&node.pred, pl) {
                if a != b {
                    vbail!("C14/predict/query-disagrees-with-tree", {"query": q, "leaf_class": a, "predicted_class": b});
                }
            }
            c.evals += 1;
        }
    }
    Ok(Info {
        splits: sh.splits,
        leaves: sh.leaves,
        depth: sh.maxdepth,
        contact,
    })
}

/// min_weight_leaf cannot keep a weightless side out of the sweep: it is <= 0, or (weights that
/// are not exactly summable in f32) below the rounding noise 8*eps32*n*W of linfa's running
/// weight sums, so that an empty side can show a positive residual weight
fn mwl_below_noise(d: &Data, pr: &Params) -> bool {
    let wtot: f64 = (0..d.n).map(|i| d.weight(i)).sum();
    pr.mwl <= 0.0 || (!d.exact_w && (pr.mwl as f64) < 8.0 * EPS32 * d.n as f64 * wtot)
}

fn trace_fits() -> bool {
    use std::sync::OnceLock;
    static T: OnceLock<bool> = OnceLock::new();
    *T.get_or_init(|| std::env::var("C14_TRACE_FIT").is_ok())
}

/// fit, observe, judge; classification of failures into the three-valued outcome
fn check(c: &mut Case, d: &Data, pr: &Params, ft: FT, lt: LT, lay: Lay, queries: &[f64]) -> Result<Info, Outcome> {
    let desc = || json!({"params": pr.to_json(),
        "float": format!("{ft:?}"), "label": format!("{lt:?}"),
        "layout": format!("{lay:?}"), "n": d.n, "p": d.p, "k": d.k,
        "x": if d.x.len() <= 400 { json!(d.x) } else { json!(format!("{} values, digest {:x}", d.x.len(), d.digest())) },
        "y": if d.y.len() <= 400 { json!(d.y) } else { json!("…") },
        "w": if d.n <= 400 { json!(d.w) } else { json!("…") }});
    if trace_fits() {
        // witness collection after a process abort: the last line printed names the fit that died
        let mut v = desc();
        v["x_bits"] = json!(d.x.iter().map(|x| format!("{:016x}", x.to_bits())).collect::<Vec<_>>());
        v["min_weight_leaf_below_noise"] = json!(mwl_below_noise(d, pr));
        eprintln!("C14-FIT {v}");
    }
    let o = match observe(d, pr, ft, lt, lay, queries) {
        Ok(o) => o,
        Err(FitFail::Panic(stage, msg)) => {
            // discriminating signature for one specific failure: the impurity helpers assert a
            // positive weight, which a candidate split with a weightless side violates when
            // min_weight_leaf does not exclude it (`mwl_below_noise`). Every other panic keeps
            // the generic signature.
            let sig = if stage == "fit" && msg.contains("n_samples > 0.0") && mwl_below_noise(d, pr) {
                "C14/fit/panic-weightless-side".to_string()
            } else {
                format!("C14/{stage}/panic")
            };
            return Err(violated(sig, json!({"panic": msg, "case": desc()})));
        }
        Err(FitFail::Err(e)) => return Err(inconclusive(format!("fit returned Err: {e}"))),
    };
    match judge(c, d, pr, &o, queries) {
        Ok(i) => Ok(i),
        Err(v) => Err(violated(v.sig, json!({"why": v.detail, "case": desc()}))),
    }
}

// ------------------------------------------------------------------------------------------
// workload generators
// ------------------------------------------------------------------------------------------

fn round_to(ft: FT, v: f64) -> f64 {
    match ft {
        FT::F32 => v as f32 as f64,
        FT::F64 => v,
    }
}

fn eps_of(ft: FT) -> f64 {
    match ft {
        FT::F32 => f32::EPSILON as f64,
        FT::F64 => f64::EPSILON,
    }
}

fn gen_column(rng: &mut Rng, ft: FT, n: usize, kind: usize) -> Vec<f64> {
    use crate::gen::normal;
    let v: Vec<f64> = match kind {
        // continuous
        0 => (0..n).map(|_| normal(rng)).collect(),
        // few integer levels: many duplicates
        1 => {
            let m = rng.gen_range(2..7);
            (0..n).map(|_| rng.gen_range(0..m) as f64).collect()
        }
        // constant
        2 => {
            let cst = *crate::gen::pick(rng, &[0.0, -1.5, 1e6, 3.0]);
            vec![cst; n]
        }
        // binary, signed zero
        3 => (0..n)
            .map(|_| if rng.gen_bool(0.5) { 1.0 } else if rng.gen_bool(0.5) { 0.0 } else { -0.0 })
            .collect(),
        // large offset, small spread (few distinct representable values in f32)
        4 => (0..n).map(|_| 1.0e6 + 0.25 * rng.gen_range(0..12) as f64).collect(),
        // values closer than linfa's 1e-5 "equal" window mixed with resolvable ones
        5 => (0..n)
            .map(|_| 3.0e-6 * rng.gen_range(0..8) as f64 + 1.0e-3 * rng.gen_range(0..3) as f64)
            .collect(),
        // half integers around zero
        6 => (0..n).map(|_| 0.5 * rng.gen_range(-6..7) as f64).collect(),
        // badly scaled
        7 => {
            let s = match ft {
                FT::F32 => 1.0e30,
                FT::F64 => 1.0e200,
            };
            (0..n).map(|_| s * normal(rng)).collect()
        }
        // tiny scale, far above the equality window only relatively
        _ => (0..n).map(|_| 1.0e-3 * normal(rng)).collect(),
    };
    v.into_iter().map(|x| round_to(ft, x)).collect()
}

#[derive(Clone, Copy, PartialEq, Debug)]
enum WMode {
    None,
    Int,
    Quarter,
    Float,
    /// arbitrary floats times 2^64 or 2^66: totals stay far inside the f32 range, squares do not
    Huge,
}

fn gen_weights(rng: &mut Rng, n: usize, mode: WMode) -> (Option<Vec<f32>>, bool) {
    match mode {
        WMode::None => (None, true),
        WMode::Int => (Some((0..n).map(|_| rng.gen_range(1..5) as f32).collect()), true),
        // multiples of 1/4 including zero weights
        WMode::Quarter => (
            Some((0..n).map(|_| 0.25 * rng.gen_range(0..17) as f32).collect()),
            true,
        ),
        // arbitrary floats of moderate dynamic range
        WMode::Float => (
            Some((0..n).map(|_| if rng.gen_bool(0.05) { 0.0 } else { 0.5 + 1.5 * rng.gen::<f32>() }).collect()),
            false,
        ),
        WMode::Huge => {
            let scale = if rng.gen_bool(0.5) { 18446744073709551616.0f32 } else { 73786976294838206464.0f32 };
            (Some((0..n).map(|_| (0.5 + 1.5 * rng.gen::<f32>()) * scale).collect()), false)
        }
    }
}

/// random labelled dataset with hostile columns, duplicates with conflicting labels
fn gen_data(rng: &mut Rng, ft: FT, n: usize, p: usize, k: usize, wmode: WMode) -> (Data, Vec<usize>) {
    let mut kinds = vec![];
    let mut cols = vec![];
    for _ in 0..p {
        let kind = rng.gen_range(0..9);
        kinds.push(kind);
        cols.push(gen_column(rng, ft, n, kind));
    }
    let mut x = vec![0.0; n * p];
    for j in 0..p {
        for i in 0..n {
            x[i * p + j] = cols[j][i];
        }
    }
    // labels
    let mode = if p == 0 { 2 } else { rng.gen_range(0..4) };
    let mut y = vec![0usize; n];
    match mode {
        // structured: sum of threshold indicators on random columns
        0 | 1 => {
            let terms: Vec<(usize, f64)> = (0..rng.gen_range(1..4))
                .map(|_| {
                    let j = rng.gen_range(0..p);
                    (j, cols[j][rng.gen_range(0..n)])
                })
                .collect();
            let noise = if mode == 0 { 0.0 } else { 0.15 };
            for i in 0..n {
                let mut s = 0usize;
                for (t, (j, thr)) in terms.iter().enumerate() {
                    if x[i * p + j] > *thr {
                        s += t + 1;
                    }
                }
                y[i] = if rng.gen_bool(noise) { rng.gen_range(0..k) } else { s % k };
            }
        }
        // pure noise
        2 => {
            for v in y.iter_mut() {
                *v = rng.gen_range(0..k);
            }
        }
        // imbalanced
        _ => {
            for v in y.iter_mut() {
                *v = if rng.gen_bool(0.8) { 0 } else { rng.gen_range(0..k) };
            }
        }
    }
    // duplicates: copy rows, keep or change the label
    let ndup = if rng.gen_bool(0.6) { rng.gen_range(0..=n / 3) } else { 0 };
    for _ in 0..ndup {
        let (a, b) = (rng.gen_range(0..n), rng.gen_range(0..n));
        for j in 0..p {
            x[b * p + j] = x[a * p + j];
        }
        y[b] = if rng.gen_bool(0.5) { y[a] } else { rng.gen_range(0..k) };
    }
    // at least two classes whenever possible
    if n >= 2 && y.iter().all(|v| *v == y[0]) {
        y[n - 1] = (y[0] + 1) % k;
    }
    let (w, exact_w) = gen_weights(rng, n, wmode);
    (Data { n, p, x, y, k, w, exact_w }, kinds)
}

fn gen_params(rng: &mut Rng, ft: FT, n: usize) -> Params {
    use crate::gen::pick;
    let nf = n as f32;
    let eps = eps_of(ft);
    Params {
        entropy: rng.gen_bool(0.5),
        max_depth: if rng.gen_bool(0.06) {
            Some(0)
        } else {
            *pick(rng, &[Some(1), Some(2), Some(3), Some(5), Some(8), Some(64), None, None, None])
        },
        mws: if rng.gen_bool(0.5) {
            2.0
        } else {
            *pick(rng, &[0.0, 1.0, 3.0, 4.0, 5.0, 10.0, 2.5, (nf / 3.0).floor(), (nf / 2.0).floor(), nf, nf + 1.0])
        },
        mwl: if rng.gen_bool(0.4) {
            1.0
        } else {
            *pick(rng, &[2.0, 3.0, 5.0, 0.25, 0.5, 1.5, 2.25, (nf / 8.0).floor().max(1.0), (nf / 4.0).floor().max(1.0)])
        },
        mid: *pick(rng, &[eps, 1e-7f64.max(eps), 1e-5, 1e-5, 1e-5, 1e-3, 1e-3, 0.01, 0.03, 0.1, 0.3, 1.0]),
    }
}

fn gen_queries(rng: &mut Rng, ft: FT, d: &Data, nq: usize) -> Vec<f64> {
    let mut q = Vec::with_capacity(nq * d.p);
    if d.n == 0 {
        return q;
    }
    for _ in 0..nq {
        let i = rng.gen_range(0..d.n);
        for j in 0..d.p {
            let base = d.x[rng.gen_range(0..d.n) * d.p + j];
            let v = match rng.gen_range(0..8) {
                0 => d.x[i * d.p + j],
                1 => base,
                2 => base + 0.5,
                3 => base * (1.0 + 4.0 * eps_of(ft)),
                4 => base * (1.0 - 4.0 * eps_of(ft)),
                5 => f64::INFINITY,
                6 => f64::NEG_INFINITY,
                _ => base + crate::gen::normal(rng),
            };
            let v = round_to(ft, v);
            q.push(if v.is_nan() { 0.0 } else { v });
        }
    }
    q
}

fn pick_layout(rng: &mut Rng) -> Lay {
    *crate::gen::pick(rng, &[Lay::C, Lay::C, Lay::F, Lay::Strided, Lay::Reversed])
}

fn finish(c: &mut Case, r: Result<Info, Outcome>, key: String) -> Outcome {
    match r {
        Ok(i) => {
            c.note("splits", json!(i.splits));
            c.note("leaves", json!(i.leaves));
            c.note("depth", json!(i.depth));
            if i.splits > 0 {
                c.count("trees-with-split");
            }
            if i.contact {
                c.count("threshold-contact-held");
            }
            held(i.splits > 0, key)
        }
        Err(o) => o,
    }
}

/// one random case for a given label type
fn random_case(c: &mut Case, lt: LT, wmodes: &[WMode], nmax: usize) -> Outcome {
    let ft = if c.rng.gen_bool(0.5) { FT::F32 } else { FT::F64 };
    let n = match c.rng.gen_range(0..4) {
        0 => c.rng.gen_range(1..8),
        1 => c.rng.gen_range(8..40),
        _ => c.rng.gen_range(8..=nmax),
    };
    // 1..6 features; now and then a record matrix without any column
    let p = if c.rng.gen_bool(0.02) { 0 } else { c.rng.gen_range(1..7) };
    let k = if lt == LT::Bool { 2 } else { c.rng.gen_range(2..7) };
    let wmode = *crate::gen::pick(&mut c.rng, wmodes);
    let (d, kinds) = gen_data(&mut c.rng, ft, n, p, k, wmode);
    let pr = gen_params(&mut c.rng, ft, n);
    let lay = pick_layout(&mut c.rng);
    let q = gen_queries(&mut c.rng, ft, &d, 24);
    c.note("n", json!(n));
    c.note("p", json!(p));
    c.note("k", json!(k));
    c.note("float", json!(format!("{ft:?}")));
    c.note("layout", json!(format!("{lay:?}")));
    c.note("weights", json!(format!("{wmode:?}")));
    c.note("column_kinds", json!(kinds));
    c.note("params", pr.to_json());
    let r = check(c, &d, &pr, ft, lt, lay, &q);
    let key = format!("{ft:?}/{lt:?}/{lay:?}/{wmode:?}/{}/{:x}", pr.describe(), d.digest());
    finish(c, r, key)
}

/// next representable value above v (v finite, positive or negative) in the element type
fn next_up(ft: FT, v: f64) -> f64 {
    match ft {
        FT::F32 => {
            let f = v as f32;
            let b = f.to_bits();
            let nb = if f == 0.0 {
                1
            } else if f > 0.0 {
                b + 1
            } else {
                b - 1
            };
            f32::from_bits(nb) as f64
        }
        FT::F64 => {
            let b = v.to_bits();
            let nb = if v == 0.0 {
                1
            } else if v > 0.0 {
                b + 1
            } else {
                b - 1
            };
            f64::from_bits(nb)
        }
    }
}

/// values one or a few ulps apart at magnitudes where the midpoint of two neighbours is not
/// representable, labels changing between neighbours
fn dense_case(c: &mut Case) -> Outcome {
    let ft = if c.idx % 2 == 0 { FT::F32 } else { FT::F64 };
    let mode = c.rng.gen_range(0..10);
    // magnitude: differences must exceed linfa's 1e-5 equality window to be split at all
    let base: f64 = match (mode, ft) {
        // a + b overflows
        (0, FT::F32) => 2.5e38,
        (0, FT::F64) => 1.2e308,
        (_, FT::F32) => (2.0f64).powi(c.rng.gen_range(7..21)) * (1.0 + c.rng.gen::<f64>()),
        (_, FT::F64) => (2.0f64).powi(c.rng.gen_range(37..53)) * (1.0 + c.rng.gen::<f64>()),
    };
    let base = round_to(ft, base);
    let negative = mode == 1;
    let nlev = c.rng.gen_range(2..9);
    // ladder of nearby representable values
    let mut levels = vec![base];
    for _ in 1..nlev {
        let mut v = *levels.last().unwrap();
        for _ in 0..*crate::gen::pick(&mut c.rng, &[1usize, 1, 1, 2, 3]) {
            v = next_up(ft, v);
        }
        levels.push(v);
    }
    if negative {
        levels = levels.into_iter().map(|v| -v).rev().collect();
    }
    let n = c.rng.gen_range(nlev..(4 * nlev + 2));
    let p = c.rng.gen_range(1..3);
    let k = c.rng.gen_range(2..5);
    // label of a level: changes between neighbours
    let lev_label: Vec<usize> = match c.rng.gen_range(0..3) {
        0 => (0..nlev).map(|l| l % k).collect(),
        1 => {
            let cut = c.rng.gen_range(1..nlev);
            (0..nlev).map(|l| (l >= cut) as usize).collect()
        }
        _ => (0..nlev).map(|_| c.rng.gen_range(0..k)).collect(),
    };
    let mut x = vec![0.0; n * p];
    let mut y = vec![0; n];
    for i in 0..n {
        let l = if i < nlev { i } else { c.rng.gen_range(0..nlev) };
        x[i * p] = levels[l];
        y[i] = if c.rng.gen_bool(0.9) { lev_label[l] } else { c.rng.gen_range(0..k) };
        if p > 1 {
            x[i * p + 1] = if c.rng.gen_bool(0.5) { 0.0 } else { 1.0 };
        }
    }
    if y.iter().all(|v| *v == y[0]) {
        y[n - 1] = (y[0] + 1) % k;
    }
    let wmode = *crate::gen::pick(&mut c.rng, &[WMode::None, WMode::None, WMode::Int]);
    let (w, exact_w) = gen_weights(&mut c.rng, n, wmode);
    let d = Data { n, p, x, y, k, w, exact_w };
    let pr = Params {
        entropy: c.rng.gen_bool(0.5),
        max_depth: *crate::gen::pick(&mut c.rng, &[None, None, Some(1), Some(3)]),
        mws: 2.0,
        mwl: 1.0,
        mid: *crate::gen::pick(&mut c.rng, &[1e-5, 1e-5, eps_of(ft), 0.01]),
    };
    let lt = *crate::gen::pick(&mut c.rng, &[LT::Usize, LT::Usize, LT::Str]);
    let lay = pick_layout(&mut c.rng);
    // queries: the levels themselves and their neighbours
    let mut q = vec![];
    for l in &levels {
        for v in [*l, next_up(ft, *l)] {
            q.push(v);
            if p > 1 {
                q.push(0.0);
            }
        }
    }
    c.note("float", json!(format!("{ft:?}")));
    c.note("levels", json!(levels));
    c.note("mode", json!(mode));
    c.note("n", json!(n));
    c.note("params", pr.to_json());
    let r = check(c, &d, &pr, ft, lt, lay, &q);
    let key = format!("dense/{ft:?}/{lt:?}/{}/{:x}", pr.describe(), d.digest());
    finish(c, r, key)
}

/// complete enumeration of a small scope: every feature pattern x every labelling x a parameter
/// grid. `case` selects (n, feature pattern); labellings and parameters are looped inside.
fn exhaustive_case(c: &mut Case, scope: &Scope, n: usize, code: usize) -> Outcome {
    let nv = scope.values.len();
    let p = scope.p;
    // decode feature pattern: n*p digits base nv
    let mut x = vec![0.0; n * p];
    let mut cc = code;
    for v in x.iter_mut() {
        *v = scope.values[cc % nv];
        cc /= nv;
    }
    let ft = if (code + n) % 2 == 0 { FT::F64 } else { FT::F32 };
    let k = scope.k;
    let nlab = k.pow(n as u32);
    let nwp = scope.weight_patterns.len();
    let mut splits_seen = 0usize;
    let mut evals = 0u64;
    c.note("scope", json!(scope.name));
    c.note("n", json!(n));
    c.note("x", json!(x));
    for lab in 0..nlab {
        let mut y = vec![0usize; n];
        let mut l = lab;
        for v in y.iter_mut() {
            *v = l % k;
            l /= k;
        }
        for wp in 0..nwp {
            let w: Option<Vec<f32>> = scope.weight_patterns[wp]
                .as_ref()
                .map(|pat| (0..n).map(|i| pat[i % pat.len()]).collect());
            let d = Data { n, p, x: x.clone(), y: y.clone(), k, w, exact_w: true };
            for pr in &scope.grid {
                evals += 1;
                match check(c, &d, pr, ft, scope.lt, Lay::C, &[]) {
                    Ok(i) => {
                        if i.splits > 0 {
                            splits_seen += 1;
                        }
                    }
                    Err(o) => return o,
                }
            }
        }
    }
    c.evals = c.evals.max(evals);
    c.count_n("exhaustive-fits", evals);
    c.count_n("exhaustive-fits-with-split", splits_seen as u64);
    c.note("fits", json!(evals));
    held(splits_seen > 0, format!("{}/n{n}/x{code}", scope.name))
}

struct Scope {
    name: &'static str,
    p: usize,
    k: usize,
    lt: LT,
    values: Vec<f64>,
    weight_patterns: Vec<Option<Vec<f32>>>,
    grid: Vec<Params>,
    nmax: usize,
}

fn small_grid(mids: &[f64]) -> Vec<Params> {
    let mut g = vec![];
    for entropy in [false, true] {
        for max_depth in [Some(0), Some(1), Some(2), None] {
            for mws in [2.0f32, 3.0] {
                for mwl in [1.0f32, 2.0] {
                    for &mid in mids {
                        g.push(Params { entropy, max_depth, mws, mwl, mid });
                    }
                }
            }
        }
    }
    g
}

/// one data set against the whole limit grid
fn limits_case(c: &mut Case) -> Outcome {
    let ft = if c.idx % 2 == 0 { FT::F64 } else { FT::F32 };
    let n = c.rng.gen_range(12..c.tier.pick(60, 120));
    let p = c.rng.gen_range(1..5);
    let k = c.rng.gen_range(2..7);
    let wmode = *crate::gen::pick(&mut c.rng, &[WMode::None, WMode::Int, WMode::Quarter]);
    let (d, kinds) = gen_data(&mut c.rng, ft, n, p, k, wmode);
    let lt = *crate::gen::pick(&mut c.rng, &[LT::Usize, LT::Str]);
    let nf = n as f32;
    let depths = [Some(0), Some(1), Some(2), Some(5), None];
    let mwss = [0.0f32, 1.0, 2.0, 5.0, 10.0, (nf / 2.0).floor(), nf, nf + 1.0];
    let mwls = [0.25f32, 1.0, 2.0, 5.0, (nf / 4.0).floor(), (nf / 2.0).floor(), nf];
    let mids = [eps_of(ft), 1e-5, 1e-2, 0.1, 0.3, 0.6, 1.5];
    c.note("n", json!(n));
    c.note("p", json!(p));
    c.note("k", json!(k));
    c.note("column_kinds", json!(kinds));
    c.note("weights", json!(format!("{wmode:?}")));
    let mut evals = 0;
    let mut with_split = 0;
    let mut depth_tight = 0;
    for entropy in [false, true] {
        for max_depth in depths {
            for mws in mwss {
                for mwl in mwls {
                    for mid in mids {
                        let pr = Params { entropy, max_depth, mws, mwl, mid };
                        evals += 1;
                        match check(c, &d, &pr, ft, lt, Lay::C, &[]) {
                            Ok(i) => {
                                if i.splits > 0 {
                                    with_split += 1;
                                }
                                if Some(i.depth) == max_depth && i.depth > 0 {
                                    depth_tight += 1;
                                }
                            }
                            Err(o) => {
                                c.note("params", pr.to_json());
                                return o;
                            }
                        }
                    }
                }
            }
        }
    }
    c.evals = c.evals.max(evals);
    c.count_n("limit-grid-fits", evals);
    c.count_n("limit-grid-fits-with-split", with_split);
    c.count_n("limit-grid-fits-reaching-max-depth", depth_tight);
    held(with_split > 0, format!("limits/{ft:?}/{lt:?}/{:x}", d.digest()))
}

/// debugging aid: `C14_ONLY=fam1,fam2` restricts the run to the named families
fn enabled(name: &str) -> bool {
    std::env::var("C14_ONLY")
        .map(|o| o.split(',').any(|x| x == name))
        .unwrap_or(true)
}

// ------------------------------------------------------------------------------------------
// families; process isolation
// ------------------------------------------------------------------------------------------
//
// A decision-tree fit recurses once per tree level. A defect that stops the recursion from
// making progress (all samples sent to one side, no depth limit) ends in a stack overflow, which
// aborts the process and cannot be caught in-process. Every case therefore runs in a worker
// process (`vcheck child c14-cases ...`, one per worker thread, each running its share of the
// cases sequentially and streaming one result line per case). When a worker dies, the case it
// was working on is a violation `C14/fit/process-abort`, its witness is collected by re-running
// that single case with fit tracing, and a new worker continues with the remaining cases. The
// parent replays the streamed results into the framework's case runner.

struct Shared {
    scopes: Vec<Scope>,
    exh: Vec<(usize, usize, usize)>,
    nmax: usize,
}

fn shared(tier: Tier) -> Shared {
    let scopes = vec![
        Scope {
            name: "1feat-3values-3classes-usize",
            p: 1,
            k: 3,
            lt: LT::Usize,
            values: vec![0.0, 1.0, 2.0],
            weight_patterns: vec![None],
            grid: small_grid(&[1e-5, 0.2]),
            nmax: tier.pick(5, 6),
        },
        Scope {
            name: "2feat-binary-bool-weighted",
            p: 2,
            k: 2,
            lt: LT::Bool,
            values: vec![0.0, 1.0],
            weight_patterns: vec![None, Some(vec![1.0, 2.0]), Some(vec![0.5, 0.0, 1.5])],
            grid: small_grid(&[1e-5]),
            nmax: tier.pick(4, 5),
        },
        Scope {
            name: "1feat-4values-2classes-string",
            p: 1,
            k: 2,
            lt: LT::Str,
            values: vec![-1.0, 0.0, 0.5, 3.0],
            weight_patterns: vec![None, Some(vec![2.0, 1.0, 1.0])],
            grid: small_grid(&[1e-5, 0.3]),
            nmax: tier.pick(5, 6),
        },
    ];
    let mut exh = vec![];
    for (si, s) in scopes.iter().enumerate() {
        for n in 1..=s.nmax {
            let npat = s.values.len().pow((n * s.p) as u32);
            for code in 0..npat {
                exh.push((si, n, code));
            }
        }
    }
    Shared { scopes, exh, nmax: tier.pick(160, 400) }
}

fn families(tier: Tier, sh: &Shared) -> Vec<(&'static str, u64)> {
    vec![
        ("exhaustive-small", sh.exh.len() as u64),
        ("random-usize", tier.pick(1500, 12000)),
        ("random-bool", tier.pick(700, 5000)),
        ("random-string", tier.pick(700, 5000)),
        ("random-float-weights", tier.pick(800, 6000)),
        ("dense-float-neighbourhood", tier.pick(1500, 12000)),
        ("zero-leaf-weight", tier.pick(800, 8000)),
        ("limit-grid", tier.pick(16, 96)),
    ]
}

const EXACT_W: [WMode; 4] = [WMode::None, WMode::None, WMode::Int, WMode::Quarter];

fn zero_leaf_case(c: &mut Case) -> Outcome {
    let ft = if c.rng.gen_bool(0.5) { FT::F32 } else { FT::F64 };
    let n = c.rng.gen_range(2..30);
    let p = c.rng.gen_range(1..4);
    let k = c.rng.gen_range(2..5);
    let wmode = *crate::gen::pick(&mut c.rng, &[WMode::None, WMode::Int, WMode::Quarter, WMode::Float]);
    let (d, _) = gen_data(&mut c.rng, ft, n, p, k, wmode);
    let mut pr = gen_params(&mut c.rng, ft, n);
    pr.mwl = *crate::gen::pick(&mut c.rng, &[0.0f32, 1e-6]);
    pr.mws = *crate::gen::pick(&mut c.rng, &[0.0f32, 1.0, 2.0]);
    c.note("params", pr.to_json());
    c.note("n", json!(n));
    c.note("weights", json!(format!("{wmode:?}")));
    let r = check(c, &d, &pr, ft, LT::Usize, Lay::C, &[]);
    let key = format!("zl/{ft:?}/{}/{:x}", pr.describe(), d.digest());
    finish(c, r, key)
}

/// the case body of a family
fn body(family: &str, c: &mut Case, sh: &Shared) -> Outcome {
    match family {
        "exhaustive-small" => match sh.exh.get(c.idx as usize) {
            Some(&(si, n, code)) => exhaustive_case(c, &sh.scopes[si], n, code),
            None => inconclusive("case index outside the enumerated scope"),
        },
        "random-usize" => random_case(c, LT::Usize, &EXACT_W, sh.nmax),
        "random-bool" => random_case(c, LT::Bool, &EXACT_W, sh.nmax),
        "random-string" => random_case(c, LT::Str, &EXACT_W, sh.nmax),
        "random-float-weights" => {
            let lt = [LT::Usize, LT::Bool, LT::Str][(c.idx % 3) as usize];
            random_case(c, lt, &[WMode::Float, WMode::Float, WMode::Huge], sh.nmax)
        }
        "dense-float-neighbourhood" => dense_case(c),
        "zero-leaf-weight" => zero_leaf_case(c),
        "limit-grid" => limits_case(c),
        _ => inconclusive("unknown family"),
    }
}

fn outcome_to_json(o: &Outcome) -> Value {
    match o {
        Outcome::Held { nontrivial, key } => json!({"t": "held", "nontrivial": nontrivial, "key": key}),
        Outcome::Inconclusive(r) => json!({"t": "inc", "reason": r}),
        Outcome::Violated { sig, detail } => json!({"t": "viol", "sig": sig, "detail": detail}),
    }
}

fn outcome_from_json(v: &Value) -> Outcome {
    match v["t"].as_str() {
        Some("held") => held(v["nontrivial"].as_bool().unwrap_or(false), v["key"].as_str().unwrap_or("").to_string()),
        Some("viol") => violated(v["sig"].as_str().unwrap_or("C14/worker/garbled").to_string(), v["detail"].clone()),
        Some("inc") => inconclusive(v["reason"].as_str().unwrap_or("").to_string()),
        _ => inconclusive("worker: garbled result line"),
    }
}

/// entry point of `vcheck child c14-cases <family> <tier> <seed> <start> <step> <end>`
/// (the leading `c14-cases` token is accepted and skipped, so that both a dispatcher that strips it
/// and one that passes everything after `child` work)
pub fn child(args: &[String]) -> i32 {
    use std::io::Write;
    let args = if args.first().map(|s| s.as_str()) == Some("c14-cases") { &args[1..] } else { args };
    if args.len() != 6 {
        return 2;
    }
    let tier = if args[1] == "thorough" { Tier::Thorough } else { Tier::Quick };
    let (Ok(seed), Ok(start), Ok(step), Ok(end)) = (
        args[2].parse::<u64>(),
        args[3].parse::<u64>(),
        args[4].parse::<u64>(),
        args[5].parse::<u64>(),
    ) else {
        return 2;
    };
    let sh = shared(tier);
    let Some(&(family, _)) = families(tier, &sh).iter().find(|(f, _)| *f == args[0]) else {
        return 2;
    };
    let stdout = std::io::stdout();
    let mut idx = start;
    while idx < end {
        {
            let mut o = stdout.lock();
            let _ = writeln!(o, "BEGIN {idx}");
            let _ = o.flush();
        }
        let mut case = Case {
            family,
            idx,
            rng: case_rng(seed, "C14", family, idx),
            tier,
            notes: Default::default(),
            evals: 1,
            counters: Default::default(),
            residuals: Default::default(),
        };
        let out = match std::panic::catch_unwind(std::panic::AssertUnwindSafe(|| body(family, &mut case, &sh))) {
            Ok(o) => o,
            Err(_) => {
                let msg = take_panic();
                if msg.contains("harness/src") {
                    inconclusive(format!("harness-panic: {msg}"))
                } else {
                    violated(format!("C14/{family}/panic"), json!({ "panic": msg }))
                }
            }
        };
        let line = json!({
            "idx": idx, "notes": case.notes, "evals": case.evals, "counters": case.counters,
            "resid": case.residuals, "outcome": outcome_to_json(&out),
        });
        {
            let mut o = stdout.lock();
            let _ = writeln!(o, "END {line}");
            let _ = o.flush();
        }
        idx += step.max(1);
    }
    0
}

fn spawn_worker(family: &str, tier: Tier, seed: u64, start: u64, step: u64, end: u64, trace: bool) -> std::io::Result<std::process::Child> {
    use std::process::{Command, Stdio};
    let mut cmd = Command::new(std::env::current_exe()?);
    cmd.arg("child")
        .arg("c14-cases")
        .arg(family)
        .arg(tier.name())
        .arg(seed.to_string())
        .arg(start.to_string())
        .arg(step.to_string())
        .arg(end.to_string())
        .stdin(Stdio::null());
    if trace {
        cmd.env("C14_TRACE_FIT", "1").stdout(Stdio::null()).stderr(Stdio::piped());
    } else {
        cmd.env_remove("C14_TRACE_FIT").stdout(Stdio::piped()).stderr(Stdio::null());
    }
    cmd.spawn()
}

/// re-run one case with fit tracing; the last traced fit is the one that killed the process
fn abort_witness(family: &str, tier: Tier, seed: u64, idx: u64) -> Value {
    use std::io::Read;
    let Ok(mut ch) = spawn_worker(family, tier, seed, idx, 1, idx + 1, true) else {
        return json!("witness run could not be started");
    };
    let mut err = String::new();
    if let Some(mut e) = ch.stderr.take() {
        let mut bytes = vec![];
        let _ = e.read_to_end(&mut bytes);
        err = String::from_utf8_lossy(&bytes).to_string();
    }
    let status = ch.wait().map(|s| format!("{s:?}")).unwrap_or_default();
    let last_fit = err
        .lines()
        .rev()
        .find_map(|l| l.strip_prefix("C14-FIT ").and_then(|j| serde_json::from_str::<Value>(j).ok()));
    let tail: Vec<&str> = err.lines().filter(|l| !l.starts_with("C14-FIT ")).rev().take(3).collect();
    json!({"exit_status": status, "stderr_tail": tail, "last_fit_started": last_fit,
           "reproduced": !status.contains("(0)")})
}

/// run the cases start, start+step, ... < end in worker processes; store one result per case
fn drive_worker(family: &str, tier: Tier, seed: u64, start: u64, step: u64, end: u64, results: &std::sync::Mutex<std::collections::HashMap<u64, Value>>) {
    use std::io::{BufRead, BufReader};
    let mut next = start;
    let mut deaths = 0;
    while next < end {
        let mut ch = match spawn_worker(family, tier, seed, next, step, end, false) {
            Ok(c) => c,
            Err(e) => {
                let mut g = results.lock().unwrap();
                let mut i = next;
                while i < end {
                    g.insert(i, json!({"outcome": {"t": "inc", "reason": format!("worker process could not be started: {e}")}}));
                    i += step;
                }
                return;
            }
        };
        let mut current: Option<u64> = None;
        let mut last_done: Option<u64> = None;
        if let Some(out) = ch.stdout.take() {
            for line in BufReader::new(out).lines() {
                let Ok(line) = line else { break };
                if let Some(i) = line.strip_prefix("BEGIN ") {
                    current = i.trim().parse().ok();
                } else if let Some(j) = line.strip_prefix("END ") {
                    if let (Some(i), Ok(v)) = (current, serde_json::from_str::<Value>(j)) {
                        results.lock().unwrap().insert(i, v);
                        last_done = Some(i);
                    }
                    current = None;
                }
            }
        }
        let status = ch.wait();
        match current {
            Some(i) => {
                // died while working on case i
                deaths += 1;
                let witness = abort_witness(family, tier, seed, i);
                let status = status.map(|s| format!("{s:?}")).unwrap_or_default();
                // same discriminating predicate as for the assertion panic: a weightless side that
                // min_weight_leaf does not exclude can also be *chosen* and recursed into for ever
                let sig = if witness["last_fit_started"]["min_weight_leaf_below_noise"] == json!(true) {
                    "C14/fit/process-abort-weightless-side"
                } else {
                    "C14/fit/process-abort"
                };
                results.lock().unwrap().insert(i, json!({
                    "outcome": {"t": "viol", "sig": sig,
                                "detail": {"worker_exit_status": status, "witness": witness}}}));
                next = i + step;
                if deaths >= 25 {
                    let mut g = results.lock().unwrap();
                    let mut k = next;
                    while k < end {
                        g.insert(k, json!({"outcome": {"t": "inc", "reason": "skipped: worker process aborted 25 times in this share of the family"}}));
                        k += step;
                    }
                    return;
                }
            }
            None => {
                let ok = status.map(|s| s.success()).unwrap_or(false);
                let resume = last_done.map(|i| i + step).unwrap_or(next);
                if ok || resume <= next && last_done.is_none() {
                    // finished, or no progress at all: leave the rest unrecorded (-> inconclusive)
                    return;
                }
                next = resume;
            }
        }
    }
}

fn run_family(ctx: &Ctx, family: &'static str, n: u64) {
    let (first, end, workers) = match &ctx.replay {
        Some((f, i)) => {
            if f != family {
                return;
            }
            (*i, *i + 1, 1u64)
        }
        None => {
            let w = std::env::var("VERIF_THREADS").ok().and_then(|s| s.parse::<u64>().ok()).unwrap_or(16);
            (0, n, w.clamp(1, n.max(1)))
        }
    };
    let results = std::sync::Mutex::new(std::collections::HashMap::new());
    std::thread::scope(|sc| {
        for w in 0..workers {
            let results = &results;
            sc.spawn(move || drive_worker(family, ctx.tier, ctx.seed, first + w, workers, end, results));
        }
    });
    let results = results.into_inner().unwrap();
    ctx.family(family, n, |c| {
        let Some(r) = results.get(&c.idx) else {
            return inconclusive("worker process produced no result for this case");
        };
        if let Some(m) = r["notes"].as_object() {
            for (k, v) in m {
                c.note(k, v.clone());
            }
        }
        if let Some(m) = r["counters"].as_object() {
            for (k, v) in m {
                c.count_n(k, v.as_u64().unwrap_or(0));
            }
        }
        if let Some(m) = r["resid"].as_object() {
            for (k, v) in m {
                c.resid(k, v.as_f64().unwrap_or(f64::NAN));
            }
        }
        c.evals = r["evals"].as_u64().unwrap_or(1);
        outcome_from_json(&r["outcome"])
    });
}

pub fn run(ctx: &Ctx) {
    ctx.set_rule(
        "random labelled data sets (n 1..N, 1..6 features drawn from 9 hostile column kinds, 2..6 \
         classes, label types usize/bool/String, duplicated rows with conflicting labels, none / \
         integer / quarter / float sample weights, C / F / strided / reversed layouts, f32 and f64) \
         x random (criterion, max_depth, min_weight_split, min_weight_leaf, min_impurity_decrease); \
         complete enumeration of small scopes (every feature pattern x every labelling x a \
         parameter grid); dense float neighbourhoods; min_weight_leaf = 0; one data set against \
         the full limit grid. A case is non-trivial when the fitted tree has at least one split; \
         distinct = distinct (types, layout, parameters, data digest).",
    );
    ctx.assume("the tree is observed only through root_node/children/split/prediction/depth/is_leaf; fit-time membership is inferred from the statistics it determines");
    ctx.assume("feature values are finite; sample weights are non-negative and as many as samples");
    ctx.assume("min_weight_split is compared with the NUMBER of samples reaching a node, as the property states");
    ctx.assume("cases run in worker processes so that a stack overflow inside fit is a reported violation instead of the end of the run");
    let sh = shared(ctx.tier);
    for s in &sh.scopes {
        ctx.set_exhaustive(
            &format!(
                "{}: n = 1..{}, all feature patterns x labellings x {} parameter sets x {} weightings",
                s.name, s.nmax, s.grid.len(), s.weight_patterns.len()
            ),
            true,
        );
    }
    for (family, n) in families(ctx.tier, &sh) {
        if enabled(family) {
            run_family(ctx, family, n);
        }
    }
}
