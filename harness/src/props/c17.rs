//! C17 — count and tf-idf vectorisers equal a naive count of the tokenised corpus.
//!
//! Reference recounter (written from the documented semantics, not from linfa's code):
//!   document -> [NFKD] -> [lowercase] -> tokens (regex matches | tokeniser function)
//!            -> n-grams = every window of n consecutive tokens (min <= n <= max) joined by ' '
//!   document frequency of an n-gram = number of training documents containing it
//!   admitted = n-grams with  min_df <= df/n_docs <= max_df  that are not stop-word entries
//!   capped   = the `max_features` admitted entries of highest document frequency (a frequency tie
//!              at the cut is a tie class)
//!   count(d, j) = number of windows of document d whose joined string equals vocabulary()[j]
//!   tfidf(d, j) = count(d, j) * idf_method(n_transformed, df_j over the transformed corpus)
use crate::fw::*;
use linfa::ParamGuard;
use linfa_preprocessing::tf_idf_vectorization::{TfIdfMethod, TfIdfVectorizer};
use linfa_preprocessing::{CountVectorizer, CountVectorizerParams, Tokenizer};
use ndarray::{s, Array1};
use rand::Rng as _;
use regex::Regex;
use serde_json::{json, Value};
use sprs::CsMat;
use std::collections::{BTreeMap, BTreeSet, HashMap};
use unicode_normalization::UnicodeNormalization;

// ------------------------------------------------------------------ tokeniser functions
// (what linfa is given)                      (what the oracle uses: hand-written loops)
fn tk_space(s: &str) -> Vec<&str> {
    s.split(' ').collect()
}
fn tk_ws(s: &str) -> Vec<&str> {
    s.split_whitespace().collect()
}
fn tk_semi(s: &str) -> Vec<&str> {
    s.split(';').collect()
}
fn tk_chars(s: &str) -> Vec<&str> {
    s.char_indices()
        .filter(|(_, c)| !c.is_whitespace())
        .map(|(i, c)| &s[i..i + c.len_utf8()])
        .collect()
}
const FUNCS: [fn(&str) -> Vec<&str>; 4] = [tk_space, tk_ws, tk_semi, tk_chars];
const FUNC_NAMES: [&str; 4] = ["split(' ')", "split_whitespace", "split(';')", "chars"];

fn o_split_on(s: &str, sep: char) -> Vec<String> {
    let mut out = vec![];
    let mut cur = String::new();
    for ch in s.chars() {
        if ch == sep {
            out.push(std::mem::take(&mut cur));
        } else {
            cur.push(ch);
        }
    }
    out.push(cur);
    out
}
fn o_split_ws(s: &str) -> Vec<String> {
    let mut out = vec![];
    let mut cur = String::new();
    for ch in s.chars() {
        if ch.is_whitespace() {
            if !cur.is_empty() {
                out.push(std::mem::take(&mut cur));
            }
        } else {
            cur.push(ch);
        }
    }
    if !cur.is_empty() {
        out.push(cur);
    }
    out
}
fn o_chars(s: &str) -> Vec<String> {
    let mut out = vec![];
    for ch in s.chars() {
        if !ch.is_whitespace() {
            out.push(ch.to_string());
        }
    }
    out
}

const DEFAULT_REGEX: &str = r"\b\w\w+\b"; // documented default
const REGEXES: [&str; 7] = [
    r"\b\w\w+\b",
    r"\b[^ ][^ ]+\b",
    r"\w+",
    r"[a-z]+",
    r"\S+",
    r"[^;]+",
    r"[a-zA-Z]\w*",
];

// ------------------------------------------------------------------ configuration
#[derive(Clone, Debug, PartialEq)]
enum Tok {
    Default,
    Regex(&'static str),
    Func(usize),
}

/// `None` = the setter is not called (documented default applies)
#[derive(Clone, Debug)]
struct Cfg {
    lower: Option<bool>,
    norm: Option<bool>,
    tok: Tok,
    ngram: Option<(usize, usize)>,
    df: Option<(f32, f32)>,
    stop: Option<Vec<String>>,
    cap: Option<Option<usize>>,
}

impl Cfg {
    fn plain() -> Cfg {
        Cfg {
            lower: None,
            norm: None,
            tok: Tok::Default,
            ngram: None,
            df: None,
            stop: None,
            cap: None,
        }
    }
    fn to_json(&self) -> Value {
        json!({
            "lowercase": self.lower, "normalize": self.norm,
            "tokenizer": match &self.tok {
                Tok::Default => "default".to_string(),
                Tok::Regex(r) => format!("regex {r}"),
                Tok::Func(i) => format!("fn {}", FUNC_NAMES[*i]),
            },
            "ngram": self.ngram.map(|(a, b)| vec![a, b]),
            "df": self.df.map(|(a, b)| vec![a, b]),
            "stopwords": self.stop, "max_features": self.cap,
        })
    }
    fn key(&self) -> String {
        serde_json::to_string(&self.to_json()).unwrap()
    }
}

fn count_params(cfg: &Cfg) -> CountVectorizerParams {
    let mut p = CountVectorizer::params();
    // every other regex configuration is set on a parameter object that has a history: it was
    // checked and fitted with a different split expression before (a cached compiled expression
    // must not survive the setter)
    if let Tok::Regex(r) = &cfg.tok {
        if r.len() % 2 == 0 {
            p = p.tokenizer(Tokenizer::Regex("[a-z]".to_string()));
            let decoy = ndarray::array!["ab cd".to_string(), "b".to_string()];
            let _ = p.fit(&decoy);
        }
    }
    if let Some(b) = cfg.lower {
        p = p.convert_to_lowercase(b);
    }
    if let Some(b) = cfg.norm {
        p = p.normalize(b);
    }
    match &cfg.tok {
        Tok::Default => {}
        Tok::Regex(r) => p = p.tokenizer(Tokenizer::Regex(r.to_string())),
        Tok::Func(i) => p = p.tokenizer(Tokenizer::Function(FUNCS[*i])),
    }
    if let Some((a, b)) = cfg.ngram {
        p = p.n_gram_range(a, b);
    }
    if let Some((a, b)) = cfg.df {
        p = p.document_frequency(a, b);
    }
    if let Some(s) = &cfg.stop {
        p = p.stopwords(s);
    }
    if let Some(c) = cfg.cap {
        p = p.max_features(c);
    }
    p
}

/// There is no public setter for the idf method: the non-default methods are reached through the
/// type's own `Deserialize` impl (serde feature), then configured with the ordinary builder calls.
fn tfidf_base(method: &TfIdfMethod) -> Result<TfIdfVectorizer, String> {
    if *method == TfIdfMethod::Smooth {
        return Ok(TfIdfVectorizer::default());
    }
    let mut v = serde_json::to_value(TfIdfVectorizer::default()).map_err(|e| e.to_string())?;
    let name = match method {
        TfIdfMethod::Smooth => "Smooth",
        TfIdfMethod::NonSmooth => "NonSmooth",
        TfIdfMethod::Textbook => "Textbook",
    };
    match v.get_mut("method") {
        Some(m) => *m = json!(name),
        None => return Err("serialised TfIdfVectorizer has no `method` field".into()),
    }
    serde_json::from_value(v).map_err(|e| e.to_string())
}

fn tfidf_params(cfg: &Cfg, method: &TfIdfMethod) -> Result<TfIdfVectorizer, String> {
    let mut p = tfidf_base(method)?;
    if let Some(b) = cfg.lower {
        p = p.convert_to_lowercase(b);
    }
    if let Some(b) = cfg.norm {
        p = p.normalize(b);
    }
    match &cfg.tok {
        Tok::Default => {}
        Tok::Regex(r) => p = p.tokenizer(Tokenizer::Regex(r.to_string())),
        Tok::Func(i) => p = p.tokenizer(Tokenizer::Function(FUNCS[*i])),
    }
    if let Some((a, b)) = cfg.ngram {
        p = p.n_gram_range(a, b);
    }
    if let Some((a, b)) = cfg.df {
        p = p.document_frequency(a, b);
    }
    if let Some(s) = &cfg.stop {
        p = p.stopwords(s);
    }
    if let Some(c) = cfg.cap {
        p = p.max_features(c);
    }
    Ok(p)
}

// ------------------------------------------------------------------ the reference recounter
struct Oracle {
    lower: bool,
    norm: bool,
    tok: Tok,
    re: Option<Regex>,
    ngram: (usize, usize),
    df: (f32, f32),
    stop: Option<BTreeSet<String>>,
    cap: Option<usize>,
}

impl Oracle {
    fn new(cfg: &Cfg) -> Oracle {
        let re = match &cfg.tok {
            Tok::Default => Some(Regex::new(DEFAULT_REGEX).unwrap()),
            Tok::Regex(r) => Some(Regex::new(r).unwrap()),
            Tok::Func(_) => None,
        };
        Oracle {
            lower: cfg.lower.unwrap_or(true),
            norm: cfg.norm.unwrap_or(true),
            tok: cfg.tok.clone(),
            re,
            ngram: cfg.ngram.unwrap_or((1, 1)),
            df: cfg.df.unwrap_or((0.0, 1.0)),
            stop: cfg.stop.as_ref().map(|s| s.iter().cloned().collect()),
            cap: cfg.cap.unwrap_or(None),
        }
    }

    fn tokens(&self, doc: &str) -> Vec<String> {
        let mut s: String = doc.to_string();
        if self.norm {
            s = s.nfkd().collect();
        }
        if self.lower {
            s = s.to_lowercase();
        }
        match &self.tok {
            Tok::Func(0) => o_split_on(&s, ' '),
            Tok::Func(1) => o_split_ws(&s),
            Tok::Func(2) => o_split_on(&s, ';'),
            Tok::Func(_) => o_chars(&s),
            _ => self
                .re
                .as_ref()
                .unwrap()
                .find_iter(&s)
                .map(|m| m.as_str().to_string())
                .collect(),
        }
    }

    /// every n-gram occurrence of the document, as its joined string
    fn grams(&self, doc: &str) -> Vec<String> {
        let t = self.tokens(doc);
        let mut out = vec![];
        for n in self.ngram.0..=self.ngram.1 {
            if n == 0 || n > t.len() {
                continue;
            }
            for i in 0..=(t.len() - n) {
                out.push(t[i..i + n].join(" "));
            }
        }
        out
    }
}

#[derive(Clone, Copy, PartialEq, Debug)]
enum St {
    In,
    Out,
    /// the f32 product min·n (what a user writing 1/3 or 0.7 means) and the exact real product
    /// disagree: either side is admissible
    Either,
}

/// membership of an entry with document frequency `df` in the window, for `n` documents
fn window_status(df: usize, n: usize, w: (f32, f32)) -> St {
    let (lo, hi) = w;
    let a = {
        let n32 = n as f32;
        (df as f32) >= lo * n32 && (df as f32) <= hi * n32
    };
    let b = {
        let n64 = n as f64;
        (df as f64) >= lo as f64 * n64 && (df as f64) <= hi as f64 * n64
    };
    match (a, b) {
        (true, true) => St::In,
        (false, false) => St::Out,
        _ => St::Either,
    }
}

/// the current tree's reading: both bounds converted to absolute counts by truncation. Differs from
/// the documented "relative frequency each entry must satisfy" when min·n is not an integer: an
/// entry with floor(min·n) <= df < min·n is kept although df/n < min.
fn window_status_truncating(df: usize, n: usize, w: (f32, f32)) -> St {
    let n32 = n as f32;
    let lo = (w.0 * n32) as usize;
    let hi = (w.1 * n32) as usize;
    if df >= lo && df <= hi {
        St::In
    } else {
        St::Out
    }
}

fn doc_frequencies<'a>(grams_per_doc: &[&'a Vec<String>]) -> BTreeMap<&'a str, usize> {
    let mut df: BTreeMap<&str, usize> = BTreeMap::new();
    for g in grams_per_doc {
        let set: BTreeSet<&str> = g.iter().map(|s| s.as_str()).collect();
        for w in set {
            *df.entry(w).or_insert(0) += 1;
        }
    }
    df
}

struct VocabVerdict {
    tie: bool,
    either: bool,
    by_tf: bool,
}

/// Is `got` an admissible fitted vocabulary? Err((failure-mode, detail)).
fn vocab_check(
    got: &BTreeSet<&str>,
    df: &BTreeMap<&str, usize>,
    n_docs: usize,
    o: &Oracle,
    status: fn(usize, usize, (f32, f32)) -> St,
    // what "most frequent" ranks by under a feature cap
    rank: &BTreeMap<&str, usize>,
) -> Result<VocabVerdict, (&'static str, Value)> {
    let is_stop = |w: &str| o.stop.as_ref().map(|s| s.contains(w)).unwrap_or(false);
    let mut either = false;
    for g in got {
        let Some(d) = df.get(g) else {
            return Err(("entry-not-an-ngram-of-the-corpus", json!({"entry": g})));
        };
        if is_stop(g) {
            return Err(("stop-word-kept", json!({"entry": g})));
        }
        match status(*d, n_docs, o.df) {
            St::Out => {
                return Err((
                    "entry-outside-df-window",
                    json!({"entry": g, "df": d, "n_docs": n_docs, "window": [o.df.0, o.df.1]}),
                ))
            }
            St::Either => either = true,
            St::In => {}
        }
    }
    let mut n_in = 0usize;
    let mut n_adm = 0usize;
    for (w, d) in df {
        if is_stop(w) {
            continue;
        }
        match status(*d, n_docs, o.df) {
            St::In => {
                n_in += 1;
                n_adm += 1;
            }
            St::Either => {
                n_adm += 1;
                either = true;
            }
            St::Out => {}
        }
    }
    let full = match o.cap {
        None => true,
        Some(k) => got.len() < k,
    };
    let mut tie = false;
    if let Some(k) = o.cap {
        let (lo, hi) = (k.min(n_in), k.min(n_adm));
        if got.len() < lo || got.len() > hi {
            return Err((
                "cap-size",
                json!({"got_len": got.len(), "cap": k, "admitted": n_in, "admitted_or_ambiguous": n_adm}),
            ));
        }
    }
    let min_got = got.iter().map(|g| rank.get(g).copied().unwrap_or(0)).min();
    for (w, d) in df {
        if is_stop(w) || got.contains(w) || status(*d, n_docs, o.df) != St::In {
            continue;
        }
        let r = rank.get(w).copied().unwrap_or(0);
        // an admitted entry that is not in the vocabulary
        if full {
            return Err((
                "admitted-entry-missing",
                json!({"entry": w, "df": d, "n_docs": n_docs, "window": [o.df.0, o.df.1]}),
            ));
        }
        match min_got {
            Some(m) if r > m => {
                return Err((
                    "cap-not-most-frequent",
                    json!({"left_out": w, "its_frequency": r, "its_df": d, "least_frequent_kept": m, "cap": o.cap}),
                ))
            }
            Some(m) if r == m => tie = true,
            _ => {}
        }
    }
    Ok(VocabVerdict {
        tie,
        either,
        by_tf: false,
    })
}

struct FitInfo {
    nonempty: bool,
    tie: bool,
    either: bool,
    by_tf: bool,
}

/// Judge a fitted vocabulary. `Err(outcome)` is a violation.
fn judge_vocabulary(
    aspect: &str,
    vocab: &[String],
    nentries: usize,
    train_grams: &[&Vec<String>],
    o: &Oracle,
    ctx_json: &dyn Fn() -> Value,
) -> Result<FitInfo, Outcome> {
    if nentries != vocab.len() {
        return Err(violated(
            format!("C17/{aspect}/nentries-differs-from-vocabulary-length"),
            json!({"case": ctx_json(), "nentries": nentries, "vocabulary": vocab}),
        ));
    }
    let got: BTreeSet<&str> = vocab.iter().map(|s| s.as_str()).collect();
    if got.len() != vocab.len() {
        return Err(violated(
            format!("C17/{aspect}/duplicate-vocabulary-entry"),
            json!({"case": ctx_json(), "vocabulary": vocab}),
        ));
    }
    let n_docs = train_grams.len();
    let df = doc_frequencies(train_grams);
    let first = vocab_check(&got, &df, n_docs, o, window_status, &df);
    let first = match first {
        Err(("cap-not-most-frequent", detail)) => {
            // the setter's documentation says "top max_features (by term frequency)": a ranking by
            // total occurrences over the corpus is admissible as well (inconsistent wording class)
            let mut tf: BTreeMap<&str, usize> = BTreeMap::new();
            for g in train_grams {
                for w in g.iter() {
                    *tf.entry(w.as_str()).or_insert(0) += 1;
                }
            }
            match vocab_check(&got, &df, n_docs, o, window_status, &tf) {
                Ok(v) => Ok(VocabVerdict { by_tf: true, ..v }),
                Err(_) => Err(("cap-not-most-frequent", detail)),
            }
        }
        other => other,
    };
    match first {
        Ok(v) => Ok(FitInfo {
            nonempty: !vocab.is_empty(),
            tie: v.tie,
            either: v.either,
            by_tf: v.by_tf,
        }),
        Err((mode, detail)) => {
            // discriminating predicate for the one known deviation: the vocabulary is exactly what
            // the documented rule gives when the *minimum* bound is truncated to a count (and that
            // truncation is not exact for this corpus size)
            let trunc = vocab_check(&got, &df, n_docs, o, window_status_truncating, &df).is_ok();
            let lo = o.df.0 * n_docs as f32;
            let sig = if trunc && lo.fract() != 0.0 {
                "C17/vocabulary/min-df-truncated-admits-entries-below-minimum".to_string()
            } else {
                format!("C17/{aspect}/{mode}")
            };
            let dfj: BTreeMap<&str, usize> = df.iter().map(|(k, v)| (*k, *v)).collect();
            Err(violated(
                sig,
                json!({"case": ctx_json(), "aspect": aspect, "why": mode, "detail": detail, "vocabulary": vocab,
                       "document_frequencies": dfj, "n_docs": n_docs}),
            ))
        }
    }
}

fn gram_counts(grams: &[String]) -> HashMap<&str, usize> {
    let mut m: HashMap<&str, usize> = HashMap::new();
    for g in grams {
        *m.entry(g.as_str()).or_insert(0) += 1;
    }
    m
}

/// read a sparse matrix defensively into rows of (col -> value)
fn read_sparse<N: Copy>(m: &CsMat<N>) -> Result<Vec<BTreeMap<usize, N>>, String> {
    if let Err(e) = m.check_compressed_structure() {
        return Err(format!("invalid compressed structure: {e:?}"));
    }
    let mut rows: Vec<BTreeMap<usize, N>> = vec![BTreeMap::new(); m.rows()];
    for (v, (r, c)) in m.iter() {
        if r >= m.rows() || c >= m.cols() {
            return Err(format!("entry ({r},{c}) outside shape {:?}", m.shape()));
        }
        if rows[r].insert(c, *v).is_some() {
            return Err(format!("entry ({r},{c}) stored twice"));
        }
    }
    Ok(rows)
}

/// count matrix == recount. Returns the number of non-zero expected cells.
fn judge_counts(
    which: &str,
    m: &CsMat<usize>,
    vocab: &[String],
    docs: &[String],
    grams: &[&Vec<String>],
    ctx_json: &dyn Fn() -> Value,
) -> Result<usize, Outcome> {
    if m.rows() != docs.len() || m.cols() != vocab.len() {
        return Err(violated(
            format!("C17/count-{which}/shape"),
            json!({"case": ctx_json(), "shape": [m.rows(), m.cols()], "docs": docs.len(), "vocabulary": vocab.len()}),
        ));
    }
    let rows = match read_sparse(m) {
        Ok(r) => r,
        Err(e) => {
            return Err(violated(
                format!("C17/count-{which}/malformed-sparse-matrix"),
                json!({"case": ctx_json(), "why": e}),
            ))
        }
    };
    let mut nnz = 0;
    for d in 0..docs.len() {
        let cnt = gram_counts(grams[d]);
        for (j, w) in vocab.iter().enumerate() {
            let exp = cnt.get(w.as_str()).copied().unwrap_or(0);
            let got = rows[d].get(&j).copied().unwrap_or(0);
            if exp > 0 {
                nnz += 1;
            }
            if exp != got {
                return Err(violated(
                    format!("C17/count-{which}/entry-differs-from-recount"),
                    json!({"case": ctx_json(), "document": docs[d], "doc_index": d, "column": j,
                           "entry": w, "got": got, "expected": exp, "vocabulary": vocab}),
                ));
            }
        }
    }
    Ok(nnz)
}

fn idf_documented(method: &TfIdfMethod, n: usize, df: usize) -> f64 {
    let (n, df) = (n as f64, df as f64);
    match method {
        // log((1+n)/(1+df)) + 1
        TfIdfMethod::Smooth => ((1.0 + n) / (1.0 + df)).ln() + 1.0,
        // log(n/df) + 1
        TfIdfMethod::NonSmooth => (n / df).ln() + 1.0,
        // log(n/(1+df))
        TfIdfMethod::Textbook => (n / (1.0 + df)).ln(),
    }
}

/// tf-idf matrix == recount * documented idf over the transformed corpus.
/// returns (non-zero expected cells, largest residual in units of the noise floor)
fn judge_tfidf(
    which: &str,
    m: &CsMat<f64>,
    method: &TfIdfMethod,
    vocab: &[String],
    docs: &[String],
    grams: &[&Vec<String>],
    ctx_json: &dyn Fn() -> Value,
) -> Result<(usize, f64), Outcome> {
    if m.rows() != docs.len() || m.cols() != vocab.len() {
        return Err(violated(
            format!("C17/tfidf-{which}/shape"),
            json!({"case": ctx_json(), "shape": [m.rows(), m.cols()], "docs": docs.len(), "vocabulary": vocab.len()}),
        ));
    }
    let rows = match read_sparse(m) {
        Ok(r) => r,
        Err(e) => {
            return Err(violated(
                format!("C17/tfidf-{which}/malformed-sparse-matrix"),
                json!({"case": ctx_json(), "why": e}),
            ))
        }
    };
    let n = docs.len();
    let counts: Vec<HashMap<&str, usize>> = grams.iter().map(|g| gram_counts(g)).collect();
    let mut nnz = 0;
    let mut worst = 0.0f64;
    for (j, w) in vocab.iter().enumerate() {
        let df = counts.iter().filter(|c| c.contains_key(w.as_str())).count();
        for d in 0..n {
            let cnt = counts[d].get(w.as_str()).copied().unwrap_or(0);
            let got = rows[d].get(&j).copied().unwrap_or(0.0);
            if cnt == 0 {
                // count 0: the entry is 0 (df >= 1 here unless the column is empty; for an empty
                // column NonSmooth documents a division by zero, so 0 * inf is left unspecified)
                let unspecified = df == 0 && *method == TfIdfMethod::NonSmooth;
                if got != 0.0 && !(unspecified && got.is_nan()) {
                    return Err(violated(
                        format!("C17/tfidf-{which}/nonzero-entry-for-zero-count"),
                        json!({"case": ctx_json(), "document": docs[d], "entry": w, "got": format!("{got:e}"),
                               "method": format!("{method:?}")}),
                    ));
                }
                continue;
            }
            nnz += 1;
            let idf = idf_documented(method, n, df);
            let exp = cnt as f64 * idf;
            // noise floor: the code may take the logarithm by a different but equal route
            let scale = cnt as f64 * (1.0 + (1.0 + n as f64).ln());
            let floor = 64.0 * f64::EPSILON * scale;
            let r = (got - exp).abs();
            if !(r <= floor) {
                return Err(violated(
                    format!("C17/tfidf-{which}/entry-differs-from-count-times-idf"),
                    json!({"case": ctx_json(), "document": docs[d], "doc_index": d, "column": j, "entry": w,
                           "count": cnt, "n_docs": n, "df": df, "method": format!("{method:?}"),
                           "got": got, "expected": exp, "idf_expected": idf}),
                ));
            }
            worst = worst.max(r / floor);
        }
    }
    Ok((nnz, worst))
}

// ------------------------------------------------------------------ memory layouts of the input
/// call `$body` with `$x` bound to a reference to an ndarray of the documents in one of four forms:
/// owned strings, borrowed strs, a stride-2 view over an array interleaved with decoy documents,
/// a reversed (negative stride) view.
macro_rules! with_layout {
    ($docs:expr, $layout:expr, $x:ident => $body:expr) => {{
        let docs: &[String] = $docs;
        match $layout % 4 {
            0 => {
                let a: Array1<String> = Array1::from(docs.to_vec());
                let $x = &a;
                $body
            }
            1 => {
                let a: Array1<&str> = Array1::from(docs.iter().map(|s| s.as_str()).collect::<Vec<_>>());
                let $x = &a;
                $body
            }
            2 => {
                let mut v: Vec<String> = vec![];
                for d in docs {
                    v.push(d.clone());
                    v.push("decoy decoy kk aa bb".to_string());
                }
                let a: Array1<String> = Array1::from(v);
                let view = a.slice(s![..;2]);
                let $x = &view;
                $body
            }
            _ => {
                let a: Array1<&str> =
                    Array1::from(docs.iter().rev().map(|s| s.as_str()).collect::<Vec<_>>());
                let view = a.slice(s![..;-1]);
                let $x = &view;
                $body
            }
        }
    }};
}

// ------------------------------------------------------------------ workload
const BASE: [&str; 8] = ["aa", "bb", "cc", "dd", "ee", "ff", "gg", "hh"];
/// hostile surface forms: one-character words (dropped by the default regex), composed and
/// decomposed accents, a ligature and its expansion, a letter whose NFKD form is upper case
/// (U+03D2), the Angstrom sign, digits, underscore (a word character).
const SPECIAL: [&str; 14] = [
    "x",
    "b",
    "caf\u{e9}",
    "cafe\u{301}",
    "\u{fb01}x",
    "fix",
    "\u{3d2}\u{3d2}",
    "\u{c5}b",
    "\u{212b}b",
    "A\u{30a}b",
    "aa_bb",
    "a1",
    "42",
    "I\u{307}i",
];
const OOV: [&str; 5] = ["zz", "yy", "qq", "zz9", "Zz"];
const SEPS: [&str; 12] = [" ", " ", " ", " ", "  ", ";", ", ", ".", "\n", "-", "! ", "\t"];

fn recase(rng: &mut Rng, w: &str) -> String {
    match rng.gen_range(0..3) {
        0 => w.to_uppercase(),
        1 => {
            let mut cs = w.chars();
            match cs.next() {
                Some(f) => f.to_uppercase().collect::<String>() + cs.as_str(),
                None => String::new(),
            }
        }
        _ => {
            let n = w.chars().count();
            w.chars()
                .enumerate()
                .map(|(i, ch)| {
                    if i + 1 == n {
                        ch.to_uppercase().collect::<String>()
                    } else {
                        ch.to_string()
                    }
                })
                .collect()
        }
    }
}

struct Style {
    alphabet: usize,
    max_len: usize,
    p_special: f64,
    p_case: f64,
    p_empty: f64,
    p_oov: f64,
    plain_sep: bool,
}

fn gen_style(rng: &mut Rng, tier: Tier) -> Style {
    Style {
        alphabet: rng.gen_range(2..=8),
        max_len: *crate::gen::pick(rng, &[1, 2, 3, 4, 6, tier.pick(8, 12)]),
        p_special: *crate::gen::pick(rng, &[0.0, 0.0, 0.1, 0.3]),
        p_case: *crate::gen::pick(rng, &[0.0, 0.1, 0.4]),
        p_empty: *crate::gen::pick(rng, &[0.0, 0.15, 0.4]),
        p_oov: 0.0,
        plain_sep: rng.gen_bool(0.3),
    }
}

fn gen_doc(rng: &mut Rng, st: &Style) -> String {
    if rng.gen_bool(st.p_empty) {
        return match rng.gen_range(0..4) {
            0 => " ".into(),
            1 => ";.;".into(),
            _ => String::new(),
        };
    }
    let len = rng.gen_range(1..=st.max_len);
    let mut s = String::new();
    for i in 0..len {
        let u: f64 = rng.gen();
        let mut w: String = if rng.gen_bool(st.p_oov) {
            crate::gen::pick(rng, &OOV).to_string()
        } else if rng.gen_bool(st.p_special) {
            crate::gen::pick(rng, &SPECIAL).to_string()
        } else {
            // skewed so that document frequencies spread over the whole range
            BASE[((st.alphabet as f64) * u * u) as usize % st.alphabet].to_string()
        };
        if rng.gen_bool(st.p_case) {
            w = recase(rng, &w);
        }
        if i > 0 {
            if st.plain_sep {
                s.push(' ');
            } else {
                s.push_str(*crate::gen::pick(rng, &SEPS));
            }
        }
        s.push_str(&w);
    }
    if !st.plain_sep && rng.gen_bool(0.15) {
        s.push_str(*crate::gen::pick(rng, &[".", " ", ";", "!"]));
    }
    s
}

fn gen_corpus(rng: &mut Rng, st: &Style, n: usize) -> Vec<String> {
    (0..n).map(|_| gen_doc(rng, st)).collect()
}

const DF_GRID: [f32; 12] = [
    0.0,
    0.1,
    0.2,
    0.25,
    1.0 / 3.0,
    0.4,
    0.5,
    0.6,
    2.0 / 3.0,
    0.75,
    0.9,
    1.0,
];

fn gen_df(rng: &mut Rng) -> (f32, f32) {
    let mut pick1 = |rng: &mut Rng| -> f32 {
        if rng.gen_bool(0.2) {
            rng.gen::<f32>()
        } else {
            *crate::gen::pick(rng, &DF_GRID)
        }
    };
    match rng.gen_range(0..4) {
        0 => (pick1(rng), 1.0),
        1 => (0.0, pick1(rng)),
        _ => {
            let (a, b) = (pick1(rng), pick1(rng));
            if a <= b {
                (a, b)
            } else {
                (b, a)
            }
        }
    }
}

/// entries a user might list as stop words / fixed vocabulary for the given corpus
fn gen_entries(rng: &mut Rng, o: &Oracle, train: &[String], k: usize) -> Vec<String> {
    let mut pool: Vec<String> = vec![];
    for d in train {
        pool.extend(o.grams(d));
    }
    let mut out = vec![];
    for _ in 0..k {
        let e = match rng.gen_range(0..10) {
            0 => "nope".to_string(),
            1 => crate::gen::pick(rng, &BASE).to_uppercase(),
            2 => format!("{} {}", crate::gen::pick(rng, &BASE), crate::gen::pick(rng, &BASE)),
            3 => crate::gen::pick(rng, &SPECIAL).to_string(),
            4 => crate::gen::pick(rng, &BASE).to_string(),
            _ => {
                if pool.is_empty() {
                    crate::gen::pick(rng, &BASE).to_string()
                } else {
                    pool[rng.gen_range(0..pool.len())].clone()
                }
            }
        };
        out.push(e);
    }
    out
}

fn gen_cfg(rng: &mut Rng) -> Cfg {
    let mut cfg = Cfg::plain();
    cfg.lower = *crate::gen::pick(rng, &[None, Some(true), Some(false), Some(true)]);
    cfg.norm = *crate::gen::pick(rng, &[None, Some(true), Some(false), Some(true)]);
    cfg.tok = match rng.gen_range(0..10) {
        0..=2 => Tok::Default,
        3..=6 => Tok::Regex(*crate::gen::pick(rng, &REGEXES)),
        _ => Tok::Func(rng.gen_range(0..FUNCS.len())),
    };
    cfg.ngram = match rng.gen_range(0..7) {
        0 => None,
        1 => Some((1, 1)),
        2 => Some((1, 2)),
        3 => Some((1, 3)),
        4 => Some((2, 2)),
        5 => Some((2, 3)),
        _ => Some((3, 3)),
    };
    cfg.df = if rng.gen_bool(0.35) {
        if rng.gen_bool(0.5) {
            None
        } else {
            Some((0.0, 1.0))
        }
    } else {
        Some(gen_df(rng))
    };
    cfg.cap = match rng.gen_range(0..10) {
        0..=3 => None,
        4 => Some(None),
        5 => Some(Some(*crate::gen::pick(rng, &[0usize, 50, 1000]))),
        _ => Some(Some(rng.gen_range(1..=6))),
    };
    cfg
}

fn small_hash(parts: &[&[String]]) -> u64 {
    use std::hash::{Hash, Hasher};
    #[allow(deprecated)]
    let mut h = std::hash::SipHasher::new();
    for p in parts {
        p.hash(&mut h);
    }
    h.finish()
}

fn sparse_eq<N: PartialEq + Copy>(a: &CsMat<N>, b: &CsMat<N>) -> bool {
    if a.shape() != b.shape() {
        return false;
    }
    match (read_sparse(a), read_sparse(b)) {
        (Ok(x), Ok(y)) => x == y,
        _ => false,
    }
}

fn sparse_eq_bits(a: &CsMat<f64>, b: &CsMat<f64>) -> bool {
    if a.shape() != b.shape() {
        return false;
    }
    match (read_sparse(a), read_sparse(b)) {
        (Ok(x), Ok(y)) => {
            x.len() == y.len()
                && x.iter().zip(y.iter()).all(|(r, s)| {
                    r.len() == s.len()
                        && r.iter()
                            .zip(s.iter())
                            .all(|((i, v), (j, w))| i == j && v.to_bits() == w.to_bits())
                })
        }
        _ => false,
    }
}

/// unwrap a guarded linfa call: panic -> violation, Err -> violation (only valid settings are
/// generated, so an error is spurious)
macro_rules! call {
    ($aspect:expr, $ctxj:expr, $e:expr) => {
        match guarded(|| $e) {
            Err(p) => {
                return violated(
                    format!("C17/{}/panic", $aspect),
                    json!({"case": $ctxj(), "panic": p}),
                )
            }
            Ok(Err(e)) => {
                return violated(
                    format!("C17/{}/spurious-error", $aspect),
                    json!({"case": $ctxj(), "error": format!("{e}")}),
                )
            }
            Ok(Ok(v)) => v,
        }
    };
}

macro_rules! tryo {
    ($e:expr) => {
        match $e {
            Ok(v) => v,
            Err(o) => return o,
        }
    };
}

// ------------------------------------------------------------------ families
fn case_count(c: &mut Case) -> Outcome {
    let mut cfg = gen_cfg(&mut c.rng);
    let st = gen_style(&mut c.rng, c.tier);
    let n_train = match c.rng.gen_range(0..12) {
        0 => 0,
        1 => 1,
        2 if c.tier == Tier::Thorough => c.rng.gen_range(13..=40),
        _ => c.rng.gen_range(2..=12),
    };
    let train = gen_corpus(&mut c.rng, &st, n_train);
    if c.rng.gen_bool(0.45) {
        let o0 = Oracle::new(&cfg);
        let k = c.rng.gen_range(0..=4);
        cfg.stop = Some(gen_entries(&mut c.rng, &o0, &train, k));
    }
    let o = Oracle::new(&cfg);
    let ust = Style {
        p_oov: 0.3,
        p_special: st.p_special.max(0.1),
        ..gen_style(&mut c.rng, c.tier)
    };
    let n_unseen = c.rng.gen_range(0..=8);
    let unseen = gen_corpus(&mut c.rng, &ust, n_unseen);
    let (l1, l2) = (c.rng.gen_range(0..4u32), c.rng.gen_range(0..4u32));
    let via_checked = c.rng.gen_bool(0.3);
    let cj = || json!({"config": cfg.to_json(), "training": train, "layout": l1});
    c.note("config", cfg.to_json());
    c.note("training", json!(train));
    c.note("unseen", json!(unseen));

    let params = count_params(&cfg);
    let cv: CountVectorizer = if via_checked {
        // the checked-parameter form: check once, fit from the valid set
        let valid = call!("fit", cj, params.check_ref());
        call!("fit", cj, with_layout!(&train, l1, x => valid.fit(x)))
    } else {
        call!("fit", cj, with_layout!(&train, l1, x => params.fit(x)))
    };
    let vocab: Vec<String> = cv.vocabulary().clone();
    let tg: Vec<Vec<String>> = train.iter().map(|d| o.grams(d)).collect();
    let tgr: Vec<&Vec<String>> = tg.iter().collect();
    let info = tryo!(judge_vocabulary("vocabulary", &vocab, cv.nentries(), &tgr, &o, &cj));
    if info.tie {
        c.count("cap-frequency-tie-class");
    }
    if info.either {
        c.count("df-bound-rounding-class");
    }
    if info.by_tf {
        c.count("cap-ranked-by-term-frequency-class");
    }
    if o.cap.is_some() {
        c.count("capped");
    }

    // training documents
    let m_train = call!("transform", cj, with_layout!(&train, l1, x => cv.transform(x)));
    let nnz1 = tryo!(judge_counts("training", &m_train, &vocab, &train, &tgr, &cj));
    // unseen documents (with out-of-vocabulary words), other layout
    let cj2 = || json!({"config": cfg.to_json(), "training": train, "unseen": unseen, "layout": l2});
    let ug: Vec<Vec<String>> = unseen.iter().map(|d| o.grams(d)).collect();
    let ugr: Vec<&Vec<String>> = ug.iter().collect();
    let m_unseen = call!("transform", cj2, with_layout!(&unseen, l2, x => cv.transform(x)));
    let nnz2 = tryo!(judge_counts("unseen", &m_unseen, &vocab, &unseen, &ugr, &cj2));
    // appending tokens that never occurred in training changes nothing
    let suffix = match &cfg.tok {
        Tok::Func(2) | Tok::Regex(r"[^;]+") => ";zzq;zzq",
        _ => " zzq zzq",
    };
    let oov_ok = !train.iter().any(|d| d.to_lowercase().contains("zzq"));
    if oov_ok {
        let aug: Vec<String> = train.iter().map(|d| format!("{d}{suffix}")).collect();
        let m_aug = call!("transform", cj, with_layout!(&aug, l2, x => cv.transform(x)));
        // char tokeniser: 'z','q' are new characters as well (alphabet has neither)
        if !sparse_eq(&m_aug, &m_train) {
            return violated(
                "C17/count-unseen/out-of-vocabulary-token-changes-counts",
                json!({"case": cj(), "suffix": suffix}),
            );
        }
    }
    // the fitted vectoriser carries no state from one transform to the next
    let m_again = call!("transform", cj, with_layout!(&train, l2, x => cv.transform(x)));
    if !sparse_eq(&m_again, &m_train) {
        return violated("C17/count-training/transform-not-repeatable", json!({"case": cj()}));
    }
    c.evals = 4;
    let h = small_hash(&[&train, &unseen]);
    held(
        info.nonempty && nnz1 + nnz2 > 0,
        format!("{} {h:x}", cfg.key()),
    )
}

fn case_tfidf(c: &mut Case) -> Outcome {
    let mut cfg = gen_cfg(&mut c.rng);
    let st = gen_style(&mut c.rng, c.tier);
    let n_train = match c.rng.gen_range(0..12) {
        0 => 0,
        1 => 1,
        _ => c.rng.gen_range(2..=12),
    };
    let train = gen_corpus(&mut c.rng, &st, n_train);
    if c.rng.gen_bool(0.3) {
        let o0 = Oracle::new(&cfg);
        let k = c.rng.gen_range(0..=3);
        cfg.stop = Some(gen_entries(&mut c.rng, &o0, &train, k));
    }
    let method = match c.idx % 3 {
        0 => TfIdfMethod::Smooth,
        1 => TfIdfMethod::NonSmooth,
        _ => TfIdfMethod::Textbook,
    };
    let o = Oracle::new(&cfg);
    let ust = Style {
        p_oov: 0.3,
        ..gen_style(&mut c.rng, c.tier)
    };
    let n_unseen = c.rng.gen_range(0..=10);
    let unseen = gen_corpus(&mut c.rng, &ust, n_unseen);
    let fixed = c.rng.gen_bool(0.2);
    let words: Vec<String> = if fixed {
        let k = c.rng.gen_range(0..=6);
        gen_entries(&mut c.rng, &o, &train, k)
    } else {
        vec![]
    };
    let (l1, l2) = (c.rng.gen_range(0..4u32), c.rng.gen_range(0..4u32));
    let cj = || json!({"config": cfg.to_json(), "method": format!("{method:?}"), "training": train,
                    "fixed_vocabulary": if fixed { json!(words) } else { Value::Null }});
    c.note("config", cfg.to_json());
    c.note("method", json!(format!("{method:?}")));
    c.note("training", json!(train));
    c.note("unseen", json!(unseen));
    let params = match tfidf_params(&cfg, &method) {
        Ok(p) => p,
        Err(e) => return inconclusive(format!("cannot construct a TfIdfVectorizer with method {method:?}: {e}")),
    };
    let fitted = if fixed {
        call!("tfidf-fit", cj, params.fit_vocabulary(&words))
    } else {
        call!("tfidf-fit", cj, with_layout!(&train, l1, x => params.fit(x)))
    };
    ensure!(fitted.method() == &method, "C17/tfidf-fit/method-not-kept",
        {"case": cj(), "got": format!("{:?}", fitted.method())});
    let vocab: Vec<String> = fitted.vocabulary().clone();
    let tg: Vec<Vec<String>> = train.iter().map(|d| o.grams(d)).collect();
    let tgr: Vec<&Vec<String>> = tg.iter().collect();
    let mut nonempty = !vocab.is_empty();
    if fixed {
        tryo!(judge_fixed("tfidf-fixed-vocabulary", &vocab, fitted.nentries(), &words, &cj));
    } else {
        let info = tryo!(judge_vocabulary("tfidf-vocabulary", &vocab, fitted.nentries(), &tgr, &o, &cj));
        nonempty = info.nonempty;
        if info.tie {
            c.count("cap-frequency-tie-class");
        }
        if info.either {
            c.count("df-bound-rounding-class");
        }
    }
    let m_train = call!("tfidf-transform", cj, with_layout!(&train, l1, x => fitted.transform(x)));
    let (nnz1, r1) = tryo!(judge_tfidf("training", &m_train, &method, &vocab, &train, &tgr, &cj));
    let cj2 = || json!({"config": cfg.to_json(), "method": format!("{method:?}"), "training": train, "unseen": unseen});
    let ug: Vec<Vec<String>> = unseen.iter().map(|d| o.grams(d)).collect();
    let ugr: Vec<&Vec<String>> = ug.iter().collect();
    let m_unseen = call!("tfidf-transform", cj2, with_layout!(&unseen, l2, x => fitted.transform(x)));
    let (nnz2, r2) = tryo!(judge_tfidf("unseen", &m_unseen, &method, &vocab, &unseen, &ugr, &cj2));
    // idf is taken over the corpus being transformed, not over what was seen before
    let m_again = call!("tfidf-transform", cj, with_layout!(&train, l2, x => fitted.transform(x)));
    if !sparse_eq_bits(&m_again, &m_train) {
        return violated("C17/tfidf-training/transform-not-repeatable", json!({"case": cj()}));
    }
    c.resid("tfidf-entry (units of 64*eps*count*(1+ln(1+n)))", r1.max(r2));
    c.evals = 3;
    let h = small_hash(&[&train, &unseen, &words]);
    held(
        nonempty && nnz1 + nnz2 > 0,
        format!("{} {method:?} {h:x}", cfg.key()),
    )
}

fn judge_fixed(
    aspect: &str,
    vocab: &[String],
    nentries: usize,
    words: &[String],
    cj: &dyn Fn() -> Value,
) -> Result<(), Outcome> {
    if nentries != vocab.len() {
        return Err(violated(
            format!("C17/{aspect}/nentries-differs-from-vocabulary-length"),
            json!({"case": cj(), "nentries": nentries, "vocabulary": vocab}),
        ));
    }
    let got: BTreeSet<&str> = vocab.iter().map(|s| s.as_str()).collect();
    if got.len() != vocab.len() {
        return Err(violated(
            format!("C17/{aspect}/duplicate-vocabulary-entry"),
            json!({"case": cj(), "vocabulary": vocab}),
        ));
    }
    let want: BTreeSet<&str> = words.iter().map(|s| s.as_str()).collect();
    if got != want {
        return Err(violated(
            format!("C17/{aspect}/given-words-not-honoured"),
            json!({"case": cj(), "vocabulary": vocab, "given": words}),
        ));
    }
    Ok(())
}

fn case_fixed(c: &mut Case) -> Outcome {
    let cfg = {
        let mut g = gen_cfg(&mut c.rng);
        // the filtering attributes are documented to be ignored by fit_vocabulary: set them anyway
        if c.rng.gen_bool(0.5) {
            g.stop = Some(vec!["aa".into(), "bb".into(), "aa bb".into()]);
        }
        g
    };
    let o = Oracle::new(&cfg);
    let st = gen_style(&mut c.rng, c.tier);
    let n_docs = c.rng.gen_range(0..=10);
    let seen = gen_corpus(&mut c.rng, &st, n_docs);
    let k = c.rng.gen_range(0..=8);
    let mut words = gen_entries(&mut c.rng, &o, &seen, k);
    if !words.is_empty() && c.rng.gen_bool(0.4) {
        // duplicates in the given list
        let w = words[c.rng.gen_range(0..words.len())].clone();
        let at = c.rng.gen_range(0..=words.len());
        words.insert(at, w);
    }
    let ust = Style {
        p_oov: 0.3,
        ..gen_style(&mut c.rng, c.tier)
    };
    let n_docs = c.rng.gen_range(0..=8);
    let docs = {
        let mut d = seen.clone();
        d.extend(gen_corpus(&mut c.rng, &ust, n_docs));
        d
    };
    let layout = c.rng.gen_range(0..4u32);
    let cj = || json!({"config": cfg.to_json(), "given_vocabulary": words, "documents": docs, "layout": layout});
    c.note("config", cfg.to_json());
    c.note("given_vocabulary", json!(words));
    c.note("documents", json!(docs));
    let params = count_params(&cfg);
    let as_str = c.rng.gen_bool(0.5);
    let cv = if as_str {
        let w: Vec<&str> = words.iter().map(|s| s.as_str()).collect();
        call!("fixed-vocabulary", cj, params.fit_vocabulary(&w))
    } else {
        call!("fixed-vocabulary", cj, params.fit_vocabulary(&words))
    };
    let vocab: Vec<String> = cv.vocabulary().clone();
    tryo!(judge_fixed("fixed-vocabulary", &vocab, cv.nentries(), &words, &cj));
    let g: Vec<Vec<String>> = docs.iter().map(|d| o.grams(d)).collect();
    let gr: Vec<&Vec<String>> = g.iter().collect();
    let m = call!("transform", cj, with_layout!(&docs, layout, x => cv.transform(x)));
    let nnz = tryo!(judge_counts("fixed-vocabulary", &m, &vocab, &docs, &gr, &cj));
    // replacing the tokeniser function of a fitted vectoriser: the counts follow the new tokens
    let mut redefined = String::new();
    if c.rng.gen_bool(0.25) {
        let k = c.rng.gen_range(0..FUNCS.len());
        let mut cv2 = cv.clone();
        cv2.force_tokenizer_function_redefinition(FUNCS[k]);
        let mut cfg2 = cfg.clone();
        cfg2.tok = Tok::Func(k);
        let o2 = Oracle::new(&cfg2);
        let cj2 = || json!({"config": cfg.to_json(), "tokenizer_redefined_to": FUNC_NAMES[k],
                            "given_vocabulary": words, "documents": docs});
        let g2: Vec<Vec<String>> = docs.iter().map(|d| o2.grams(d)).collect();
        let gr2: Vec<&Vec<String>> = g2.iter().collect();
        let m2 = call!("transform", cj2, with_layout!(&docs, layout, x => cv2.transform(x)));
        tryo!(judge_counts("redefined-tokenizer", &m2, &vocab, &docs, &gr2, &cj2));
        redefined = format!(" redefined={k}");
        c.count("tokenizer-function-redefined");
        c.evals = 2;
    }
    let h = small_hash(&[&words, &docs]);
    held(nnz > 0, format!("{}{redefined} {h:x}", cfg.key()))
}

/// complete enumeration of a small scope: every corpus of 1..=max_docs documents, each document
/// any sequence of 0..=max_len words over `alphabet` words, under one configuration per case.
fn case_exhaustive(c: &mut Case, cfgs: &[Cfg], alphabet: usize, max_len: usize, max_docs: usize) -> Outcome {
    let cfg = &cfgs[c.idx as usize % cfgs.len()];
    let o = Oracle::new(cfg);
    // all documents
    let mut docs: Vec<String> = vec![String::new()];
    let mut layer: Vec<Vec<usize>> = vec![vec![]];
    for _ in 0..max_len {
        let mut next = vec![];
        for d in &layer {
            for a in 0..alphabet {
                let mut e = d.clone();
                e.push(a);
                next.push(e);
            }
        }
        for d in &next {
            docs.push(d.iter().map(|a| BASE[*a]).collect::<Vec<_>>().join(" "));
        }
        layer = next;
    }
    let nd = docs.len();
    let grams: Vec<Vec<String>> = docs.iter().map(|d| o.grams(d)).collect();
    let params = count_params(cfg);
    let cfgj = cfg.to_json();
    c.note("config", cfgj.clone());
    c.note("scope", json!({"alphabet": alphabet, "max_len": max_len, "max_docs": max_docs, "documents": nd}));
    let cfgj_f = || cfgj.clone();
    let valid = call!("fit", cfgj_f, params.check_ref());
    // unseen probe: every document of the scope plus two with unknown words
    let mut probe = docs.clone();
    probe.push("aa zz bb".into());
    probe.push("zz".into());
    let probe_grams: Vec<Vec<String>> = probe.iter().map(|d| o.grams(d)).collect();
    let probe_gr: Vec<&Vec<String>> = probe_grams.iter().collect();
    let probe_arr: Array1<&str> = Array1::from(probe.iter().map(|s| s.as_str()).collect::<Vec<_>>());
    let mut evals = 0u64;
    let mut nontrivial = false;
    let mut ties = 0u64;
    let mut either = 0u64;
    let mut idx = vec![0usize; 0];
    for n in 1..=max_docs {
        idx.clear();
        idx.resize(n, 0);
        let mut corpus_no = 0u64;
        loop {
            let train: Vec<String> = idx.iter().map(|i| docs[*i].clone()).collect();
            let arr: Array1<&str> = Array1::from(idx.iter().map(|i| docs[*i].as_str()).collect::<Vec<_>>());
            let tgr: Vec<&Vec<String>> = idx.iter().map(|i| &grams[*i]).collect();
            let cj = || json!({"config": cfgj, "training": idx.iter().map(|i| docs[*i].clone()).collect::<Vec<_>>()});
            let cv = call!("fit", cj, valid.fit(&arr));
            let vocab = cv.vocabulary();
            let info = tryo!(judge_vocabulary("vocabulary", vocab, cv.nentries(), &tgr, &o, &cj));
            ties += info.tie as u64;
            either += info.either as u64;
            let m = call!("transform", cj, cv.transform(&arr));
            let nnz = tryo!(judge_counts("training", &m, vocab, &train, &tgr, &cj));
            nontrivial |= nnz > 0;
            if corpus_no % 16 == c.idx % 16 {
                let m = call!("transform", cj, cv.transform(&probe_arr));
                tryo!(judge_counts("unseen", &m, vocab, &probe, &probe_gr, &cj));
            }
            evals += 1;
            corpus_no += 1;
            // next corpus
            let mut p = 0;
            loop {
                if p == n {
                    break;
                }
                idx[p] += 1;
                if idx[p] < nd {
                    break;
                }
                idx[p] = 0;
                p += 1;
            }
            if p == n {
                break;
            }
        }
    }
    c.evals = evals;
    c.count_n("cap-frequency-tie-class", ties);
    c.count_n("df-bound-rounding-class", either);
    held(nontrivial, format!("exhaustive a={alphabet} L={max_len} D={max_docs} {}", cfg.key()))
}

/// level 2: caps {none,1,2,3} x 3 stop-word sets; 1: caps {none,2} x {none,[aa]}; 0: caps {none,2}
fn exhaustive_cfgs(level: u8) -> Vec<Cfg> {
    let grid: [f32; 5] = [0.0, 0.25, 1.0 / 3.0, 0.5, 1.0];
    let mut out = vec![];
    for (a, b) in [(1, 1), (1, 2), (1, 3), (2, 2), (2, 3), (3, 3)] {
        for lo in grid {
            for hi in grid {
                if lo > hi {
                    continue;
                }
                for cap in [None, Some(2usize), Some(1), Some(3)] {
                    if level < 2 && matches!(cap, Some(1) | Some(3)) {
                        continue;
                    }
                    for stop in [None, Some(vec!["aa".to_string()]), Some(vec!["aa bb".to_string(), "bb".to_string()])] {
                        if (level < 2 && stop.as_ref().map(|s| s.len() == 2).unwrap_or(false))
                            || (level < 1 && stop.is_some())
                        {
                            continue;
                        }
                        let mut cfg = Cfg::plain();
                        cfg.tok = Tok::Regex(r"[a-z]+");
                        cfg.ngram = Some((a, b));
                        cfg.df = Some((lo, hi));
                        cfg.cap = Some(cap);
                        cfg.stop = stop;
                        out.push(cfg);
                    }
                }
            }
        }
    }
    out
}

/// "ladder" corpus: word k occurs in exactly k of the n documents (k = 1..=n), with random
/// repetitions inside documents, so one fit decides the window thresholds for every document
/// frequency at once and the feature cap has no frequency ties (strict decision).
fn case_ladder(c: &mut Case, nmax: usize) -> Outcome {
    let n = 1 + (c.idx as usize % nmax);
    let mut cfg = Cfg::plain();
    cfg.tok = Tok::Regex(r"[a-z0-9]+");
    cfg.df = Some(if c.rng.gen_bool(0.15) {
        (0.0, 1.0)
    } else {
        gen_df(&mut c.rng)
    });
    cfg.cap = match c.rng.gen_range(0..3) {
        0 => None,
        _ => Some(Some(c.rng.gen_range(0..=n + 1))),
    };
    if c.rng.gen_bool(0.3) {
        let k = c.rng.gen_range(1..=n);
        cfg.stop = Some(vec![format!("w{k:03}"), "w000".to_string()]);
    }
    let perm = crate::gen::permutation(&mut c.rng, n);
    let mut train: Vec<String> = vec![String::new(); n];
    for i in 0..n {
        // document i holds the words k > i
        let mut ws: Vec<String> = vec![];
        for k in (i + 1)..=n {
            let reps = if c.rng.gen_bool(0.2) { c.rng.gen_range(2..5) } else { 1 };
            for _ in 0..reps {
                ws.push(format!("w{k:03}"));
            }
        }
        use rand::seq::SliceRandom;
        ws.shuffle(&mut c.rng);
        train[perm[i]] = ws.join(" ");
    }
    let o = Oracle::new(&cfg);
    let cj = || json!({"config": cfg.to_json(), "n_docs": n, "training": "word wKKK occurs in exactly KKK documents"});
    c.note("config", cfg.to_json());
    c.note("n_docs", json!(n));
    let params = count_params(&cfg);
    let layout = c.rng.gen_range(0..4u32);
    let cv = call!("fit", cj, with_layout!(&train, layout, x => params.fit(x)));
    let vocab: Vec<String> = cv.vocabulary().clone();
    let tg: Vec<Vec<String>> = train.iter().map(|d| o.grams(d)).collect();
    let tgr: Vec<&Vec<String>> = tg.iter().collect();
    let info = tryo!(judge_vocabulary("vocabulary", &vocab, cv.nentries(), &tgr, &o, &cj));
    if info.tie {
        // all document frequencies are distinct by construction
        return inconclusive("harness: ladder corpus produced a frequency tie");
    }
    if info.either {
        c.count("df-bound-rounding-class");
    }
    if info.by_tf {
        c.count("cap-ranked-by-term-frequency-class");
    }
    if o.cap.is_some() {
        c.count("capped-strict");
    }
    let m = call!("transform", cj, with_layout!(&train, layout, x => cv.transform(x)));
    let nnz = tryo!(judge_counts("training", &m, &vocab, &train, &tgr, &cj));
    c.evals = 2;
    held(
        info.nonempty && nnz > 0,
        format!("ladder n={n} {} {:x}", cfg.key(), small_hash(&[&train])),
    )
}

/// `TfIdfMethod::compute_idf` against the documented formulas, every 0 <= df <= n <= N
fn case_idf(c: &mut Case) -> Outcome {
    let n = c.idx as usize;
    let mut worst = 0.0f64;
    let mut evals = 0;
    for method in [TfIdfMethod::Smooth, TfIdfMethod::NonSmooth, TfIdfMethod::Textbook] {
        for df in 0..=n {
            let got = match guarded(|| method.compute_idf(n, df)) {
                Ok(v) => v,
                Err(p) => bail!("C17/idf/panic", {"n": n, "df": df, "method": format!("{method:?}"), "panic": p}),
            };
            evals += 1;
            if df == 0 && method == TfIdfMethod::NonSmooth {
                continue; // documented division by zero
            }
            if n == 0 && method == TfIdfMethod::Textbook {
                continue; // log(0): no documents, no entries
            }
            let exp = idf_documented(&method, n, df);
            let floor = 64.0 * f64::EPSILON * (1.0 + (1.0 + n as f64).ln());
            let r = (got - exp).abs();
            ensure!(r <= floor, "C17/idf/differs-from-documented-formula",
                {"n": n, "df": df, "method": format!("{method:?}"), "got": got, "expected": exp});
            worst = worst.max(r / floor);
        }
    }
    c.resid("idf (units of 64*eps*(1+ln(1+n)))", worst);
    c.evals = evals;
    held(n >= 2, format!("idf n={n}"))
}

pub fn run(ctx: &Ctx) {
    ctx.set_rule(
        "random corpora of 0..12 documents over a 2..8 word alphabet with hostile surface forms (mixed case, \
         composed/decomposed accents, ligature, one-letter words, punctuation, empty documents) x random settings \
         (lowercase, NFKD, default/7 regex/4 function tokenisers, all 6 n-gram ranges, df windows from a 12-point \
         grid or random, stop-word entries incl. n-grams, feature caps 0..6/large, setters left uncalled); fit, then \
         transform the training corpus and an unseen corpus with out-of-vocabulary words, in 4 memory layouts; plus \
         complete enumeration of all corpora in small scopes (2- and 3-word alphabets, up to 4 documents) under 180..1080 settings; plus ladder corpora (word k in exactly k of n documents) that decide every df threshold and the cap without ties. A case is non-trivial when the \
         fitted vocabulary is non-empty and at least one expected count is positive; distinct = distinct \
         (settings, corpus hash).",
    );
    ctx.assume("the regex crate's find_iter and unicode-normalization's NFKD / std's to_lowercase are trusted (the oracle tokenises regex settings with the same regex string; function tokenisers are re-implemented by hand)");
    ctx.assume("an n-gram is its tokens joined by one space; occurrences are counted per window, so a token that itself contains a space is indistinguishable from the equal bigram (as the string-keyed vocabulary implies)");
    ctx.assume("feature cap ranks by document frequency over the training corpus; a frequency tie at the cut is a tie class");
    ctx.assume("df window is inclusive on the relative frequency df/n evaluated with the f32 bound; where the f32 product and the exact product disagree either side is accepted (df-bound-rounding-class)");
    ctx.assume("non-default idf methods have no public setter; they are constructed through the type's serde Deserialize impl");
    ctx.assume("fit_files / transform_files are not driven (the `encoding` crate is not a dependency of the harness); they share analyze_document / read_document_into_vocabulary with the in-memory forms");

    let n = ctx.tier.pick(8000, 40000);
    ctx.family("count-fit-transform", n, case_count);
    let n = ctx.tier.pick(6000, 30000);
    ctx.family("tfidf-fit-transform", n, case_tfidf);
    let n = ctx.tier.pick(3000, 12000);
    ctx.family("fixed-vocabulary", n, case_fixed);
    ctx.family("idf-formulas", ctx.tier.pick(40, 200), case_idf);
    let nmax = ctx.tier.pick(40usize, 120usize);
    ctx.family("df-window-ladder", ctx.tier.pick(2000, 16000), move |c| case_ladder(c, nmax));

    // complete small scopes; tokenisation is trivial here ([a-z]+ on lower-case words), the point is
    // the filtering / re-indexing / counting logic on every corpus shape
    let full = exhaustive_cfgs(2);
    let reduced = exhaustive_cfgs(1);
    let minimal: Vec<Cfg> = exhaustive_cfgs(0)
        .into_iter()
        .filter(|c| matches!(c.ngram, Some((1, 1)) | Some((1, 2)) | Some((2, 3))))
        .collect();
    let (full, reduced, minimal) = (&full, &reduced, &minimal);
    if ctx.tier == Tier::Quick {
        ctx.set_exhaustive(
            "all corpora of 1..=3 documents, each 0..=3 words over a 2-word alphabet, x 6 n-gram ranges x 15 df windows x caps {none,2} x stop words {none,[aa]}",
            true,
        );
        ctx.family("exhaustive-two-words", reduced.len() as u64, move |c| {
            case_exhaustive(c, reduced, 2, 3, 3)
        });
    } else {
        ctx.set_exhaustive(
            "all corpora of 1..=3 documents, each 0..=3 words over a 2-word alphabet, x 6 n-gram ranges x 15 df windows x caps {none,1,2,3} x 3 stop-word sets",
            true,
        );
        ctx.family("exhaustive-two-words", full.len() as u64, move |c| {
            case_exhaustive(c, full, 2, 3, 3)
        });
        ctx.set_exhaustive(
            "all corpora of 1..=4 documents, each 0..=3 words over a 2-word alphabet, x n-gram ranges {(1,1),(1,2),(2,3)} x 15 df windows x caps {none,2}",
            true,
        );
        ctx.family("exhaustive-two-words-four-docs", minimal.len() as u64, move |c| {
            case_exhaustive(c, minimal, 2, 3, 4)
        });
        ctx.set_exhaustive(
            "all corpora of 1..=3 documents, each 0..=2 words over a 3-word alphabet, x 6 n-gram ranges x 15 df windows x caps {none,1,2,3} x 3 stop-word sets",
            true,
        );
        ctx.family("exhaustive-three-words", full.len() as u64, move |c| {
            case_exhaustive(c, full, 3, 2, 3)
        });
    }
}
