//! C08 — DBSCAN and OPTICS output is the density clustering of the input.
//!
//! Oracles are written from the property text with the harness's own distance formulas (computed in
//! the element type linfa computes in) and brute force over all pairs:
//!  * DBSCAN: core / border / noise from the definition, union-find over the core graph, label
//!    discipline (0..c-1), border label = label of a reaching core.
//!  * OPTICS: exactly-once ordering, core distance = min_points-th smallest distance (self counted)
//!    when inside the tolerance, reachability = undefined or max(core(o), d(o,p)) for a core o
//!    within the tolerance listed no later than p (witness search).
//!  * all three neighbour indices must give the same result.
//!
//! Tolerance classes (reported separately): *generic* (the tolerance sits in a gap of the set of
//! inter-point distances: strict oracle) and *on-radius* (the tolerance is exactly an inter-point
//! distance in exact arithmetic: the `<` reading or the `<=` reading is accepted, the same reading
//! for every pair, and all indices must agree).
use crate::fw::*;
use crate::gen;
use linfa::traits::Transformer;
use linfa::{DatasetBase, Float, ParamGuard};
use linfa_clustering::{Dbscan, Optics};
use linfa_nn::distance::{Distance, L1Dist, L2Dist, LInfDist};
use linfa_nn::{BallTree, CommonNearestNeighbour, KdTree, LinearSearch};
use ndarray::{s, Array1, Array2, ArrayBase, ArrayView1, ArrayView2, Data, Ix2, ShapeBuilder};
use rand::seq::SliceRandom;
use rand::Rng as _;
use serde_json::{json, Value};
use std::collections::HashMap;

// ------------------------------------------------------------------------------------ basics

#[derive(Clone, Copy, PartialEq, Eq, Debug)]
enum Metric {
    L1,
    L2,
    Linf,
}
const METRICS: [Metric; 3] = [Metric::L1, Metric::L2, Metric::Linf];

#[derive(Clone, Copy, PartialEq, Eq, Debug)]
enum Ix {
    Linear,
    Kd,
    Ball,
}
const INDICES: [Ix; 3] = [Ix::Linear, Ix::Kd, Ix::Ball];

fn cnn(ix: Ix) -> CommonNearestNeighbour {
    match ix {
        Ix::Linear => CommonNearestNeighbour::LinearSearch,
        Ix::Kd => CommonNearestNeighbour::KdTree,
        Ix::Ball => CommonNearestNeighbour::BallTree,
    }
}

/// the harness's own distance, evaluated in `F` (the type linfa computes in)
fn own_dist<F: Float>(m: Metric, a: ArrayView1<F>, b: ArrayView1<F>) -> F {
    let mut acc = F::zero();
    match m {
        Metric::L1 => {
            for (x, y) in a.iter().zip(b.iter()) {
                acc = acc + (*x - *y).abs();
            }
            acc
        }
        Metric::L2 => {
            for (x, y) in a.iter().zip(b.iter()) {
                let d = *x - *y;
                acc = acc + d * d;
            }
            acc.sqrt()
        }
        Metric::Linf => {
            for (x, y) in a.iter().zip(b.iter()) {
                let d = (*x - *y).abs();
                if d > acc {
                    acc = d;
                }
            }
            acc
        }
    }
}

fn f64_of<F: Float>(x: F) -> f64 {
    x.to_f64().unwrap_or(f64::NAN)
}

/// all pairwise distances (own formulas), promoted exactly to f64
struct Geo {
    n: usize,
    p: usize,
    d: Vec<f64>,
    epsf: f64,
}

impl Geo {
    fn new<F: Float, S: Data<Elem = F>>(x: &ArrayBase<S, Ix2>, m: Metric) -> Geo {
        let n = x.nrows();
        let mut d = vec![0.0; n * n];
        for i in 0..n {
            for j in (i + 1)..n {
                let v = f64_of(own_dist(m, x.row(i), x.row(j)));
                d[i * n + j] = v;
                d[j * n + i] = v;
            }
        }
        Geo {
            n,
            p: x.ncols(),
            d,
            epsf: f64_of(F::epsilon()),
        }
    }
    #[inline]
    fn at(&self, i: usize, j: usize) -> f64 {
        self.d[i * self.n + j]
    }
    /// half-width of the band around the tolerance inside which the code's comparison
    /// (rdistance < rdist(eps), different rounding) and the oracle's may disagree
    fn margin(&self, eps: f64) -> f64 {
        if eps.is_finite() {
            4.0 * (self.p as f64 + 2.0) * self.epsf * eps
        } else {
            0.0
        }
    }
    fn cls(&self, d: f64, eps: f64) -> Cls {
        let m = self.margin(eps);
        if d < eps - m {
            Cls::Inside
        } else if d > eps + m {
            Cls::Outside
        } else {
            Cls::Border
        }
    }
    /// noise floor for comparing a distance published by linfa with the oracle's
    fn vtol(&self, v: f64) -> f64 {
        16.0 * (self.p as f64 + 2.0) * self.epsf * v.abs()
    }
    /// (#pairs on the radius, all of them exactly equal to eps?)
    fn border_pairs(&self, eps: f64) -> (u64, bool) {
        let mut cnt = 0;
        let mut exact = true;
        for i in 0..self.n {
            for j in (i + 1)..self.n {
                let d = self.at(i, j);
                if self.cls(d, eps) == Cls::Border {
                    cnt += 1;
                    if d != eps {
                        exact = false;
                    }
                }
            }
        }
        (cnt, exact)
    }
}

#[derive(Clone, Copy, PartialEq, Eq, Debug)]
enum Cls {
    Inside,
    Outside,
    Border,
}

type Fail = (&'static str, Value);

/// Evidence only: the smallest relative deviation of a published distance that the oracle
/// rejected in this run (stays at infinity on a clean tree; on a mutant it shows how far above
/// the noise floor the rejected values sit). Never read by a verdict.
static MIN_REJECTED_REL: std::sync::atomic::AtomicU64 = std::sync::atomic::AtomicU64::new(0x7FF0_0000_0000_0000);
static REJECTED_FAR: std::sync::atomic::AtomicU64 = std::sync::atomic::AtomicU64::new(0);
static REJECTED_NEAR: std::sync::atomic::AtomicU64 = std::sync::atomic::AtomicU64::new(0);
/// `rel`: relative deviation of the rejected value, `floor`: the relative noise floor it exceeded
fn note_rejected(rel: f64, floor: f64) {
    use std::sync::atomic::Ordering::Relaxed;
    if rel.is_finite() && rel >= 0.0 {
        MIN_REJECTED_REL.fetch_min(rel.to_bits(), Relaxed);
        if rel >= 100.0 * floor {
            REJECTED_FAR.fetch_add(1, Relaxed);
        } else {
            REJECTED_NEAR.fetch_add(1, Relaxed);
        }
    }
}

// ------------------------------------------------------------------------------------ running linfa

fn run_dbscan<F: Float, S: Data<Elem = F>>(
    x: &ArrayBase<S, Ix2>,
    m: Metric,
    ix: Ix,
    mp: usize,
    eps: F,
) -> Result<Vec<Option<usize>>, String> {
    fn go<F: Float, S: Data<Elem = F>, D: Distance<F>>(
        x: &ArrayBase<S, Ix2>,
        d: D,
        ix: Ix,
        mp: usize,
        eps: F,
    ) -> Result<Vec<Option<usize>>, String> {
        let params = Dbscan::params_with(mp, d, cnn(ix)).tolerance(eps);
        let r = guarded(|| {
            let r: Result<Array1<Option<usize>>, _> = params.transform(x);
            r
        });
        match r {
            Ok(Ok(l)) => Ok(l.to_vec()),
            Ok(Err(e)) => Err(format!("error: {e}")),
            Err(p) => Err(format!("panic: {p}")),
        }
    }
    match m {
        Metric::L1 => go(x, L1Dist, ix, mp, eps),
        Metric::L2 => go(x, L2Dist, ix, mp, eps),
        Metric::Linf => go(x, LInfDist, ix, mp, eps),
    }
}

#[derive(Clone, Debug, PartialEq)]
struct OSample {
    idx: usize,
    core: Option<f64>,
    reach: Option<f64>,
}

fn run_optics<F: Float>(
    x: ArrayView2<F>,
    m: Metric,
    ix: Ix,
    mp: usize,
    eps: Option<F>,
) -> Result<Vec<OSample>, String> {
    fn go<F: Float, D: Distance<F>>(
        x: ArrayView2<F>,
        d: D,
        ix: Ix,
        mp: usize,
        eps: Option<F>,
    ) -> Result<Vec<OSample>, String> {
        let mut params = Optics::params_with(mp, d, cnn(ix));
        if let Some(e) = eps {
            params = params.tolerance(e);
        }
        let r = guarded(|| params.transform(x));
        match r {
            Ok(Ok(a)) => Ok(a
                .iter()
                .map(|s| OSample {
                    idx: s.index(),
                    core: s.core_distance().map(f64_of),
                    reach: s.reachability_distance().map(f64_of),
                })
                .collect()),
            Ok(Err(e)) => Err(format!("error: {e}")),
            Err(p) => Err(format!("panic: {p}")),
        }
    }
    match m {
        Metric::L1 => go(x, L1Dist, ix, mp, eps),
        Metric::L2 => go(x, L2Dist, ix, mp, eps),
        Metric::Linf => go(x, LInfDist, ix, mp, eps),
    }
}

/// Tolerance equal to a *computed* (rounded) inter-point distance, e.g. sqrt(2) under L2 or a sum of
/// inexact terms under L1: which side of the radius such a pair lies on is decided by rounding, so no
/// oracle reading is demanded -- only that the result does not depend on the neighbour index.
fn rounded_tie_index_agreement<F: Float>(c: &mut Case, f32_run: bool) -> Outcome {
    let mp = *gen::pick(&mut c.rng, &[2usize, 2, 3, 3, 4]);
    let p = c.rng.gen_range(2..=3);
    let n = c.rng.gen_range(4..=c.tier.pick(30, 70));
    let lattice = c.rng.gen_bool(0.7);
    let x64 = if lattice {
        let side = c.rng.gen_range(3..6) as i64;
        Array2::from_shape_fn((n, p), |_| c.rng.gen_range(0..side) as f64)
    } else {
        // tenths: sums and squares of differences are inexact in binary floating point
        Array2::from_shape_fn((n, p), |_| c.rng.gen_range(0..12) as f64 / 10.0)
    };
    let x: Array2<F> = x64.mapv(|v| F::cast(v));
    let m = if lattice { Metric::L2 } else { METRICS[c.rng.gen_range(0..3)] };
    let (i, j) = (c.rng.gen_range(0..n), c.rng.gen_range(0..n));
    let eps = own_dist(m, x.row(i), x.row(j));
    if !(eps > F::zero()) {
        return inconclusive("picked a zero distance");
    }
    c.note("n", json!(n));
    c.note("features", json!(p));
    c.note("metric", json!(format!("{m:?}")));
    c.note("min_points", json!(mp));
    c.note("tolerance", json!(f64_of(eps)));
    c.note("float", json!(if f32_run { "f32" } else { "f64" }));
    c.evals = 6;
    let db: Vec<_> = [Ix::Linear, Ix::Kd, Ix::Ball].iter().map(|ix| run_dbscan(&x, m, *ix, mp, eps)).collect();
    let op: Vec<_> = [Ix::Linear, Ix::Kd, Ix::Ball].iter().map(|ix| run_optics(x.view(), m, *ix, mp, Some(eps))).collect();
    for r in db.iter() {
        if let Err(e) = r {
            bail!("C08/dbscan/panic-or-error", {"why": e, "data": data_json(&x), "tolerance": f64_of(eps)});
        }
    }
    for r in op.iter() {
        if let Err(e) = r {
            bail!("C08/optics/panic-or-error", {"why": e, "data": data_json(&x), "tolerance": f64_of(eps)});
        }
    }
    // All three indices apply the same point-level predicate (reduced distance against the reduced
    // tolerance); tree bounds only decide which points are looked at and must never prune a point the
    // predicate accepts. So the results agree exactly even on rounded ties. (Before fix 83fa6eb the
    // ball tree's rounded sphere bound did prune such points; the difference was first taken for
    // floating-point noise and only counted here - it is judged now.)
    let names = ["linear", "kd-tree", "ball-tree"];
    for k in 1..3 {
        ensure!(db[k] == db[0], "C08/xindex/dbscan-rounded-tie-labels-differ",
            {"data": data_json(&x), "metric": format!("{m:?}"), "min_points": mp, "tolerance": f64_of(eps),
             "linear": format!("{:?}", db[0]), names[k]: format!("{:?}", db[k])});
        ensure!(op[k] == op[0], "C08/xindex/optics-rounded-tie-analysis-differs",
            {"data": data_json(&x), "metric": format!("{m:?}"), "min_points": mp, "tolerance": f64_of(eps),
             "linear": format!("{:?}", op[0]), names[k]: format!("{:?}", op[k])});
    }
    let h = small_hash(x.iter().map(|v| f64_of(*v)));
    held(n >= mp + 1, format!("rounded-tie n={n} p={p} m={m:?} mp={mp} h={h:x} f32={f32_run}"))
}

// ------------------------------------------------------------------------------------ DBSCAN oracle

struct Truth {
    adj: Vec<Vec<u32>>, // neighbours within the tolerance, self excluded
    core: Vec<bool>,
    comp: Vec<usize>, // component of a core point
    ncomp: usize,
    reached: Vec<bool>, // core, or within the tolerance of a core
    nborder: usize,
    nnoise: usize,
    shared_border: usize, // border points reached by cores of >= 2 components
}

fn truth(g: &Geo, eps: f64, mp: usize, incl: bool) -> Truth {
    let n = g.n;
    let mut adj: Vec<Vec<u32>> = vec![vec![]; n];
    for i in 0..n {
        for j in (i + 1)..n {
            let w = match g.cls(g.at(i, j), eps) {
                Cls::Inside => true,
                Cls::Outside => false,
                Cls::Border => incl,
            };
            if w {
                adj[i].push(j as u32);
                adj[j].push(i as u32);
            }
        }
    }
    // the point itself counts (d = 0 < eps)
    let core: Vec<bool> = (0..n).map(|i| adj[i].len() + 1 >= mp).collect();
    let mut parent: Vec<usize> = (0..n).collect();
    fn find(p: &mut Vec<usize>, mut a: usize) -> usize {
        while p[a] != a {
            p[a] = p[p[a]];
            a = p[a];
        }
        a
    }
    for i in 0..n {
        if !core[i] {
            continue;
        }
        for &j in &adj[i] {
            let j = j as usize;
            if core[j] {
                let (a, b) = (find(&mut parent, i), find(&mut parent, j));
                if a != b {
                    parent[a] = b;
                }
            }
        }
    }
    let mut comp = vec![usize::MAX; n];
    let mut ids: HashMap<usize, usize> = HashMap::new();
    for i in 0..n {
        if core[i] {
            let r = find(&mut parent, i);
            let k = ids.len();
            comp[i] = *ids.entry(r).or_insert(k);
        }
    }
    let mut reached = vec![false; n];
    let (mut nborder, mut nnoise, mut shared) = (0, 0, 0);
    for i in 0..n {
        if core[i] {
            reached[i] = true;
            continue;
        }
        let mut first = usize::MAX;
        let mut multi = false;
        for &j in &adj[i] {
            let j = j as usize;
            if core[j] {
                if first == usize::MAX {
                    first = comp[j];
                } else if comp[j] != first {
                    multi = true;
                }
            }
        }
        if first != usize::MAX {
            reached[i] = true;
            nborder += 1;
            if multi {
                shared += 1;
            }
        } else {
            nnoise += 1;
        }
    }
    Truth {
        adj,
        core,
        comp,
        ncomp: ids.len(),
        reached,
        nborder,
        nnoise,
        shared_border: shared,
    }
}

fn db_check(t: &Truth, labels: &[Option<usize>]) -> Result<(), Fail> {
    let n = t.core.len();
    if labels.len() != n {
        return Err(("output-length", json!({"n": n, "returned": labels.len()})));
    }
    for i in 0..n {
        match (t.reached[i], labels[i]) {
            (true, None) => {
                return Err((
                    if t.core[i] { "core-point-unlabelled" } else { "border-point-unlabelled" },
                    json!({"point": i, "neighbours_within_tolerance_self_included": t.adj[i].len() + 1}),
                ))
            }
            (false, Some(l)) => {
                return Err((
                    "noise-point-labelled",
                    json!({"point": i, "label": l, "neighbours_within_tolerance_self_included": t.adj[i].len() + 1}),
                ))
            }
            _ => {}
        }
    }
    let mut comp_label: Vec<Option<(usize, usize)>> = vec![None; t.ncomp];
    for i in 0..n {
        if !t.core[i] {
            continue;
        }
        let l = labels[i].unwrap();
        match comp_label[t.comp[i]] {
            None => comp_label[t.comp[i]] = Some((l, i)),
            Some((l0, i0)) if l0 != l => {
                return Err((
                    "connected-cores-split",
                    json!({"core_a": i0, "label_a": l0, "core_b": i, "label_b": l}),
                ))
            }
            _ => {}
        }
    }
    let mut seen: HashMap<usize, usize> = HashMap::new();
    for (c, e) in comp_label.iter().enumerate() {
        let (l, i) = e.unwrap();
        if let Some(prev) = seen.insert(l, i) {
            return Err((
                "separate-components-merged",
                json!({"core_a": prev, "core_b": i, "label": l, "component_a": t.comp[prev], "component_b": c}),
            ));
        }
    }
    for i in 0..n {
        if t.core[i] || !t.reached[i] {
            continue;
        }
        let l = labels[i];
        let ok = t.adj[i].iter().any(|&j| t.core[j as usize] && labels[j as usize] == l);
        if !ok {
            return Err((
                "border-label-not-from-reaching-core",
                json!({"point": i, "label": l,
                       "labels_of_reaching_cores": t.adj[i].iter().filter(|&&j| t.core[j as usize]).map(|&j| labels[j as usize]).collect::<Vec<_>>()}),
            ));
        }
    }
    // every used label is the label of a core; there are ncomp distinct core labels
    for (l, i) in seen.iter() {
        if *l >= t.ncomp {
            return Err((
                "labels-not-contiguous",
                json!({"label": l, "point": i, "clusters": t.ncomp}),
            ));
        }
    }
    Ok(())
}

// ------------------------------------------------------------------------------------ OPTICS oracle

#[derive(Default)]
struct OStats {
    ncore: usize,
    nreach: usize,
    core_resid: f64,
    reach_resid: f64,
    /// informational only (the property asks for *some* witness): defined reachabilities that
    /// equal / exceed the minimum of max(core(o), d(o,p)) over the cores o listed earlier
    reach_is_min: usize,
    reach_above_min: usize,
}

fn optics_check(g: &Geo, eps: f64, mp: usize, incl: bool, out: &[OSample]) -> Result<OStats, Fail> {
    let n = g.n;
    if out.len() != n {
        return Err(("sample-count", json!({"n": n, "listed": out.len()})));
    }
    let mut pos = vec![usize::MAX; n];
    for (t, s) in out.iter().enumerate() {
        if s.idx >= n {
            return Err(("index-out-of-range", json!({"position": t, "index": s.idx, "n": n})));
        }
        if pos[s.idx] != usize::MAX {
            return Err((
                "sample-listed-twice",
                json!({"index": s.idx, "positions": [pos[s.idx], t]}),
            ));
        }
        pos[s.idx] = t;
    }
    let within = |d: f64| match g.cls(d, eps) {
        Cls::Inside => true,
        Cls::Outside => false,
        Cls::Border => incl,
    };
    // expected core distances
    let mut st = OStats::default();
    let mut ecore: Vec<Option<f64>> = vec![None; n];
    let mut row: Vec<f64> = Vec::with_capacity(n);
    for i in 0..n {
        if n < mp {
            break;
        }
        row.clear();
        row.extend_from_slice(&g.d[i * n..(i + 1) * n]);
        let (_, kth, _) = row.select_nth_unstable_by(mp - 1, |a, b| a.partial_cmp(b).unwrap());
        let dk = *kth;
        if within(dk) {
            ecore[i] = Some(dk);
        }
    }
    for s in out {
        let i = s.idx;
        match (ecore[i], s.core) {
            (None, None) => {}
            (Some(e), None) => {
                return Err((
                    "core-distance-missing",
                    json!({"index": i, "expected": e, "tolerance": eps}),
                ))
            }
            (None, Some(o)) => {
                return Err((
                    "core-distance-beyond-tolerance",
                    json!({"index": i, "got": o, "tolerance": eps, "min_points": mp}),
                ))
            }
            (Some(e), Some(o)) => {
                let r = (o - e).abs();
                if !(r <= g.vtol(e)) {
                    note_rejected(r / e.abs().max(f64::MIN_POSITIVE), g.vtol(1.0));
                    return Err((
                        "core-distance-wrong",
                        json!({"index": i, "got": o, "expected": e, "min_points": mp}),
                    ));
                }
                if e > 0.0 {
                    st.core_resid = st.core_resid.max(r / e);
                }
                st.ncore += 1;
            }
        }
    }
    // reachability witnesses
    for (t, s) in out.iter().enumerate() {
        let Some(r) = s.reach else { continue };
        let p = s.idx;
        let mut best = f64::INFINITY;
        let mut later = None;
        let mut ok = false;
        let mut min_earlier = f64::INFINITY;
        let mut closest = f64::INFINITY;
        for o in 0..n {
            let Some(co) = ecore[o] else { continue };
            let d = g.at(o, p);
            if o != p && !within(d) {
                continue;
            }
            let cand = co.max(d);
            if pos[o] < t {
                min_earlier = min_earlier.min(cand);
            }
            let diff = (r - cand).abs();
            closest = closest.min(diff / cand.abs().max(f64::MIN_POSITIVE));
            if diff <= g.vtol(cand) {
                if pos[o] <= t {
                    ok = true;
                    let rel = if cand > 0.0 { diff / cand } else { 0.0 };
                    best = best.min(rel);
                } else {
                    later = Some(o);
                }
            }
        }
        if !ok {
            if later.is_none() {
                note_rejected(closest, g.vtol(1.0));
            }
            return Err(match later {
                Some(o) => (
                    "reachability-witness-listed-later",
                    json!({"index": p, "position": t, "reachability": r, "only_witness": o, "witness_position": pos[o],
                           "witness_core_distance": ecore[o], "distance_to_witness": g.at(o, p)}),
                ),
                None => (
                    "reachability-no-witness",
                    json!({"index": p, "position": t, "reachability": r, "own_core_distance": ecore[p]}),
                ),
            });
        }
        st.reach_resid = st.reach_resid.max(best);
        st.nreach += 1;
        if (r - min_earlier).abs() <= g.vtol(min_earlier) {
            st.reach_is_min += 1;
        } else {
            st.reach_above_min += 1;
        }
    }
    Ok(st)
}

// ------------------------------------------------------------------------------------ generators

const GEN_NAMES: [&str; 10] = [
    "chain", "rings", "touching", "duplicates", "blobs+noise", "lattice", "one-feature", "uniform",
    "bridge", "two-scales",
];

/// point sets named in the property's quantifier; row order is shuffled (the visiting order matters)
fn gen_points(rng: &mut Rng, kind: usize, nmax: usize, mp: usize) -> Array2<f64> {
    let n = rng.gen_range(2..=nmax.max(2));
    let mut rows: Vec<Vec<f64>> = vec![];
    match kind {
        0 => {
            // chain(s) along a random direction, optional gaps and jitter
            let p = rng.gen_range(1..=3);
            let dir: Vec<f64> = (0..p).map(|_| gen::normal(rng)).collect();
            let nrm = dir.iter().map(|v| v * v).sum::<f64>().sqrt().max(1e-9);
            let jit = *gen::pick(rng, &[0.0, 0.0, 0.02, 0.2]);
            let mut t = 0.0;
            for _ in 0..n {
                t += if rng.gen_bool(0.1) { 1.6 } else { 1.0 };
                rows.push((0..p).map(|k| t * dir[k] / nrm + jit * gen::normal(rng)).collect());
            }
        }
        1 => {
            let nr = rng.gen_range(1..=3);
            for i in 0..n {
                let r = (1 + i % nr) as f64 * 2.0;
                let m = (n / nr).max(3) as f64;
                let a = 2.0 * std::f64::consts::PI * ((i / nr) as f64) / m;
                rows.push(vec![r * a.cos(), r * a.sin()]);
            }
            for _ in 0..rng.gen_range(0..=mp + 2) {
                rows.push(vec![0.05 * gen::normal(rng), 0.05 * gen::normal(rng)]);
            }
        }
        2 => {
            // two blobs whose fringes touch
            let p = rng.gen_range(1..=3);
            let gap = gen::uniform(rng, 1.5, 4.0);
            for i in 0..n {
                let c = if i % 2 == 0 { 0.0 } else { gap };
                rows.push((0..p).map(|k| if k == 0 { c } else { 0.0 } + 0.5 * gen::normal(rng)).collect());
            }
        }
        3 => {
            let p = rng.gen_range(1..=3);
            let m = (n / 3).max(1);
            let base: Vec<Vec<f64>> = (0..m).map(|_| (0..p).map(|_| gen::uniform(rng, -3.0, 3.0)).collect()).collect();
            for _ in 0..n {
                rows.push(base[rng.gen_range(0..m)].clone());
            }
        }
        4 => {
            let p = rng.gen_range(2..=4);
            let nb = rng.gen_range(1..=4);
            let (x, _) = gen::blobs(rng, n, p, nb, 4.0, 0.4);
            for r in x.outer_iter() {
                rows.push(r.to_vec());
            }
            for _ in 0..(n / 5 + 1) {
                rows.push((0..p).map(|_| gen::uniform(rng, -8.0, 8.0)).collect());
            }
        }
        5 => {
            let p = rng.gen_range(1..=3);
            let side = ((n as f64).powf(1.0 / p as f64).ceil() as usize + 1).max(2);
            let keep = gen::uniform(rng, 0.5, 1.0);
            let total = side.pow(p as u32);
            for c in 0..total {
                if rng.gen_bool(keep) {
                    let mut q = c;
                    let mut v = vec![];
                    for _ in 0..p {
                        v.push((q % side) as f64);
                        q /= side;
                    }
                    rows.push(v);
                }
            }
        }
        6 => {
            let nc = rng.gen_range(1..=4);
            for _ in 0..n {
                let c = rng.gen_range(0..nc) as f64 * 5.0;
                rows.push(vec![if rng.gen_bool(0.2) { c } else { c + gen::normal(rng) }]);
            }
        }
        7 => {
            let p = rng.gen_range(1..=6);
            for _ in 0..n {
                rows.push((0..p).map(|_| gen::uniform(rng, -1.0, 1.0)).collect());
            }
        }
        8 => {
            // two dense groups joined only through sparse points (non-core bridges)
            let k = mp.max(3);
            for i in 0..k {
                rows.push(vec![-0.3 * i as f64, 0.0]);
                rows.push(vec![2.0 + 0.3 * i as f64, 0.0]);
            }
            // groups start at x=0 (going left) and x=2 (going right); the bridge sits between
            rows.push(vec![1.0 + gen::uniform(rng, -0.02, 0.02), gen::uniform(rng, -0.02, 0.02)]);
            for _ in 0..rng.gen_range(0..4) {
                rows.push(vec![gen::uniform(rng, -3.0, 5.0), gen::uniform(rng, 1.5, 4.0)]);
            }
        }
        _ => {
            // clusters of very different density
            let p = 2;
            for i in 0..n {
                let (c, s) = if i % 3 == 0 { (0.0, 0.01) } else if i % 3 == 1 { (3.0, 0.3) } else { (-20.0, 3.0) };
                rows.push((0..p).map(|_| c + s * gen::normal(rng)).collect());
            }
        }
    }
    if rows.len() < 2 {
        rows.push(vec![0.0; rows.first().map(|r| r.len()).unwrap_or(1)]);
        rows.push(vec![1.0; rows[0].len()]);
    }
    rows.shuffle(rng);
    let p = rows[0].len();
    Array2::from_shape_fn((rows.len(), p), |(i, j)| rows[i][j])
}

/// hostile affine map: scale and offset per data set
fn hostile_affine(rng: &mut Rng, x: &mut Array2<f64>, f32_run: bool) -> (f64, f64) {
    let scale = if rng.gen_bool(0.5) {
        1.0
    } else if f32_run {
        10f64.powi(rng.gen_range(-12..=12))
    } else {
        10f64.powi(rng.gen_range(-80..=80))
    };
    let offset = if rng.gen_bool(0.6) {
        0.0
    } else {
        scale * *gen::pick(rng, &[1e2, -1e3, 1e4, 3e5])
    };
    x.mapv_inplace(|v| v * scale + offset);
    (scale, offset)
}

/// Snap every column onto a dyadic grid of >= 8 ulp(F) of its largest magnitude, so that two distinct
/// values of a column are never adjacent floats. (The external `kdtree` crate recurses without end
/// when a bucket overflows with points on two adjacent floats — a linfa-nn matter reported under
/// C07; an abort of the process cannot be judged by an in-process monitor.)
fn snap<F: Float>(x: &Array2<f64>) -> Array2<F> {
    let epsf = f64_of(F::epsilon());
    let mut out = Array2::<F>::zeros(x.dim());
    for j in 0..x.ncols() {
        let maxabs = x.column(j).iter().fold(0.0f64, |a, v| a.max(v.abs()));
        let q = if maxabs > 0.0 {
            2f64.powi(maxabs.log2().ceil() as i32) * epsf * 8.0
        } else {
            1.0
        };
        for i in 0..x.nrows() {
            out[[i, j]] = F::cast((x[[i, j]] / q).round() * q);
        }
    }
    out
}

/// a tolerance in a gap of the distance set, steered towards the min_points-th neighbour scale
fn generic_eps(g: &Geo, rng: &mut Rng, mp: usize, cast: &dyn Fn(f64) -> f64) -> Option<f64> {
    let n = g.n;
    if n < 2 {
        return Some(1.0);
    }
    for attempt in 0..60 {
        let style = rng.gen_range(0..10);
        let i = rng.gen_range(0..n);
        let mut row: Vec<f64> = g.d[i * n..(i + 1) * n].to_vec();
        row.sort_by(|a, b| a.partial_cmp(b).unwrap());
        let k = match style {
            0 => n - 1,                                               // beyond everything
            1 => 1,                                                   // tiny
            _ => ((mp as i64 - 1 + rng.gen_range(-1..=2)).max(1) as usize).min(n - 1),
        };
        let d = row[k];
        let above = rng.gen_bool(0.5) || d == 0.0;
        // neighbours of d in the global distance set
        let (mut a, mut b) = (f64::NEG_INFINITY, f64::INFINITY);
        for &v in &g.d {
            if above {
                if v > d && v < b {
                    b = v;
                }
            } else if v < d && v > a {
                a = v;
            }
        }
        let (lo, hi) = if above { (d, b) } else { (a.max(0.0), d) };
        let eps = if hi.is_infinite() {
            if lo > 0.0 { lo * 1.5 } else { 1.0 }
        } else {
            0.5 * (lo + hi)
        };
        let eps = cast(eps);
        if !(eps > 0.0) || !eps.is_finite() {
            continue;
        }
        let m = g.margin(eps);
        let _ = attempt;
        if eps - lo > 4.0 * m && (hi.is_infinite() || hi - eps > 4.0 * m) {
            // the whole distance set must stay clear of the band (lo/hi are its neighbours)
            return Some(eps);
        }
    }
    None
}

fn data_json<F: Float>(x: &Array2<F>) -> Value {
    if x.nrows() <= 40 && x.ncols() <= 4 {
        json!(x.outer_iter().map(|r| r.iter().map(|v| f64_of(*v)).collect::<Vec<f64>>()).collect::<Vec<_>>())
    } else {
        json!(format!("{}x{} (regenerate from seed/case)", x.nrows(), x.ncols()))
    }
}

fn small_hash(vals: impl Iterator<Item = f64>) -> u64 {
    let mut h: u64 = 0xcbf29ce484222325;
    for v in vals {
        h ^= v.to_bits();
        h = h.wrapping_mul(0x100000001b3);
    }
    h
}

// ------------------------------------------------------------------------------------ judging one configuration

struct DbSummary {
    ncore: usize,
    nborder: usize,
    nnoise: usize,
    nclusters: usize,
    shared: usize,
    border_pairs: u64,
}

/// Run DBSCAN with the three indices, judge each against the oracle, demand equal label vectors.
/// `on_radius`: the tolerance is (by construction) exactly an inter-point distance.
fn judge_dbscan<F: Float>(
    x: &Array2<F>,
    g: &Geo,
    m: Metric,
    mp: usize,
    eps: F,
    on_radius: bool,
) -> Result<DbSummary, Outcome> {
    let e64 = f64_of(eps);
    let (bp, exact) = g.border_pairs(e64);
    if bp > 0 && !on_radius {
        return Err(inconclusive("generic tolerance landed within the rounding band of a distance"));
    }
    if bp > 0 && !exact {
        return Err(inconclusive("near-tie on the radius that is not an exact tie"));
    }
    let readings: Vec<bool> = if bp > 0 { vec![false, true] } else { vec![false] };
    let truths: Vec<Truth> = readings.iter().map(|&r| truth(g, e64, mp, r)).collect();
    let mut all: Vec<Vec<Option<usize>>> = vec![];
    for ix in INDICES {
        let labels = match run_dbscan(x, m, ix, mp, eps) {
            Ok(l) => l,
            Err(why) => {
                return Err(violated(
                    "C08/dbscan/panic-or-error",
                    json!({"index": format!("{ix:?}"), "metric": format!("{m:?}"), "min_points": mp, "tolerance": e64, "why": why, "data": data_json(x)}),
                ))
            }
        };
        let mut first_fail: Option<Fail> = None;
        let mut other_fail: Option<Fail> = None;
        let mut accepted = false;
        for t in &truths {
            match db_check(t, &labels) {
                Ok(()) => {
                    accepted = true;
                    break;
                }
                Err(f) => {
                    if first_fail.is_none() {
                        first_fail = Some(f);
                    } else {
                        other_fail = Some(f);
                    }
                }
            }
        }
        if !accepted {
            // signature: the failure under the strict (`<`) reading; the failure under the `<=`
            // reading (only tried when pairs lie exactly on the radius) goes into the witness
            let (what, detail) = first_fail.unwrap();
            let detail = json!({"under_strict_reading": detail, "under_inclusive_reading": other_fail.map(|(w, d)| json!({"failure": w, "detail": d}))});
            return Err(violated(
                format!("C08/dbscan/{what}"),
                json!({"index": format!("{ix:?}"), "metric": format!("{m:?}"), "min_points": mp, "tolerance": e64,
                       "float": if g.epsf > 1e-10 { "f32" } else { "f64" },
                       "on_radius_pairs": bp, "detail": detail,
                       "labels": if labels.len() <= 64 { json!(labels) } else { json!(null) },
                       "data": data_json(x)}),
            ));
        }
        all.push(labels);
    }
    for k in 1..all.len() {
        if all[k] != all[0] {
            let at = (0..all[0].len().min(all[k].len())).find(|&i| all[0][i] != all[k][i]);
            return Err(violated(
                if bp > 0 { "C08/xindex/dbscan-on-radius-labels-differ" } else { "C08/xindex/dbscan-labels-differ" },
                json!({"index_a": format!("{:?}", INDICES[0]), "index_b": format!("{:?}", INDICES[k]), "first_difference_at": at,
                       "label_a": at.map(|i| all[0][i]), "label_b": at.map(|i| all[k][i]),
                       "metric": format!("{m:?}"), "min_points": mp, "tolerance": e64, "on_radius_pairs": bp,
                       "float": if g.epsf > 1e-10 { "f32" } else { "f64" },
                       "data": data_json(x)}),
            ));
        }
    }
    let t = &truths[0];
    Ok(DbSummary {
        ncore: t.core.iter().filter(|c| **c).count(),
        nborder: t.nborder,
        nnoise: t.nnoise,
        nclusters: t.ncomp,
        shared: t.shared_border,
        border_pairs: bp,
    })
}

struct OpSummary {
    ncore: usize,
    nreach: usize,
    reach_is_min: usize,
    reach_above_min: usize,
    border_pairs: u64,
    core_resid: f64,
    reach_resid: f64,
}

fn judge_optics<F: Float>(
    x: &Array2<F>,
    g: &Geo,
    m: Metric,
    mp: usize,
    eps: Option<F>,
    on_radius: bool,
) -> Result<OpSummary, Outcome> {
    let e64 = eps.map(f64_of).unwrap_or(f64::INFINITY);
    let (bp, exact) = g.border_pairs(e64);
    if bp > 0 && !on_radius {
        return Err(inconclusive("generic tolerance landed within the rounding band of a distance"));
    }
    if bp > 0 && !exact {
        return Err(inconclusive("near-tie on the radius that is not an exact tie"));
    }
    let readings: Vec<bool> = if bp > 0 { vec![false, true] } else { vec![false] };
    let mut all: Vec<Vec<OSample>> = vec![];
    let mut sum = OpSummary { ncore: 0, nreach: 0, reach_is_min: 0, reach_above_min: 0, border_pairs: bp, core_resid: 0.0, reach_resid: 0.0 };
    for ix in INDICES {
        let out = match run_optics(x.view(), m, ix, mp, eps) {
            Ok(o) => o,
            Err(why) => {
                return Err(violated(
                    "C08/optics/panic-or-error",
                    json!({"index": format!("{ix:?}"), "metric": format!("{m:?}"), "min_points": mp, "tolerance": e64, "why": why, "data": data_json(x)}),
                ))
            }
        };
        let mut first_fail: Option<Fail> = None;
        let mut other_fail: Option<Fail> = None;
        let mut accepted = None;
        for &r in &readings {
            match optics_check(g, e64, mp, r, &out) {
                Ok(st) => {
                    accepted = Some(st);
                    break;
                }
                Err(f) => {
                    if first_fail.is_none() {
                        first_fail = Some(f);
                    } else {
                        other_fail = Some(f);
                    }
                }
            }
        }
        match accepted {
            Some(st) => {
                sum.ncore = st.ncore;
                sum.nreach = st.nreach;
                sum.reach_is_min += st.reach_is_min;
                sum.reach_above_min += st.reach_above_min;
                sum.core_resid = sum.core_resid.max(st.core_resid);
                sum.reach_resid = sum.reach_resid.max(st.reach_resid);
            }
            None => {
                let (what, detail) = first_fail.unwrap();
                let detail = json!({"under_strict_reading": detail, "under_inclusive_reading": other_fail.map(|(w, d)| json!({"failure": w, "detail": d}))});
                let listing: Value = if out.len() <= 40 {
                    json!(out.iter().map(|s| json!([s.idx, s.core, s.reach])).collect::<Vec<_>>())
                } else {
                    json!(null)
                };
                return Err(violated(
                    format!("C08/optics/{what}"),
                    json!({"index": format!("{ix:?}"), "metric": format!("{m:?}"), "min_points": mp, "tolerance": if e64.is_finite() { json!(e64) } else { json!("inf (default)") },
                           "float": if g.epsf > 1e-10 { "f32" } else { "f64" },
                           "on_radius_pairs": bp, "detail": detail, "ordering_index_core_reach": listing, "data": data_json(x)}),
                ));
            }
        }
        all.push(out);
    }
    for k in 1..all.len() {
        if all[k] == all[0] {
            continue;
        }
        // which component of the result differs first
        let mut what = "ordering";
        let mut at = 0;
        for (t, (a, b)) in all[0].iter().zip(all[k].iter()).enumerate() {
            if a != b {
                at = t;
                what = if a.idx != b.idx {
                    "ordering"
                } else if a.core.map(f64::to_bits) != b.core.map(f64::to_bits) {
                    "core-distance"
                } else {
                    "reachability"
                };
                break;
            }
        }
        // core distances compared per sample index (independent of the ordering)
        let mut ca: Vec<Option<u64>> = vec![None; g.n];
        let mut cb = ca.clone();
        for s in &all[0] {
            if s.idx < g.n {
                ca[s.idx] = s.core.map(f64::to_bits);
            }
        }
        for s in &all[k] {
            if s.idx < g.n {
                cb[s.idx] = s.core.map(f64::to_bits);
            }
        }
        if ca != cb {
            what = "core-distance";
        }
        let sig = if bp > 0 {
            format!("C08/xindex/optics-on-radius-{what}-differs")
        } else {
            format!("C08/xindex/optics-{what}-differs")
        };
        return Err(violated(
            sig,
            json!({"index_a": format!("{:?}", INDICES[0]), "index_b": format!("{:?}", INDICES[k]), "first_difference_at_position": at,
                   "a": json!([all[0][at].idx, all[0][at].core, all[0][at].reach]),
                   "b": json!([all[k][at].idx, all[k][at].core, all[k][at].reach]),
                   "metric": format!("{m:?}"), "min_points": mp, "tolerance": if e64.is_finite() { json!(e64) } else { json!("inf (default)") },
                   "float": if g.epsf > 1e-10 { "f32" } else { "f64" },
                   "on_radius_pairs": bp, "data": data_json(x)}),
        ));
    }
    Ok(sum)
}

macro_rules! tri {
    ($e:expr) => {
        match $e {
            Ok(v) => v,
            Err(o) => return o,
        }
    };
}

// ------------------------------------------------------------------------------------ random families

#[derive(Clone, Copy, PartialEq)]
enum Algo {
    Dbscan,
    Optics,
}

fn random_generic<F: Float>(c: &mut Case, algo: Algo, f32_run: bool) -> Outcome {
    let kind = (c.idx % GEN_NAMES.len() as u64) as usize;
    let mp = *gen::pick(&mut c.rng, &[2usize, 2, 3, 3, 4, 5, 6, 8]);
    let nmax = if c.rng.gen_bool(0.12) {
        c.tier.pick(150, if algo == Algo::Dbscan { 1500 } else { 900 })
    } else {
        // beyond 16 points the two trees have more than one leaf
        *gen::pick(&mut c.rng, &c.tier.pick([12usize, 40, 64, 96], [12usize, 60, 120, 200]))
    };
    let m = METRICS[c.rng.gen_range(0..3)];
    let mut x64 = gen_points(&mut c.rng, kind, nmax, mp);
    let (scale, offset) = hostile_affine(&mut c.rng, &mut x64, f32_run);
    let x: Array2<F> = snap::<F>(&x64);
    let g = Geo::new(&x, m);
    let cast = |v: f64| f64_of(F::cast(v));
    let use_default_tol = algo == Algo::Optics && c.rng.gen_bool(0.15);
    let eps = if use_default_tol {
        None
    } else {
        match generic_eps(&g, &mut c.rng, mp, &cast) {
            Some(e) => Some(e),
            None => return inconclusive("no gap in the distance set wide enough for a generic tolerance"),
        }
    };
    c.note("generator", json!(GEN_NAMES[kind]));
    c.note("n", json!(x.nrows()));
    c.note("features", json!(x.ncols()));
    c.note("metric", json!(format!("{m:?}")));
    c.note("min_points", json!(mp));
    c.note("tolerance", json!(eps));
    c.note("scale", json!(scale));
    c.note("offset", json!(offset));
    c.evals = 3;
    let key;
    let nontrivial;
    match algo {
        Algo::Dbscan => {
            let s = tri!(judge_dbscan(&x, &g, m, mp, F::cast(eps.unwrap()), false));
            c.note("truth", json!({"core": s.ncore, "border": s.nborder, "noise": s.nnoise, "clusters": s.nclusters, "border_shared_by_clusters": s.shared}));
            c.count_n("dbscan-border-points", s.nborder as u64);
            c.count_n("dbscan-border-points-reached-by-two-clusters", s.shared as u64);
            c.count_n("dbscan-clusters", s.nclusters as u64);
            nontrivial = s.ncore > 0 && (s.nborder + s.nnoise > 0 || s.nclusters > 1);
            key = format!("{} n={} p={} {m:?} mp={mp} c={} b={} z={} h={:x}", GEN_NAMES[kind], x.nrows(), x.ncols(), s.nclusters, s.nborder, s.nnoise,
                small_hash(x.iter().map(|v| f64_of(*v))));
        }
        Algo::Optics => {
            let s = tri!(judge_optics(&x, &g, m, mp, eps.map(F::cast), false));
            c.note("truth", json!({"core_distance_defined": s.ncore, "reachability_defined": s.nreach}));
            c.resid(if f32_run { "optics-core-distance-rel-f32" } else { "optics-core-distance-rel-f64" }, s.core_resid);
            c.resid(if f32_run { "optics-reachability-rel-f32" } else { "optics-reachability-rel-f64" }, s.reach_resid);
            c.count_n("optics-reachability-witnesses-found", s.nreach as u64);
            c.count_n("info:optics-reachability-equals-minimum-over-earlier-cores", s.reach_is_min as u64);
            c.count_n("info:optics-reachability-above-minimum-over-earlier-cores", s.reach_above_min as u64);
            nontrivial = s.nreach > 0 && x.nrows() >= mp;
            key = format!("{} n={} p={} {m:?} mp={mp} core={} reach={} h={:x}", GEN_NAMES[kind], x.nrows(), x.ncols(), s.ncore, s.nreach,
                small_hash(x.iter().map(|v| f64_of(*v))));
        }
    }
    held(nontrivial, key)
}

/// data on a dyadic lattice (every distance exact for every metric), tolerance = an inter-point
/// distance; or arbitrary floats under L-infinity / in one dimension under L1, where |a-b| is the
/// same single rounding for the code and the oracle
fn random_on_radius<F: Float>(c: &mut Case, algo: Algo, f32_run: bool) -> Outcome {
    let mp = *gen::pick(&mut c.rng, &[2usize, 2, 3, 3, 4, 5, 6]);
    let lattice = c.rng.gen_bool(0.7);
    let (x64, m, what): (Array2<f64>, Metric, &str) = if lattice {
        let p = c.rng.gen_range(1..=3);
        let n = c.rng.gen_range(3..=c.tier.pick(36, 90));
        let side: i64 = match p {
            1 => (n as i64).max(4),
            2 => ((n as f64).sqrt() as i64 + 2).max(3),
            _ => 4,
        };
        let sc = 2f64.powi(c.rng.gen_range(-3..=3));
        let off = if c.rng.gen_bool(0.3) { sc * c.rng.gen_range(-1000i64..1000) as f64 } else { 0.0 };
        let x = Array2::from_shape_fn((n, p), |_| sc * c.rng.gen_range(0..side) as f64 + off);
        (x, METRICS[c.rng.gen_range(0..3)], "dyadic-lattice")
    } else if c.rng.gen_bool(0.5) {
        let kind = c.rng.gen_range(0..GEN_NAMES.len());
        let x = gen_points(&mut c.rng, kind, c.tier.pick(36, 90), mp);
        (x, Metric::Linf, "floats-Linf")
    } else {
        let x = gen_points(&mut c.rng, 6, c.tier.pick(36, 90), mp);
        (x, *gen::pick(&mut c.rng, &[Metric::L1, Metric::Linf]), "floats-1d")
    };
    let x: Array2<F> = snap::<F>(&x64);
    let g = Geo::new(&x, m);
    let n = x.nrows();
    // tolerance := an exact inter-point distance
    let mut eps = None;
    for _ in 0..60 {
        let (i, j) = (c.rng.gen_range(0..n), c.rng.gen_range(0..n));
        let d = g.at(i, j);
        if !(d > 0.0) {
            continue;
        }
        let e: F = F::cast(d);
        if f64_of(e) != d {
            continue;
        }
        if m == Metric::L2 {
            // squared tolerance must equal the squared distance exactly (perfect squares only)
            let mut sq = F::zero();
            for (a, b) in x.row(i).iter().zip(x.row(j).iter()) {
                sq = sq + (*a - *b) * (*a - *b);
            }
            if e * e != sq {
                continue;
            }
        }
        eps = Some(e);
        break;
    }
    let Some(eps) = eps else { return inconclusive("no exactly representable on-radius tolerance found") };
    c.note("data_class", json!(what));
    c.note("n", json!(n));
    c.note("features", json!(x.ncols()));
    c.note("metric", json!(format!("{m:?}")));
    c.note("min_points", json!(mp));
    c.note("tolerance", json!(f64_of(eps)));
    c.evals = 3;
    let h = small_hash(x.iter().map(|v| f64_of(*v)));
    match algo {
        Algo::Dbscan => {
            let s = tri!(judge_dbscan(&x, &g, m, mp, eps, true));
            c.count_n("on-radius-pairs(dbscan)", s.border_pairs);
            c.count("on-radius-cases(dbscan)");
            held(s.border_pairs > 0 && s.ncore > 0,
                format!("{what} n={n} p={} {m:?} mp={mp} bp={} c={} h={h:x}", x.ncols(), s.border_pairs, s.nclusters))
        }
        Algo::Optics => {
            let s = tri!(judge_optics(&x, &g, m, mp, Some(eps), true));
            c.count_n("on-radius-pairs(optics)", s.border_pairs);
            c.count("on-radius-cases(optics)");
            c.resid(if f32_run { "optics-core-distance-rel-f32" } else { "optics-core-distance-rel-f64" }, s.core_resid);
            c.resid(if f32_run { "optics-reachability-rel-f32" } else { "optics-reachability-rel-f64" }, s.reach_resid);
            held(s.border_pairs > 0 && s.nreach > 0,
                format!("{what} n={n} p={} {m:?} mp={mp} bp={} reach={} h={h:x}", x.ncols(), s.border_pairs, s.nreach))
        }
    }
}

// ------------------------------------------------------------------------------------ exhaustive small scopes

/// every sequence of `n` points over the values 0..v (one feature), or over the cells of a 3x3
/// grid (two features)
fn seq_point(code: u64, n: usize, v: u64, two_d: bool) -> Array2<f64> {
    let mut q = code;
    let mut x = Array2::zeros((n, if two_d { 2 } else { 1 }));
    for i in 0..n {
        let cell = q % v;
        q /= v;
        if two_d {
            x[[i, 0]] = (cell % 3) as f64;
            x[[i, 1]] = (cell / 3) as f64;
        } else {
            x[[i, 0]] = cell as f64;
        }
    }
    x
}

struct Chunk {
    n: usize,
    v: u64,
    two_d: bool,
    start: u64,
    end: u64,
}

fn chunks(specs: &[(usize, u64, bool)], size: u64) -> Vec<Chunk> {
    let mut out = vec![];
    for &(n, v, two_d) in specs {
        let total = v.pow(n as u32);
        let mut s = 0;
        while s < total {
            out.push(Chunk { n, v, two_d, start: s, end: (s + size).min(total) });
            s += size;
        }
    }
    out
}

const EX_EPS_1D: [f64; 6] = [0.5, 1.0, 1.5, 2.0, 2.5, 3.0];
const EX_EPS_2D: [f64; 6] = [0.5, 1.0, 1.2, 1.7, 2.0, 2.5];

fn exhaustive_chunk(c: &mut Case, ch: &Chunk, algo: Algo) -> Outcome {
    let mps: &[usize] = if ch.two_d { &[2, 3] } else { &[2, 3, 4] };
    let epss: &[f64] = if ch.two_d { &EX_EPS_2D } else { &EX_EPS_1D };
    let mut evals = 0u64;
    let mut nontrivial = false;
    let mut shared = 0u64;
    let mut border_cases = 0u64;
    for code in ch.start..ch.end {
        let x = seq_point(code, ch.n, ch.v, ch.two_d);
        // metric: all three when two features; with one feature they coincide, rotate
        let metrics: &[Metric] = if ch.two_d { &METRICS } else { std::slice::from_ref(&METRICS[(code % 3) as usize]) };
        for &m in metrics {
            let g = Geo::new(&x, m);
            for &eps in epss {
                for &mp in mps {
                    evals += 3;
                    match algo {
                        Algo::Dbscan => {
                            let s = tri!(judge_dbscan(&x, &g, m, mp, eps, true));
                            shared += s.shared as u64;
                            if s.border_pairs > 0 {
                                border_cases += 1;
                            }
                            nontrivial |= s.ncore > 0 && (s.nborder + s.nnoise > 0 || s.nclusters > 1);
                        }
                        Algo::Optics => {
                            let s = tri!(judge_optics(&x, &g, m, mp, Some(eps), true));
                            if s.border_pairs > 0 {
                                border_cases += 1;
                            }
                            nontrivial |= s.nreach > 0;
                        }
                    }
                }
            }
        }
    }
    c.evals = evals;
    c.count_n("exhaustive-configurations-with-on-radius-pairs", border_cases);
    if algo == Algo::Dbscan {
        c.count_n("dbscan-border-points-reached-by-two-clusters", shared);
    }
    c.note("scope", json!({"n": ch.n, "values": ch.v, "two_features": ch.two_d, "sequences": [ch.start, ch.end]}));
    held(nontrivial, format!("n={} v={} 2d={} {}..{}", ch.n, ch.v, ch.two_d, ch.start, ch.end))
}

// ------------------------------------------------------------------------------------ degenerate inputs, layouts, calling forms

fn degenerate<F: Float>(c: &mut Case, f32_run: bool) -> Outcome {
    let _ = f32_run;
    // (rows, features, what)
    let shapes: [(usize, usize, u8); 12] = [
        (0, 1, 0), (0, 3, 0), (1, 1, 0), (1, 2, 0), (2, 1, 1), (3, 2, 1), (5, 1, 1), (6, 3, 1), (9, 2, 2), (0, 0, 3), (1, 0, 3), (7, 0, 3),
    ];
    let (n, p, what) = shapes[(c.idx % 12) as usize];
    let mp = *gen::pick(&mut c.rng, &[2usize, 3, 5, 6, 7]);
    let m = METRICS[c.rng.gen_range(0..3)];
    let x: Array2<F> = match what {
        1 => Array2::from_elem((n, p), F::cast(gen::uniform(&mut c.rng, -5.0, 5.0))), // all equal
        2 => Array2::from_shape_fn((n, p), |(i, _)| F::cast((i % 2) as f64 * 10.0)),   // two piles
        _ => Array2::from_shape_fn((n, p), |_| F::cast(gen::uniform(&mut c.rng, -1.0, 1.0))),
    };
    let eps: F = F::cast(*gen::pick(&mut c.rng, &[0.25, 1.0, 1e3]));
    c.note("rows", json!(n));
    c.note("features", json!(p));
    c.note("min_points", json!(mp));
    c.note("metric", json!(format!("{m:?}")));
    c.evals = 6;
    if p == 0 {
        // No coordinates: by the definition every distance is 0, so n >= min_points makes one
        // cluster; linfa deliberately answers "all noise / all undefined" for a zero-dimensional
        // batch (BuildError::ZeroDimension is mapped to that value in both transforms). The
        // property names zero features in its domain without saying which; both answers are
        // accepted (ambiguity class), but they must be well-formed and index independent.
        c.count("zero-feature-convention-cases");
        let mut first: Option<Vec<Option<usize>>> = None;
        for ix in INDICES {
            let l = match run_dbscan(&x, m, ix, mp, eps) {
                Ok(l) => l,
                Err(w) => bail!("C08/dbscan/panic-or-error", {"rows": n, "features": 0, "index": format!("{ix:?}"), "why": w}),
            };
            ensure!(l.len() == n, "C08/dbscan/output-length", {"rows": n, "features": 0, "returned": l.len()});
            let all_none = l.iter().all(|v| v.is_none());
            let one_cluster = n >= mp && l.iter().all(|v| *v == Some(0));
            ensure!(all_none || one_cluster, "C08/dbscan/zero-features-malformed", {"rows": n, "labels": l, "min_points": mp});
            if let Some(f) = &first {
                ensure!(*f == l, "C08/xindex/dbscan-labels-differ", {"rows": n, "features": 0});
            } else {
                first = Some(l);
            }
            let o = match run_optics(x.view(), m, ix, mp, Some(eps)) {
                Ok(o) => o,
                Err(w) => bail!("C08/optics/panic-or-error", {"rows": n, "features": 0, "index": format!("{ix:?}"), "why": w}),
            };
            let mut idx: Vec<usize> = o.iter().map(|s| s.idx).collect();
            idx.sort_unstable();
            ensure!(idx == (0..n).collect::<Vec<_>>(), "C08/optics/sample-listed-twice", {"rows": n, "features": 0, "listed": idx});
            for s in &o {
                ensure!(s.core.map_or(true, |v| v == 0.0) && s.reach.map_or(true, |v| v == 0.0),
                    "C08/optics/zero-features-malformed", {"rows": n, "core": s.core, "reach": s.reach});
            }
        }
        return held(false, format!("zero-features n={n} mp={mp}"));
    }
    let g = Geo::new(&x, m);
    let (bp, _) = g.border_pairs(f64_of(eps));
    if bp > 0 {
        return inconclusive("tolerance on a distance");
    }
    let s = tri!(judge_dbscan(&x, &g, m, mp, eps, false));
    let o = tri!(judge_optics(&x, &g, m, mp, Some(eps), false));
    let o2 = tri!(judge_optics(&x, &g, m, mp, None, false));
    c.resid(if f32_run { "optics-core-distance-rel-f32" } else { "optics-core-distance-rel-f64" }, o.core_resid.max(o2.core_resid));
    held(n >= 1, format!("degenerate n={n} p={p} what={what} mp={mp} {m:?} c={} reach={}", s.nclusters, o.nreach))
}

/// memory layouts and calling forms give the result of the plain call (which is oracle-checked)
fn layouts_and_forms<F: Float>(c: &mut Case) -> Outcome {
    let kind = c.rng.gen_range(0..GEN_NAMES.len());
    let mp = *gen::pick(&mut c.rng, &[2usize, 3, 4, 5]);
    let m = METRICS[c.rng.gen_range(0..3)];
    let x64 = gen_points(&mut c.rng, kind, c.tier.pick(40, 100), mp);
    let x: Array2<F> = snap::<F>(&x64);
    let (n, p) = x.dim();
    let g = Geo::new(&x, m);
    let cast = |v: f64| f64_of(F::cast(v));
    let Some(eps) = generic_eps(&g, &mut c.rng, mp, &cast) else { return inconclusive("no generic tolerance") };
    let eps: F = F::cast(eps);
    c.note("generator", json!(GEN_NAMES[kind]));
    c.note("n", json!(n));
    c.note("features", json!(p));
    c.note("metric", json!(format!("{m:?}")));
    c.note("min_points", json!(mp));
    c.note("tolerance", json!(f64_of(eps)));
    let s = tri!(judge_dbscan(&x, &g, m, mp, eps, false));
    let base = match run_dbscan(&x, m, Ix::Linear, mp, eps) {
        Ok(l) => l,
        Err(w) => bail!("C08/dbscan/panic-or-error", {"why": w}),
    };
    let obase = match run_optics(x.view(), m, Ix::Linear, mp, Some(eps)) {
        Ok(l) => l,
        Err(w) => bail!("C08/optics/panic-or-error", {"why": w}),
    };
    tri!(judge_optics(&x, &g, m, mp, Some(eps), false));
    // column-major copy and a strided window of a larger array
    let mut xf = Array2::<F>::zeros((n, p).f());
    xf.assign(&x);
    let mut big = Array2::<F>::from_elem((2 * n + 1, p + 2), F::cast(7.5));
    big.slice_mut(s![1..;2, 1..p + 1]).assign(&x);
    let win = big.slice(s![1..;2, 1..p + 1]);
    // rows stored back to front behind a negative row stride: contiguous rows, so all three indices
    let back = Array2::<F>::from_shape_fn((n, p), |(i, j)| x[[n - 1 - i, j]]);
    let rev = back.slice(s![..;-1, ..]);
    let mut evals = 6;
    for ix in [Ix::Linear, Ix::Kd, Ix::Ball] {
        evals += 2;
        match run_dbscan(&rev, m, ix, mp, eps) {
            Ok(l) => ensure!(l == base, "C08/layout/dbscan-labels-differ", {"layout": "rows-reversed", "index": format!("{ix:?}"), "n": n, "p": p, "data": data_json(&x)}),
            Err(w) => bail!("C08/layout/dbscan-panic-or-error", {"layout": "rows-reversed", "index": format!("{ix:?}"), "why": w}),
        }
        match run_optics(rev.view(), m, ix, mp, Some(eps)) {
            Ok(o) => ensure!(o == obase, "C08/layout/optics-analysis-differs", {"layout": "rows-reversed", "index": format!("{ix:?}"), "n": n, "p": p, "data": data_json(&x)}),
            Err(w) => bail!("C08/layout/optics-panic-or-error", {"layout": "rows-reversed", "index": format!("{ix:?}"), "why": w}),
        }
    }
    // rows of these layouts are not contiguous: the k-d tree documents a panic for that
    // ("views should be contiguous"), so only the other two indices are in the domain
    let idxs: &[Ix] = &[Ix::Linear, Ix::Ball];
    for &ix in idxs {
        for (name, l) in [("column-major", run_dbscan(&xf, m, ix, mp, eps)), ("strided-window", run_dbscan(&win, m, ix, mp, eps))] {
            evals += 1;
            match l {
                Ok(l) => ensure!(l == base, "C08/layout/dbscan-labels-differ", {"layout": name, "index": format!("{ix:?}"), "n": n, "p": p, "data": data_json(&x)}),
                Err(w) => bail!("C08/layout/dbscan-panic-or-error", {"layout": name, "index": format!("{ix:?}"), "why": w}),
            }
        }
        for (name, o) in [("column-major", run_optics(xf.view(), m, ix, mp, Some(eps))), ("strided-window", run_optics(win.view(), m, ix, mp, Some(eps)))] {
            evals += 1;
            match o {
                Ok(o) => ensure!(o == obase, "C08/layout/optics-analysis-differs", {"layout": name, "index": format!("{ix:?}"), "n": n, "p": p, "data": data_json(&x)}),
                Err(w) => bail!("C08/layout/optics-panic-or-error", {"layout": name, "index": format!("{ix:?}"), "why": w}),
            }
        }
    }
    // calling forms: checked params, dataset transformer, the unit-struct index types
    macro_rules! forms {
        ($dist:expr) => {{
            let r = guarded(|| {
                let checked = Dbscan::params_with(mp, $dist, CommonNearestNeighbour::BallTree).tolerance(eps).check().unwrap();
                let a: Array1<Option<usize>> = checked.transform(&x);
                let ds = DatasetBase::from(x.clone());
                let out = checked.transform(ds);
                let same_records = out.records() == &x;
                let b = out.targets().to_vec();
                let k: Array1<Option<usize>> = Dbscan::params_with(mp, $dist, KdTree).tolerance(eps).check().unwrap().transform(&x);
                let bt: Array1<Option<usize>> = Dbscan::params_with(mp, $dist, BallTree).tolerance(eps).check().unwrap().transform(&x);
                let ls: Array1<Option<usize>> = Dbscan::params_with(mp, $dist, LinearSearch).tolerance(eps).check().unwrap().transform(&x);
                let ok = Optics::params_with(mp, $dist, KdTree).tolerance(eps).check().unwrap().transform(x.view());
                let ok: Vec<OSample> = ok.iter().map(|s| OSample { idx: s.index(), core: s.core_distance().map(f64_of), reach: s.reachability_distance().map(f64_of) }).collect();
                // the setters in an unusual order: tolerance first, metric and index afterwards
                let ok2 = Optics::params_with(mp, $dist, KdTree).tolerance(eps).dist_fn($dist).nn_algo(KdTree).check().unwrap().transform(x.view());
                let ok2: Vec<OSample> = ok2.iter().map(|s| OSample { idx: s.index(), core: s.core_distance().map(f64_of), reach: s.reachability_distance().map(f64_of) }).collect();
                let k2: Array1<Option<usize>> = Dbscan::params_with(mp, $dist, KdTree).tolerance(eps).dist_fn($dist).nn_algo(KdTree).check().unwrap().transform(&x);
                let ok = if ok2 == ok { ok } else { ok2 };
                let k = if k2 == k { k } else { k2 };
                (a.to_vec(), same_records, b, k.to_vec(), bt.to_vec(), ls.to_vec(), ok)
            });
            match r {
                Ok(v) => v,
                Err(w) => bail!("C08/forms/panic", {"why": w, "n": n, "p": p}),
            }
        }};
    }
    let (a, same_records, b, k, bt, ls, ok) = match m {
        Metric::L1 => forms!(L1Dist),
        Metric::L2 => forms!(L2Dist),
        Metric::Linf => forms!(LInfDist),
    };
    evals += 6;
    ensure!(a == base, "C08/forms/checked-params-differ", {"n": n, "p": p});
    ensure!(same_records, "C08/forms/dataset-records-changed", {"n": n, "p": p});
    ensure!(b == base, "C08/forms/dataset-targets-differ", {"n": n, "p": p});
    ensure!(k == base && bt == base && ls == base, "C08/forms/index-struct-differs", {"n": n, "p": p});
    ensure!(ok == obase, "C08/forms/optics-index-struct-differs", {"n": n, "p": p});
    if m == Metric::L2 && f64_of(F::epsilon()) < 1e-10 {
        // the defaults: L2 and the k-d tree
        let r = guarded(|| {
            let d: Result<Array1<Option<usize>>, _> = Dbscan::params::<F>(mp).tolerance(eps).transform(&x);
            d.map(|v| v.to_vec())
        });
        match r {
            Ok(Ok(d)) => ensure!(d == base, "C08/forms/default-params-differ", {"n": n, "p": p}),
            Ok(Err(e)) => bail!("C08/forms/default-params-error", {"why": e.to_string()}),
            Err(w) => bail!("C08/forms/panic", {"why": w}),
        }
        evals += 1;
    }
    c.evals = evals;
    held(s.ncore > 0, format!("{} n={n} p={p} {m:?} mp={mp} c={} b={}", GEN_NAMES[kind], s.nclusters, s.nborder))
}

// ------------------------------------------------------------------------------------ entry

pub fn run(ctx: &Ctx) {
    ctx.set_rule(
        "Each case is one point set (chains, rings, touching blobs, duplicates, blobs+noise, lattices, one feature, \
         uniform clouds, dense groups joined by a sparse bridge, mixed densities; shuffled rows; hostile scale/offset; \
         f32 and f64) with a metric (L1/L2/Linf), min_points in 2..8 and a tolerance, run with all three neighbour \
         indices. DBSCAN case non-trivial: at least one core point and (a border point, a noise point or two clusters). \
         OPTICS case non-trivial: at least one defined reachability whose witness was found. On-radius case non-trivial: \
         at least one pair exactly on the radius. Exhaustive families enumerate every sequence of n points over a small \
         value grid with every tolerance/min_points of a fixed list; distinct key = generator, shape, parameters, truth \
         counts and a hash of the data.",
    );
    ctx.assume("the harness's own L1/L2/Linf formulas evaluated in the element type, brute force over all pairs");
    ctx.assume("generic tolerance: no inter-point distance within 4(p+2)eps_F*tolerance of the tolerance (checked per case, else inconclusive)");
    ctx.assume("on-radius tolerance: data on a dyadic lattice / L-infinity / one feature, where distance and comparison are exact for code and oracle; every pair in the rounding band is verified to be an exact tie (else inconclusive)");
    ctx.assume("columns are snapped to a grid of 8 ulp so that no two distinct coordinates are adjacent floats (the external kdtree crate overflows its stack there; reported under C07)");
    ctx.assume("non-contiguous rows are given to the linear scan and the ball tree only (the k-d tree documents a panic for them)");
    ctx.assume("zero-feature input: both 'all noise/undefined' (linfa's explicit choice) and the literal definition are accepted");

    let t = ctx.tier;
    ctx.family("dbscan-generic-f64", t.pick(500, 3000), |c| random_generic::<f64>(c, Algo::Dbscan, false));
    ctx.family("dbscan-generic-f32", t.pick(250, 1500), |c| random_generic::<f32>(c, Algo::Dbscan, true));
    ctx.family("optics-generic-f64", t.pick(500, 3000), |c| random_generic::<f64>(c, Algo::Optics, false));
    ctx.family("optics-generic-f32", t.pick(250, 1500), |c| random_generic::<f32>(c, Algo::Optics, true));
    ctx.family("dbscan-on-radius-f64", t.pick(300, 2000), |c| random_on_radius::<f64>(c, Algo::Dbscan, false));
    ctx.family("dbscan-on-radius-f32", t.pick(150, 1000), |c| random_on_radius::<f32>(c, Algo::Dbscan, true));
    ctx.family("optics-on-radius-f64", t.pick(300, 2000), |c| random_on_radius::<f64>(c, Algo::Optics, false));
    ctx.family("optics-on-radius-f32", t.pick(150, 1000), |c| random_on_radius::<f32>(c, Algo::Optics, true));
    ctx.family("rounded-tie-index-agreement-f64", t.pick(600, 4000), |c| rounded_tie_index_agreement::<f64>(c, false));
    ctx.family("rounded-tie-index-agreement-f32", t.pick(300, 2000), |c| rounded_tie_index_agreement::<f32>(c, true));
    ctx.family("degenerate-f64", t.pick(120, 600), |c| degenerate::<f64>(c, false));
    ctx.family("degenerate-f32", t.pick(120, 600), |c| degenerate::<f32>(c, true));
    ctx.family("layouts-forms-f64", t.pick(100, 600), |c| layouts_and_forms::<f64>(c));
    ctx.family("layouts-forms-f32", t.pick(60, 300), |c| layouts_and_forms::<f32>(c));

    // complete enumeration of small scopes
    let db_specs: Vec<(usize, u64, bool)> = t.pick(
        vec![(1, 5, false), (2, 5, false), (3, 5, false), (4, 5, false), (5, 5, false), (6, 5, false), (7, 5, false),
             (2, 9, true), (3, 9, true), (4, 9, true)],
        vec![(1, 6, false), (2, 6, false), (3, 6, false), (4, 6, false), (5, 6, false), (6, 6, false), (7, 6, false),
             (2, 9, true), (3, 9, true), (4, 9, true), (5, 9, true)],
    );
    let op_specs: Vec<(usize, u64, bool)> = t.pick(
        vec![(1, 5, false), (2, 5, false), (3, 5, false), (4, 5, false), (5, 5, false), (6, 5, false),
             (2, 9, true), (3, 9, true), (4, 9, true)],
        vec![(1, 6, false), (2, 6, false), (3, 6, false), (4, 6, false), (5, 6, false), (6, 6, false), (7, 5, false),
             (2, 9, true), (3, 9, true), (4, 9, true), (5, 9, true)],
    );
    {
        let dbc = chunks(&db_specs, 2048);
        ctx.family("dbscan-exhaustive", dbc.len() as u64, |c| exhaustive_chunk(c, &dbc[c.idx as usize], Algo::Dbscan));
        let opc = chunks(&op_specs, 1024);
        ctx.family("optics-exhaustive", opc.len() as u64, |c| exhaustive_chunk(c, &opc[c.idx as usize], Algo::Optics));
        for (n, v, two_d) in &db_specs {
            ctx.set_exhaustive(&format!("dbscan: all {v}^{n} sequences of {n} points over {} x tolerances x min_points x 3 indices", if *two_d { "a 3x3 grid" } else { "integer positions" }), true);
        }
        for (n, v, two_d) in &op_specs {
            ctx.set_exhaustive(&format!("optics: all {v}^{n} sequences of {n} points over {} x tolerances x min_points x 3 indices", if *two_d { "a 3x3 grid" } else { "integer positions" }), true);
        }
    }
    let rej = f64::from_bits(MIN_REJECTED_REL.load(std::sync::atomic::Ordering::Relaxed));
    ctx.extra(
        "tolerances",
        json!({
            "published_distance_vs_oracle": "noise floor 16(p+2)*eps_F relative (f64: 7e-15..3e-14, f32: 6e-6..1.5e-5); clean-tree residuals are in largest_residuals",
            "smallest_relative_deviation_rejected_in_this_run": if rej.is_finite() { json!(rej) } else { json!("none rejected") },
            "rejected_deviations_at_least_100x_the_floor": REJECTED_FAR.load(std::sync::atomic::Ordering::Relaxed),
            "rejected_deviations_below_100x_the_floor": REJECTED_NEAR.load(std::sync::atomic::Ordering::Relaxed),
            "pair_classification_band": "4(p+2)*eps_F*tolerance around the tolerance; generic cases have no pair inside it, on-radius cases only exact ties",
        }),
    );
}
